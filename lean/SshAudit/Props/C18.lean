/-
  C18 — The tool connects to, and reports on, exactly the target that was named.

  Model: SshAudit.Model.Target (tied to utils.py, ssh_audit.py, auditconf.py, ssh_socket.py by
  correspondence, unit-wise and on whole main() runs over the fake network).  Every theorem
  quantifies over all strings / ports / resolver answers (no bound on size).
-/
import SshAudit.Lemmas.Target
namespace SshAudit.C18
open SshAudit SshAudit.Text SshAudit.Target

/-! ### the documented ways of writing a target -/

/-- a host name or an IPv4 literal as written: non-empty, no colon, does not start a bracket form -/
def NameLike (h : Str) : Prop := h ≠ [] ∧ ':' ∉ h ∧ h.head? ≠ some '['

/-- an IPv6 literal as written: at least two colons and no brackets (every address accepted by
    `ipaddress.IPv6Address` has two colons: `ipv6_two_colons`) -/
def V6Like (h : Str) : Prop := 2 ≤ h.count ':' ∧ '[' ∉ h ∧ ']' ∉ h

/-- a port as written: decimal digits (leading zeros allowed; CPython refuses more than 4300) -/
def PortText (ds : Str) : Prop := ds ≠ [] ∧ (∀ c ∈ ds, isDigit c = true) ∧ ds.length ≤ maxStrDigits

/-- `Spelled text host port?`: `text` is a documented spelling of `host` with an optional explicit port -/
inductive Spelled : Str → Str → Option Nat → Prop
  | bare (h : Str) : NameLike h → Spelled h h none
  | withPort (h ds : Str) : NameLike h → PortText ds → Spelled (h ++ ':' :: ds) h (some (decVal ds))
  | v6 (h : Str) : V6Like h → Spelled h h none
  | v6Bracket (h : Str) : V6Like h → Spelled ('[' :: h ++ [']']) h none
  | v6BracketPort (h ds : Str) : V6Like h → PortText ds → Spelled ('[' :: h ++ ']' :: ':' :: ds) h (some (decVal ds))

/-- the port a spelling denotes under a default -/
def portOf (e : Option Nat) (dflt : Int) : Int := match e with | some p => (p : Int) | none => dflt

/-- `str(p)` is a port text that reads back as `p` (`Nat.repr`-style round trip) -/
theorem portText_showNat (p : Nat) (h : p < 10 ^ maxStrDigits) : PortText (showNat p) ∧ decVal (showNat p) = p :=
  ⟨⟨showNat_ne_nil p, showNat_digits p, showNat_length_le (maxStrDigits - 1) p h⟩, decVal_showNat p⟩

theorem V6Like.ne_nil {h : Str} (hv : V6Like h) : h ≠ [] := by
  intro e; subst e; have := hv.1; simp at this

theorem V6Like.head {h : Str} (hv : V6Like h) : h.head? ≠ some '[' := by
  intro e
  cases h with
  | nil => simp at e
  | cons c r => simp at e; subst e; exact hv.2.1 (by simp)

/-! ### `parse_host_and_port` on every documented form -/

theorem parse_name (h : Str) (d : Int) (hn : NameLike h) : parseHostPort h d = .ok (h, d) := by
  apply parse_default h d (bracketMatch_none h hn.2.2)
  rw [splitOn_no_sep ':' h hn.2.1]; simp

theorem parse_name_port (h ds : Str) (d : Int) (hn : NameLike h) (hp : PortText ds) :
    parseHostPort (h ++ ':' :: ds) d = .ok (h, (decVal ds : Nat)) := by
  obtain ⟨hne, hc, hb⟩ := hn
  have hhead : (h ++ ':' :: ds).head? ≠ some '[' := by
    cases h with
    | nil => exact absurd rfl hne
    | cons c r => simpa using hb
  unfold parseHostPort
  rw [bracketMatch_none _ hhead, splitOn_append_sep ':' h ds hc, splitOn_no_sep ':' ds (digits_no_colon ds hp.2.1)]
  have hl : ds.length > 0 := by
    cases ds with
    | nil => exact absurd rfl hp.1
    | cons c r => simp
  simp only [hl, if_true, pyInt_digits ds hp.1 hp.2.1 hp.2.2]

theorem parse_bare_v6 (h : Str) (d : Int) (hv : V6Like h) : parseHostPort h d = .ok (h, d) := by
  apply parse_default h d (bracketMatch_none h hv.head)
  rw [splitOn_length]; have := hv.1; omega

theorem parse_bracket (h : Str) (d : Int) (hne : h ≠ []) (hb : ']' ∉ h) :
    parseHostPort ('[' :: h ++ [']']) d = .ok (h, d) := by
  unfold parseHostPort
  rw [bracketMatch_bracket h [] hne hb]
  simp [afterBracket, atDollar]

theorem parse_bracket_port (h ds : Str) (d : Int) (hne : h ≠ []) (hb : ']' ∉ h) (hp : PortText ds) :
    parseHostPort ('[' :: h ++ ']' :: ':' :: ds) d = .ok (h, (decVal ds : Nat)) := by
  unfold parseHostPort
  rw [bracketMatch_bracket h (':' :: ds) hne hb]
  have hE : ds.isEmpty = false := by cases ds with | nil => exact absurd rfl hp.1 | cons _ _ => rfl
  simp only [afterBracket, takeWhile_all isDigit ds hp.2.1, dropWhile_all isDigit ds hp.2.1, hE, atDollar]
  simp [pyInt_digits ds hp.1 hp.2.1 hp.2.2]

/-- **parse_forms**: every documented spelling is read as the host and port it denotes -/
theorem parse_forms (s h : Str) (e : Option Nat) (d : Int) (hs : Spelled s h e) :
    parseHostPort s d = .ok (h, portOf e d) := by
  cases hs with
  | bare _ hn => exact parse_name _ d hn
  | withPort _ ds hn hp => exact parse_name_port _ ds d hn hp
  | v6 _ hv => exact parse_bare_v6 _ d hv
  | v6Bracket _ hv => exact parse_bracket _ d hv.ne_nil hv.2.2
  | v6BracketPort _ ds hv hp => exact parse_bracket_port _ ds d hv.ne_nil hv.2.2 hp

/-! ### the command line -/

theorem Spelled.text_ne_nil {s h : Str} {e : Option Nat} (hs : Spelled s h e) : s ≠ [] := by
  cases hs with
  | bare _ hn => exact hn.1
  | withPort _ ds hn hp => cases h <;> simp
  | v6 _ hv => exact hv.ne_nil
  | v6Bracket _ hv => simp
  | v6BracketPort _ ds hv hp => simp

theorem Spelled.host_ne_nil {s h : Str} {e : Option Nat} (hs : Spelled s h e) : h ≠ [] := by
  cases hs with
  | bare _ hn => exact hn.1
  | withPort _ ds hn hp => exact hn.1
  | v6 _ hv => exact hv.ne_nil
  | v6Bracket _ hv => exact hv.ne_nil
  | v6BracketPort _ ds hv hp => exact hv.ne_nil

/-- a single target on the command line -/
def single (s : Str) (q : Option Int) (flags : List Nat) : Args :=
  { host := s, oport := q, flags := flags, clientAudit := false, targets := none }

theorem cmdTarget_single (s h : Str) (e : Option Nat) (q : Option Int) (flags : List Nat) (hs : Spelled s h e) :
    cmdTarget (single s q flags) = .ok (h, portOf e (optDefault q)) := by
  simp [cmdTarget, single, parse_forms s h e (optDefault q) hs, hs.host_ne_nil]

theorem cmdPort_single (s : Str) (q : Option Int) (flags : List Nat) (p : Int) (hq : ∀ v, q = some v → InRange v) :
    cmdPort (single s q flags) p = .ok p := by
  cases q with
  | none => simp [cmdPort, single]
  | some v =>
    have := hq v rfl
    unfold InRange at this
    have h' : ¬ (v < 1 ∨ v > 65535) := by omega
    simp [cmdPort, single, h']

/-- **cmdline_port_default**: with or without `-p q`, every documented spelling yields the spelled
    host and (explicit port, else `q`, else 22).  Holds of the code after the D18 repair. -/
theorem cmdline_port_default (s h : Str) (e : Option Nat) (q : Option Int) (flags : List Nat) (hs : Spelled s h e)
    (hq : ∀ v, q = some v → InRange v) (hp : InRange (portOf e (optDefault q))) :
    cmdline (single s q flags)
      = .ok { host := h, port := portOf e (optDefault q), pref := ipPref flags, clientAudit := false, targetList := [] } := by
  have h1 : ¬ ((single s q flags).host = [] ∧ (single s q flags).clientAudit = false ∧ (single s q flags).targets = none) := by
    intro hc; exact hs.text_ne_nil hc.1
  unfold cmdline
  rw [if_neg h1, cmdTarget_single s h e q flags hs]
  simp only [cmdPort_single s q flags _ hq, checkPort_ok _ hp]
  rfl

/-- a port outside 1..65535 written in the target is refused by `process_commandline` -/
theorem cmdline_bad_target_port (s h : Str) (p : Nat) (q : Option Int) (flags : List Nat) (hs : Spelled s h (some p))
    (hq : ∀ v, q = some v → InRange v) (hp : ¬ InRange p) :
    cmdline (single s q flags) = .error .value := by
  have h1 : ¬ ((single s q flags).host = [] ∧ (single s q flags).clientAudit = false ∧ (single s q flags).targets = none) := by
    intro hc; exact hs.text_ne_nil hc.1
  unfold cmdline
  rw [if_neg h1, cmdTarget_single s h _ q flags hs]
  simp only [cmdPort_single s q flags _ hq]
  have : checkPort (portOf (some p) (optDefault q)) = .error .value := checkPort_bad _ hp
  rw [this]

/-- an out-of-range `-p` is refused whatever the rest of the command line says -/
theorem cmdline_bad_option (a : Args) (v : Int) (hq : a.oport = some v) (hv : ¬ InRange v) :
    ∃ e, cmdline a = .error e := by
  unfold cmdline
  split
  · exact ⟨_, rfl⟩
  · cases hT : cmdTarget a with
    | error e => exact ⟨e, rfl⟩
    | ok hp =>
      obtain ⟨host, port⟩ := hp
      unfold InRange at hv
      have h' : (v < 1 ∨ v > 65535) := by omega
      simp [cmdPort, hq, h']

/-! ### IP versions: which families, in which order -/

/-- **cmdline_family_order**: for every command line the recorded `ip_version_preference` is the list of
    requested versions in the order the options were given (first appearances: `-64`, `-6 -4`,
    `-646` give `[6, 4]`; `-46`, `-446` give `[4, 6]`; `-4 -4` gives `[4]`).  Holds of the code after the
    D33 repair. -/
theorem cmdline_family_order (flags : List Nat) (hf : FlagsOK flags) : ipPref flags = requestedOrder flags := by
  have := ipPref_fold flags [] hf
  have hall : (requestedOrder flags).filter (fun x => !([] : List Nat).contains x) = requestedOrder flags :=
    List.filter_eq_self.2 (fun _ _ => by simp)
  rw [hall] at this
  simpa [ipPref] using this

/-- the shape of a request: the first flag, then the other version if it was written at all -/
theorem requestedOrder_shape (f : Nat) (r : List Nat) (hf : FlagsOK (f :: r)) :
    (f = 4 ∧ requestedOrder (f :: r) = 4 :: (if 6 ∈ r then [6] else [])) ∨
    (f = 6 ∧ requestedOrder (f :: r) = 6 :: (if 4 ∈ r then [4] else [])) := by
  have hr : FlagsOK r := fun x hx => hf x (by simp [hx])
  rcases hf f (by simp) with e | e
  · subst e; left
    exact ⟨rfl, by simp only [requestedOrder]; rw [requestedOrder_filter r hr 4 6 (Or.inl ⟨rfl, rfl⟩)]⟩
  · subst e; right
    exact ⟨rfl, by simp only [requestedOrder]; rw [requestedOrder_filter r hr 6 4 (Or.inr ⟨rfl, rfl⟩)]⟩

/-- **family_single**: with only `-4` (only `-6`) the resolver is asked for that family alone; with both
    or none it is asked for any family -/
theorem family_single (flags : List Nat) (hf : FlagsOK flags) :
    familyArg (ipPref flags) =
      if 4 ∈ flags ∧ 6 ∉ flags then AF_INET else if 6 ∈ flags ∧ 4 ∉ flags then AF_INET6 else 0 := by
  rw [cmdline_family_order flags hf]
  cases flags with
  | nil => rfl
  | cons f r =>
    rcases requestedOrder_shape f r hf with ⟨e, h⟩ | ⟨e, h⟩ <;> subst e <;> rw [h]
    · by_cases h6 : 6 ∈ r <;> simp [familyArg, h6]
    · by_cases h4 : 4 ∈ r <;> simp [familyArg, h4]

/-! ### `_resolve`: order of the addresses -/

/-- the stream addresses of one family, in the resolver's order -/
def streamsOf (fam : Nat) (ans : List AddrInfo) : List AddrInfo :=
  ans.filter (fun a => a.af == fam && a.stype == SOCK_STREAM)

/-- **family_order**: for a preference of two versions the addresses `_resolve` yields are all stream
    addresses of the preferred family followed by all of the other family, each in the resolver's
    order (so: a permutation of the answer, preferred family first, stable inside a family) -/
theorem family_order (ans : List AddrInfo) (h : ∀ a ∈ ans, a.af = AF_INET ∨ a.af = AF_INET6) :
    resolveOrder [4, 6] ans = streamsOf AF_INET ans ++ streamsOf AF_INET6 ans ∧
    resolveOrder [6, 4] ans = streamsOf AF_INET6 ans ++ streamsOf AF_INET ans := by
  have h46 := sortBy_two false ans AF_INET AF_INET6 (by decide) h
  have h64 := sortBy_two true ans AF_INET AF_INET6 (by decide) h
  simp only [Bool.false_eq_true, if_false, if_true] at h46 h64
  constructor
  · have : resolveOrder [4, 6] ans = (sortBy false ans).filter (fun a => a.stype == SOCK_STREAM) := rfl
    rw [this, h46, List.filter_append, List.filter_filter, List.filter_filter]
    simp only [streamsOf, Bool.and_comm]
  · have : resolveOrder [6, 4] ans = (sortBy true ans).filter (fun a => a.stype == SOCK_STREAM) := rfl
    rw [this, h64, List.filter_append, List.filter_filter, List.filter_filter]
    simp only [streamsOf, Bool.and_comm]

/-- no preference or a single version: the resolver's order is kept -/
theorem family_order_single (pref : List Nat) (ans : List AddrInfo) (h : pref.length ≠ 2) :
    resolveOrder pref ans = ans.filter (fun a => a.stype == SOCK_STREAM) := by
  simp [resolveOrder, h]

/-- **run_family_order**: when both versions are requested on the command line, the addresses are tried
    with the family of the option given first in front: `-64` / `-6 -4` try every IPv6 stream address
    before any IPv4 one, `-46` / `-4 -6` the other way round (resolver order kept inside a family) -/
theorem run_family_order (flags : List Nat) (ans : List AddrInfo) (hf : FlagsOK flags) (h4 : 4 ∈ flags) (h6 : 6 ∈ flags)
    (h : ∀ a ∈ ans, a.af = AF_INET ∨ a.af = AF_INET6) :
    resolveOrder (ipPref flags) ans =
      if flags.head? = some 6 then streamsOf AF_INET6 ans ++ streamsOf AF_INET ans
      else streamsOf AF_INET ans ++ streamsOf AF_INET6 ans := by
  rw [cmdline_family_order flags hf]
  cases flags with
  | nil => simp at h4
  | cons f r =>
    rcases requestedOrder_shape f r hf with ⟨e, hs⟩ | ⟨e, hs⟩ <;> subst e <;> rw [hs]
    · have : 6 ∈ r := by simpa using h6
      simp only [this, if_true, List.head?_cons]
      rw [(family_order ans h).1]
      simp
    · have : 4 ∈ r := by simpa using h4
      simp only [this, if_true, List.head?_cons]
      rw [(family_order ans h).2]

/-- whatever the families in the answer: `_resolve` yields a permutation of its stream addresses
    (nothing invented, nothing lost) -/
theorem resolveOrder_perm (pref : List Nat) (ans : List AddrInfo) :
    (resolveOrder pref ans).Perm (ans.filter (fun a => a.stype == SOCK_STREAM)) := by
  unfold resolveOrder
  split
  · exact (sortBy_perm _ ans).filter _
  · exact List.Perm.refl _

/-! ### `connect`: what is dialled -/

/-- **first_only**: one `connect()` asks the resolver once, for exactly the given host, port and the
    family argument, and dials at most one address: the first one of `_resolve`'s order -/
theorem first_only (pref : List Nat) (host : Str) (port : Int) (res : Resolver) (up : AddrInfo → Bool) :
    (dial pref host port res up).1 =
      Event.resolve host port (familyArg pref) ::
        (match res host port (familyArg pref) with
         | none => []
         | some ans =>
           match (resolveOrder pref ans).head? with
           | none => []
           | some a => [Event.connect a.af a.ip a.port]) := by
  unfold dial
  cases res host port (familyArg pref) with
  | none => rfl
  | some ans =>
    simp only
    cases resolveOrder pref ans with
    | nil => rfl
    | cons a r => rfl

/-! ### IPv6 literals -/

/-- **ipv6_two_colons**: every text `ipaddress.IPv6Address` accepts (compressed, full, with an IPv4
    suffix, with a scope id) is non-empty and has at least two colons -/
theorem ipv6_two_colons (h : Str) (hv : isIPv6 h = true) : 2 ≤ h.count ':' ∧ h ≠ [] := by
  have key : 2 ≤ h.count ':' := by
    unfold isIPv6 at hv
    split at hv
    · simp at hv
    · split at hv
      · next a hs => rw [splitOn_one '%' h a hs]; exact isIPv6Addr_colons a hv
      · next a sc hs =>
        simp only [Bool.and_eq_true] at hv
        rw [splitOn_two '%' h a sc hs]
        exact Nat.le_trans (isIPv6Addr_colons a hv.2) (count_le_append_left ':' a _)
      · simp at hv
  refine ⟨key, ?_⟩
  intro e; subst e; simp at key

/-- a host name / IPv4 literal is never taken for an IPv6 address -/
theorem nameLike_not_ipv6 (h : Str) (hn : NameLike h) : isIPv6 h = false := by
  cases hv : isIPv6 h with
  | false => rfl
  | true =>
    have := (ipv6_two_colons h hv).1
    have h0 : h.count ':' = 0 := List.count_eq_zero.2 hn.2.1
    omega

/-! ### labels -/

/-- the optional port a label shows -/
def shownPort (p : Nat) : Option Nat := if (p : Int) = 22 then none else some p

theorem portOf_shownPort (p : Nat) : portOf (shownPort p) 22 = (p : Int) := by
  unfold shownPort portOf
  split <;> simp_all

/-- **label_matches**: the text label of a report on `(h, p)` — "(gen) target:" in a multi-target
    run, "Host:" in a policy run — is `h`, `h:p` or `[h6]:p` (port shown iff it is not 22): itself a
    documented spelling of exactly `(h, p)` -/
theorem label_spelled (h : Str) (p : Nat) (hp : p < 10 ^ maxStrDigits)
    (hh : NameLike h ∨ (isIPv6 h = true ∧ '[' ∉ h ∧ ']' ∉ h)) :
    Spelled (labelText h p) h (shownPort p) := by
  obtain ⟨hpt, hdv⟩ := portText_showNat p hp
  unfold labelText shownPort
  by_cases h22 : (p : Int) = 22
  · simp only [h22, bne_self_eq_false, Bool.false_eq_true, if_false, if_true]
    rcases hh with hn | ⟨hv, hb1, hb2⟩
    · exact Spelled.bare h hn
    · exact Spelled.v6 h ⟨(ipv6_two_colons h hv).1, hb1, hb2⟩
  · have hne : ((p : Int) != 22) = true := by simpa using h22
    simp only [hne, if_true, h22, if_false]
    have hs : showInt (p : Int) = showNat p := rfl
    rw [hs]
    rcases hh with hn | ⟨hv, hb1, hb2⟩
    · have := Spelled.withPort h (showNat p) hn hpt
      rw [hdv] at this
      simpa [bracketed, nameLike_not_ipv6 h hn] using this
    · have := Spelled.v6BracketPort h (showNat p) ⟨(ipv6_two_colons h hv).1, hb1, hb2⟩ hpt
      rw [hdv] at this
      simpa [bracketed, hv] using this

/-- … and therefore reads back as `(h, p)` -/
theorem label_matches (h : Str) (p : Nat) (hp : p < 10 ^ maxStrDigits)
    (hh : NameLike h ∨ (isIPv6 h = true ∧ '[' ∉ h ∧ ']' ∉ h)) :
    parseHostPort (labelText h p) 22 = .ok (h, (p : Int)) := by
  rw [parse_forms _ h _ 22 (label_spelled h p hp hh), portOf_shownPort]

/-- the "Starting audit of …" line (-v) always shows the port -/
theorem label_verbose_matches (h : Str) (p : Nat) (hp : p < 10 ^ maxStrDigits)
    (hh : NameLike h ∨ (isIPv6 h = true ∧ '[' ∉ h ∧ ']' ∉ h)) (d : Int) :
    parseHostPort (labelVerbose h p) d = .ok (h, (p : Int)) := by
  obtain ⟨hpt, hdv⟩ := portText_showNat p hp
  have hs : showInt (p : Int) = showNat p := rfl
  unfold labelVerbose
  rw [hs]
  rcases hh with hn | ⟨hv, hb1, hb2⟩
  · have := parse_name_port h (showNat p) d hn hpt
    rw [hdv] at this
    simpa [bracketed, nameLike_not_ipv6 h hn] using this
  · have := parse_bracket_port h (showNat p) d (ipv6_two_colons h hv).2 hb2 hpt
    rw [hdv] at this
    simpa [bracketed, hv] using this

/-- the JSON label is the plain concatenation `host:port` -/
theorem label_json_eq (h : Str) (p : Nat) : labelJson h p = h ++ ':' :: showNat p := by
  have hs : showInt (p : Int) = showNat p := rfl
  simp [labelJson, hs]

/-- for a host name / IPv4 literal it reads back as `(h, p)` … -/
theorem label_json_matches (h : Str) (p : Nat) (hp : p < 10 ^ maxStrDigits) (hn : NameLike h) (d : Int) :
    parseHostPort (labelJson h p) d = .ok (h, (p : Int)) := by
  obtain ⟨hpt, hdv⟩ := portText_showNat p hp
  have := parse_name_port h (showNat p) d hn hpt
  rw [hdv] at this
  rw [label_json_eq]
  exact this

/-- … but for an IPv6 literal it does not (observation D30): `::1:2222` is read as a bare IPv6 host -/
theorem json_label_v6_not_reparsed (h : Str) (p : Nat) (hv : V6Like h) (d : Int) :
    parseHostPort (labelJson h p) d = .ok (labelJson h p, d) := by
  rw [label_json_eq]
  apply parse_default
  · apply bracketMatch_none
    cases h with
    | nil => exact absurd rfl hv.ne_nil
    | cons c r => simpa using hv.head
  · rw [splitOn_length, List.count_append]
    have := hv.1
    simp; omega

/-- **ipv6_no_brackets**: an accepted IPv6 literal without a scope id consists of hex digits, colons and
    dots only — in particular it has no brackets (with a scope id, `ipaddress` accepts any text) -/
theorem ipv6_no_brackets (h : Str) (hv : isIPv6 h = true) (hs : '%' ∉ h) :
    (∀ c ∈ h, v6Char c = true) ∧ '[' ∉ h ∧ ']' ∉ h := by
  have key : ∀ c ∈ h, v6Char c = true := by
    unfold isIPv6 at hv
    split at hv
    · simp at hv
    · rw [splitOn_no_sep '%' h hs] at hv
      exact isIPv6Addr_chars h hv
  exact ⟨key, fun hc => absurd (key _ hc) (by decide), fun hc => absurd (key _ hc) (by decide)⟩

/-- the documented hosts: a name / IPv4 literal, or an IPv6 literal (no scope id) -/
def DocHost (h : Str) : Prop := NameLike h ∨ (isIPv6 h = true ∧ '%' ∉ h)

theorem DocHost.labelable {h : Str} (hh : DocHost h) : NameLike h ∨ (isIPv6 h = true ∧ '[' ∉ h ∧ ']' ∉ h) := by
  rcases hh with hn | ⟨hv, hs⟩
  · exact Or.inl hn
  · exact Or.inr ⟨hv, (ipv6_no_brackets h hv hs).2⟩

/-- **label_matches_doc**: for every documented host and every port the text label and the "Starting
    audit of" label read back as exactly `(h, p)` -/
theorem label_matches_doc (h : Str) (p : Nat) (hp : p < 10 ^ maxStrDigits) (hh : DocHost h) (d : Int) :
    parseHostPort (labelText h p) 22 = .ok (h, (p : Int)) ∧ parseHostPort (labelVerbose h p) d = .ok (h, (p : Int)) :=
  ⟨label_matches h p hp hh.labelable, label_verbose_matches h p hp hh.labelable d⟩

/-- an IPv6 literal is a documented bare spelling of itself -/
theorem spelled_ipv6 (h : Str) (hv : isIPv6 h = true) (hs : '%' ∉ h) : Spelled h h none :=
  Spelled.v6 h ⟨(ipv6_two_colons h hv).1, (ipv6_no_brackets h hv hs).2⟩

/-! ### whole runs: single target -/

/-- the report the tool gives for `(h, p)` when the connection attempt ended with `err` -/
def reportOf (h : Str) (p : Int) (err : Option ConnErr) : Report :=
  { host := h, port := p, text := labelText h p, verbose := labelVerbose h p, json := labelJson h p, err := err }

theorem auditTarget_ok (pref : List Nat) (h : Str) (p : Int) (res : Resolver) (up : AddrInfo → Bool) (hp : InRange p) :
    auditTarget pref h p res up = ((dial pref h p res up).1, .ok (reportOf h p (dial pref h p res up).2)) := by
  simp [auditTarget, checkPort_ok p hp, reportOf]

/-- **named_target_dialled**: for every documented spelling `s` of `(h, e)`, every valid `-p q` (or none)
    and every `-4`/`-6` combination: the run resolves exactly `h` with the denoted port and the
    recorded family argument, dials at most the first address of `_resolve`'s order (`first_only`),
    and — if the connection succeeds — reports on host `h`, port `p` with the labels of `(h, p)` -/
theorem named_target_dialled (s h : Str) (e : Option Nat) (q : Option Int) (flags : List Nat) (res : Resolver)
    (up : AddrInfo → Bool) (hs : Spelled s h e) (hq : ∀ v, q = some v → InRange v)
    (hp : InRange (portOf e (optDefault q))) :
    let p := portOf e (optDefault q)
    let d := dial (ipPref flags) h p res up
    mainRun (single s q flags) res up =
      (d.1, match d.2 with
            | some _ => .error (.sysExit CONNECTION_ERROR)
            | none => .ok [.ok (reportOf h p none)]) := by
  intro p d
  unfold mainRun
  rw [cmdline_port_default s h e q flags hs hq hp]
  simp only [runConf, Bool.false_eq_true, if_false, List.length_nil, Nat.lt_irrefl, gt_iff_lt]
  rw [auditTarget_ok _ h p res up hp]
  simp only [reportOf]
  cases hd : (dial (ipPref flags) h p res up).2 with
  | none => simp [d, p]
  | some c => simp [d, p]

/-! ### ports outside 1..65535 -/

/-- **port_range** (single target): an out-of-range port written in the target is rejected before any
    name resolution or connection -/
theorem port_range_target (s h : Str) (p : Nat) (q : Option Int) (flags : List Nat) (res : Resolver) (up : AddrInfo → Bool)
    (hs : Spelled s h (some p)) (hq : ∀ v, q = some v → InRange v) (hp : ¬ InRange p) :
    mainRun (single s q flags) res up = ([], .error .value) := by
  unfold mainRun
  rw [cmdline_bad_target_port s h p q flags hs hq hp]

/-- **port_range** (`-p`): an out-of-range option is rejected before any name resolution or connection,
    whatever else is on the command line (single target, targets file, client audit) -/
theorem port_range_option (a : Args) (v : Int) (res : Resolver) (up : AddrInfo → Bool) (hq : a.oport = some v) (hv : ¬ InRange v) :
    ∃ e, mainRun a res up = ([], .error e) := by
  obtain ⟨e, he⟩ := cmdline_bad_option a v hq hv
  exact ⟨e, by unfold mainRun; rw [he]⟩

theorem dial_ports (pref : List Nat) (h : Str) (p : Int) (res : Resolver) (up : AddrInfo → Bool) :
    ∀ ev ∈ (dial pref h p res up).1, ∀ h' p' f, ev = Event.resolve h' p' f → h' = h ∧ p' = p := by
  intro ev hev h' p' f he
  rw [first_only] at hev
  subst he
  simp only [List.mem_cons] at hev
  rcases hev with hev | hev
  · injection hev with h1 h2 h3; exact ⟨h1, h2⟩
  · exfalso
    split at hev
    · simp at hev
    · split at hev <;> simp at hev

theorem auditTarget_ports (pref : List Nat) (h : Str) (p : Int) (res : Resolver) (up : AddrInfo → Bool) :
    ∀ ev ∈ (auditTarget pref h p res up).1, ∀ h' p' f, ev = Event.resolve h' p' f → InRange p' := by
  intro ev hev h' p' f he
  by_cases hp : InRange p
  · rw [auditTarget_ok pref h p res up hp] at hev
    have := (dial_ports pref h p res up ev hev h' p' f he).2
    rw [this]; exact hp
  · simp [auditTarget, checkPort_bad p hp] at hev

theorem worker_ports (pref : List Nat) (res : Resolver) (up : AddrInfo → Bool) (t : Str × Int) :
    ∀ ev ∈ (worker pref res up t).1, ∀ h' p' f, ev = Event.resolve h' p' f → InRange p' := by
  intro ev hev h' p' f he
  unfold worker at hev
  by_cases hp : InRange t.2
  · rw [checkPort_ok t.2 hp] at hev
    exact auditTarget_ports pref t.1 t.2 res up ev hev h' p' f he
  · rw [checkPort_bad t.2 hp] at hev
    simp at hev

theorem runConf_ports (c : Conf) (res : Resolver) (up : AddrInfo → Bool) :
    ∀ ev ∈ (runConf c res up).1, ∀ h p f, ev = Event.resolve h p f → InRange p := by
  intro ev hev h p f he
  unfold runConf at hev
  by_cases hcl : c.clientAudit = true
  · simp [hcl] at hev
  · simp only [hcl, Bool.false_eq_true, if_false] at hev
    by_cases hl : c.targetList.length > 0
    · simp only [hl, if_true] at hev
      cases hpa : parseAll c.port c.targetList with
      | error e => rw [hpa] at hev; simp at hev
      | ok ts =>
        rw [hpa] at hev
        simp only [List.map_map, List.mem_flatten, List.mem_map, Function.comp] at hev
        obtain ⟨l, ⟨t, _, hl⟩, hin⟩ := hev
        subst hl
        exact worker_ports c.pref res up t ev hin h p f he
    · simp only [hl, if_false] at hev
      have key := auditTarget_ports c.pref c.host c.port res up ev
      cases hat : auditTarget c.pref c.host c.port res up with
      | mk evs r =>
        rw [hat] at hev key
        cases r with
        | error e => exact key hev h p f he
        | ok r => exact key hev h p f he

/-- **port_range** (every input): whatever the command line and the targets file contain — documented
    spellings or not — no name resolution is ever attempted with a port outside 1..65535 (and every
    connection is preceded by such a resolution: `first_only`) -/
theorem resolve_port_in_range (a : Args) (res : Resolver) (up : AddrInfo → Bool) :
    ∀ ev ∈ (mainRun a res up).1, ∀ h p f, ev = Event.resolve h p f → InRange p := by
  intro ev hev h p f he
  unfold mainRun at hev
  cases hc : cmdline a with
  | error e => rw [hc] at hev; simp at hev
  | ok c =>
    rw [hc] at hev
    exact runConf_ports c res up ev hev h p f he

/-! ### the targets file -/

/-- **file_targets_clean**: whatever the file contains, every target taken from it is non-empty and has
    no surrounding white space; in particular blank and white-space-only lines produce no target
    (holds of the code after the D19 repair) -/
theorem file_targets_clean (content : Str) : ∀ t ∈ fileTargets content, t ≠ [] ∧ Trimmed t ∧ pyStrip t = t := by
  intro t ht
  simp only [fileTargets, cleanLines, List.mem_map, List.mem_filter] at ht
  obtain ⟨l, ⟨_, hne⟩, rfl⟩ := ht
  have hne' : pyStrip l ≠ [] := by simpa using hne
  rcases strip_shape l with h | h
  · exact absurd h hne'
  · exact ⟨hne', h, strip_trimmed _ h⟩

/-- **file_targets_of_lines**: a targets file written as lines — each one optional indentation, a target
    text or nothing, optional trailing blanks, and `\n`, `\r\n` or `\r` (the last line possibly
    unterminated) — yields exactly the non-empty target texts, in order; blank and white-space-only
    lines yield nothing -/
theorem file_targets_of_lines (ls : List (Line × Str)) (last : Line)
    (h : ∀ le ∈ ls, le.1.ok ∧ Eol le.2) (hl : last.ok) :
    fileTargets (render ls last) = (ls.map (·.1.targets)).flatten ++ last.targets := by
  have : ∀ s, fileTargets s = targetsFrom false s := fun _ => rfl
  rw [this]
  induction ls with
  | nil => simpa [render] using targetsFrom_last last hl
  | cons le ls ih =>
    obtain ⟨l, e⟩ := le
    have h1 := h (l, e) (by simp)
    rw [render, targetsFrom_line l e _ h1.1 h1.2, ih (fun x hx => h x (by simp [hx]))]
    simp

/-! ### whole runs: targets file -/

/-- `-T file` with optional `-p q` and `-4`/`-6` flags -/
def fromFile (content : Str) (q : Option Int) (flags : List Nat) : Args :=
  { host := [], oport := q, flags := flags, clientAudit := false, targets := some content }

theorem cmdline_file (content : Str) (q : Option Int) (flags : List Nat) (hq : ∀ v, q = some v → InRange v) :
    cmdline (fromFile content q flags) =
      .ok { host := [], port := optDefault q, pref := ipPref flags, clientAudit := false, targetList := fileTargets content } := by
  cases q with
  | none =>
    simp [cmdline, fromFile, cmdTarget, cmdPort, optDefault, checkPort]
  | some v =>
    have := hq v rfl
    unfold InRange at this
    have h' : ¬ (v < 1 ∨ v > 65535) := by omega
    simp [cmdline, fromFile, cmdTarget, cmdPort, optDefault, checkPort, h']

/-- a line of the file, what it denotes: (text, host, explicit port) -/
abbrev Entry := Str × Str × Option Nat

theorem parseAll_spelled (d : Int) (spec : List Entry) (h : ∀ x ∈ spec, Spelled x.1 x.2.1 x.2.2) :
    parseAll d (spec.map (·.1)) = .ok (spec.map (fun x => (x.2.1, portOf x.2.2 d))) := by
  induction spec with
  | nil => rfl
  | cons x xs ih =>
    simp only [List.map_cons, parseAll]
    rw [parse_forms x.1 x.2.1 x.2.2 d (h x (by simp)), ih (fun y hy => h y (by simp [hy]))]

theorem worker_ok (pref : List Nat) (res : Resolver) (up : AddrInfo → Bool) (h : Str) (p : Int) (hp : InRange p) :
    worker pref res up (h, p) = ((dial pref h p res up).1, .ok (reportOf h p (dial pref h p res up).2)) := by
  simp only [worker, checkPort_ok p hp]
  exact auditTarget_ok pref h p res up hp

/-- **port_range** (targets file): a target whose port is outside 1..65535 is rejected by its worker
    before any name resolution or connection for it -/
theorem port_range_worker (pref : List Nat) (res : Resolver) (up : AddrInfo → Bool) (h : Str) (p : Int) (hp : ¬ InRange p) :
    worker pref res up (h, p) = ([], .error .value) := by
  simp [worker, checkPort_bad p hp]

/-- **targets_dialled**: if the file's targets (`file_targets_of_lines`) are documented spellings with
    valid ports, then — with `-p q` as the default port — the run resolves and dials, target by
    target in file order, exactly the named hosts and ports (each as in `first_only`), and the
    report of each target carries the labels of that target -/
theorem targets_dialled (content : Str) (q : Option Int) (flags : List Nat) (res : Resolver) (up : AddrInfo → Bool)
    (spec : List Entry) (hne : spec ≠ []) (hq : ∀ v, q = some v → InRange v)
    (hfile : fileTargets content = spec.map (·.1))
    (hs : ∀ x ∈ spec, Spelled x.1 x.2.1 x.2.2) (hp : ∀ x ∈ spec, InRange (portOf x.2.2 (optDefault q))) :
    mainRun (fromFile content q flags) res up =
      ((spec.map (fun x => (dial (ipPref flags) x.2.1 (portOf x.2.2 (optDefault q)) res up).1)).flatten,
       .ok (spec.map (fun x => .ok (reportOf x.2.1 (portOf x.2.2 (optDefault q))
                                     (dial (ipPref flags) x.2.1 (portOf x.2.2 (optDefault q)) res up).2)))) := by
  unfold mainRun
  rw [cmdline_file content q flags hq]
  have hlen : (fileTargets content).length > 0 := by
    rw [hfile]; cases spec with
    | nil => exact absurd rfl hne
    | cons _ _ => simp
  simp only [runConf, Bool.false_eq_true, if_false, hlen, if_true]
  rw [hfile, parseAll_spelled (optDefault q) spec hs]
  simp only [List.map_map]
  have hw : ∀ x ∈ spec, worker (ipPref flags) res up (x.2.1, portOf x.2.2 (optDefault q)) =
      ((dial (ipPref flags) x.2.1 (portOf x.2.2 (optDefault q)) res up).1,
        .ok (reportOf x.2.1 (portOf x.2.2 (optDefault q)) (dial (ipPref flags) x.2.1 (portOf x.2.2 (optDefault q)) res up).2)) :=
    fun x hx => worker_ok _ res up _ _ (hp x hx)
  congr 1
  · congr 1
    apply List.map_congr_left
    intro x hx
    simp [Function.comp, hw x hx]
  · congr 1
    apply List.map_congr_left
    intro x hx
    simp [Function.comp, hw x hx]

/-- the D33 witness, now honoured end to end: `-64 dual.example` with a resolver answer of one IPv4 and
    one IPv6 address dials the IPv6 address -/
theorem prefer_v6_dials_v6 :
    (mainRun (single "dual.example".toList none [6, 4])
      (fun _ p _ => some [⟨AF_INET, SOCK_STREAM, "10.0.0.4".toList, p⟩, ⟨AF_INET6, SOCK_STREAM, "2001:db8::6".toList, p⟩])
      (fun _ => true)).1
    = [.resolve "dual.example".toList 22 0, .connect AF_INET6 "2001:db8::6".toList 22] := by decide

/-! ### non-vacuity -/

example : (mainRun (single "h:2222".toList none [4, 6])
      (fun _ p _ => some [⟨AF_INET6, SOCK_STREAM, "::2".toList, p⟩, ⟨AF_INET, SOCK_STREAM, "1.1.1.1".toList, p⟩])
      (fun _ => true)).1
    = [.resolve "h".toList 2222 0, .connect AF_INET "1.1.1.1".toList 2222] := by decide
example : (mainRun (fromFile "a\n\n[::1]:99999\nb:23\n".toList (some 2222) [6])
      (fun h p _ => some [⟨AF_INET6, SOCK_STREAM, h, p⟩]) (fun _ => true)).1
    = [.resolve "a".toList 2222 AF_INET6, .connect AF_INET6 "a".toList 2222,
       .resolve "b".toList 23 AF_INET6, .connect AF_INET6 "b".toList 23] := by decide

example : parseHostPort "example.com".toList 22 = .ok ("example.com".toList, 22) := by decide
example : parseHostPort "10.0.0.1:2222".toList 22 = .ok ("10.0.0.1".toList, 2222) := by decide
example : parseHostPort "::1".toList 22 = .ok ("::1".toList, 22) := by decide
example : parseHostPort "[2001:db8::1]:2222".toList 22 = .ok ("2001:db8::1".toList, 2222) := by decide
example : parseHostPort "[::1]".toList 2222 = .ok ("::1".toList, 2222) := by decide
example : parseHostPort "h:abc".toList 22 = .error .value := by decide
example : cmdline (single "[::1]".toList (some 2222) []) =
    .ok { host := "::1".toList, port := 2222, pref := [], clientAudit := false, targetList := [] } := by decide
example : cmdline (single "10.0.0.1:22".toList (some 2222) [6, 4]) =
    .ok { host := "10.0.0.1".toList, port := 22, pref := [6, 4], clientAudit := false, targetList := [] } := by decide
example : cmdline (single "h:65536".toList none []) = .error .value := by decide
example : cmdline (single "h".toList (some 0) []) = .error (.sysExit (-1)) := by decide
example : fileTargets "a\n \t \r\n  b:22  \rc".toList = ["a".toList, "b:22".toList, "c".toList] := by decide
example : isIPv6 "2001:db8::1".toList = true ∧ isIPv6 "::ffff:192.0.2.1".toList = true ∧ isIPv6 "fe80::1%eth0".toList = true
    ∧ isIPv6 "1::2::3".toList = false ∧ isIPv6 "10.0.0.1".toList = false := by decide
example : Spelled "[::1]:22".toList "::1".toList (some 22) :=
  Spelled.v6BracketPort "::1".toList "22".toList ⟨by decide, by decide, by decide⟩ ⟨by decide, by decide, by decide⟩
example : labelText "::1".toList 2222 = "[::1]:2222".toList ∧ labelText "h".toList 22 = "h".toList
    ∧ labelJson "::1".toList 2222 = "::1:2222".toList := by
  refine ⟨?_, ?_, ?_⟩ <;> simp [labelText, labelJson, bracketed, showInt, showNat] <;> decide

end SshAudit.C18
