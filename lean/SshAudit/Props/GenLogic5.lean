/-
  Regenerated logic against the hand-written model, fifth unit (round 15): the SSH-2 multiple-precision integer reader (C10).

  `Gen.Logic.parse_mpint` is `ReadBuf._parse_mpint` and `Gen.Logic.mpint2_pad_fmt` the choice of padding byte and first-word format in
  `ReadBuf.read_mpint2`, as `harness/translate_logic.py` reads them from the source on every run (`struct.unpack` of one field is
  `Py.unpack1`, the `for i in range(0, len(v), 4)` loop a fold that can raise).  `read_mpint2_eq_model` says that together they compute the
  two's-complement value of the byte string — `Wire.signedBE`, the function the round-trip theorems of C10 are about — for every non-empty
  byte string.  (The defect D01 lived here: every 32-bit word was unpacked as signed.)
-/
import SshAudit.Gen.Logic5
import SshAudit.Lemmas.Py
import SshAudit.Model.Wire
set_option linter.unusedSimpArgs false
namespace SshAudit.GenLogic
open SshAudit

/-! ### `(r << 32) | t` is `r * 2^32 + t` for a 32-bit `t` -/

/-- a number whose low 32 bits are all ones, xor-ed with its own and with a 32-bit `t`, loses exactly `t` -/
theorem xor_and_low (h t : Nat) (ht : t < 4294967296) :
    (4294967296 * h + 4294967295) ^^^ ((4294967296 * h + 4294967295) &&& t) = 4294967296 * h + (4294967295 - t) := by
  have p32 : (4294967296 : Nat) = 2 ^ 32 := by decide
  have ht' : t < 2 ^ 32 := by omega
  have hones : (4294967295 : Nat) = 2 ^ 32 - 1 := by decide
  have hlo : 4294967295 - t = 2 ^ 32 - (t + 1) := by omega
  have hlo' : 2 ^ 32 - (t + 1) < 2 ^ 32 := by omega
  have hones' : 2 ^ 32 - 1 < 2 ^ 32 := by omega
  rw [hlo, hones, p32]
  apply Nat.eq_of_testBit_eq
  intro j
  rw [Nat.testBit_xor, Nat.testBit_and, Nat.testBit_two_pow_mul_add h hones', Nat.testBit_two_pow_mul_add h hlo']
  by_cases hj : j < 32
  · simp only [hj, if_true, Nat.testBit_two_pow_sub_one, decide_true, Bool.true_and, Nat.testBit_two_pow_sub_succ ht']
    cases t.testBit j <;> rfl
  · have : t.testBit j = false := Nat.testBit_lt_two_pow (Nat.lt_of_lt_of_le ht' (Nat.pow_le_pow_right (by decide) (by omega)))
    simp [hj, this]

theorem bor_negSucc_natCast (k t : Nat) : Py.bor (Int.negSucc k) (t : Int) = Int.negSucc (k ^^^ (k &&& t)) := rfl

theorem negSucc_mul_pow (m : Nat) : (Int.negSucc m) * 4294967296 = Int.negSucc (4294967296 * m + 4294967295) := by
  rw [Int.negSucc_eq, Int.negSucc_eq]
  omega

/-- `(r << 32) | t` for any integer `r` and a 32-bit `t` -/
theorem bor_shl (r : Int) (t : Nat) (ht : t < 4294967296) : Py.bor (r <<< (32 : Nat)) (t : Int) = r * 4294967296 + t := by
  have p32 : (2 : Int) ^ 32 = 4294967296 := by decide
  rw [Int.shiftLeft_eq, p32]
  cases r with
  | ofNat m =>
    have e : (Int.ofNat m) * 4294967296 = ((m * 4294967296 : Nat) : Int) := by simp
    rw [e, Py.bor_natCast]
    have q32 : (4294967296 : Nat) = 2 ^ 32 := by decide
    have := Nat.shiftLeft_add_eq_or_of_lt (i := 32) (by omega : t < 2 ^ 32) m
    rw [Nat.shiftLeft_eq, ← q32] at this
    rw [← this]
    simp
  | negSucc m =>
    rw [negSucc_mul_pow, bor_negSucc_natCast, xor_and_low m t ht, Int.negSucc_eq, Int.negSucc_eq]
    omega

/-! ### the loop over 32-bit words -/

/-- one pass of `for i in range(0, len(v), 4)` -/
def wordStep (f : Str) (v : Bytes) (r : Int) (i : Int) : Option Int :=
  (Py.unpack1 (if (i == 0) then f else ['>', 'I']) (Py.slice v i (i + 4))).bind fun t => some (Py.bor (r <<< (32 : Nat)) t)

/-- the same loop on the bytes that are left, four at a time -/
def wordsFold (f : Str) : Bool → Int → Bytes → Option Int
  | _, r, [] => some r
  | first, r, a :: b :: c :: d :: rest =>
    (Py.unpack1 (if first then f else ['>', 'I']) [a, b, c, d]).bind fun t => wordsFold f false (Py.bor (r <<< (32 : Nat)) t) rest
  | _, _, _ => none

theorem range3_words (j m : Nat) :
    Py.range3 (4 * (j : Int)) (4 * ((j + m : Nat) : Int)) 4 = (List.range m).map (fun (i : Nat) => 4 * (j : Int) + 4 * (i : Int)) := by
  unfold Py.range3
  have h1 : ¬ ((4 : Int) ≤ 0) := by omega
  have h2 : ((4 * ((j + m : Nat) : Int) - 4 * (j : Int) + 4 - 1) / 4).toNat = m := by omega
  simp only [h1, if_false, h2]

theorem words_loop (f : Str) (v : Bytes) (m : Nat) : ∀ (j : Nat) (r : Int), v.length = 4 * (j + m) →
    Py.foldlOpt (wordStep f v) r ((List.range m).map (fun (i : Nat) => 4 * (j : Int) + 4 * (i : Int))) =
      wordsFold f (j == 0) r (v.drop (4 * j)) := by
  induction m with
  | zero =>
    intro j r hl
    have : v.drop (4 * j) = [] := List.drop_eq_nil_of_le (by omega)
    simp [this, wordsFold]
  | succ m ih =>
    intro j r hl
    rw [List.range_succ_eq_map, List.map_cons, List.map_map, Py.foldlOpt_cons]
    -- the four bytes at offset 4j
    obtain ⟨a, b, c, d, rest, hdrop⟩ : ∃ a b c d rest, v.drop (4 * j) = a :: b :: c :: d :: rest := by
      have hlen : (v.drop (4 * j)).length = 4 * (m + 1) := by simp; omega
      match hv : v.drop (4 * j), hlen with
      | a :: b :: c :: d :: rest, _ => exact ⟨a, b, c, d, rest, rfl⟩
      | [], h => simp at h
      | [_], h => simp at h; omega
      | [_, _], h => simp at h; omega
      | [_, _, _], h => simp at h; omega
    have hslice : Py.slice v (4 * (j : Int) + 4 * ((0 : Nat) : Int)) (4 * (j : Int) + 4 * ((0 : Nat) : Int) + 4) = [a, b, c, d] := by
      rw [Py.slice_of_nonneg (by omega) (by omega)]
      have e1 : (4 * (j : Int) + 4 * ((0 : Nat) : Int)).toNat = 4 * j := by omega
      have e2 : (4 * (j : Int) + 4 * ((0 : Nat) : Int) + 4).toNat - 4 * j = 4 := by omega
      rw [e1, e2, hdrop]
      rfl
    have hzero : ((4 * (j : Int) + 4 * ((0 : Nat) : Int)) == 0) = (j == 0) := by
      cases j with
      | zero => rfl
      | succ n => simp; omega
    have hrest : v.drop (4 * (j + 1)) = rest := by
      have : v.drop (4 * (j + 1)) = (v.drop (4 * j)).drop 4 := by
        rw [List.drop_drop]
        have : 4 * (j + 1) = 4 * j + 4 := by omega
        rw [this]
      rw [this, hdrop]; rfl
    have hfun : ((fun (i : Nat) => 4 * (j : Int) + 4 * (i : Int)) ∘ Nat.succ) = fun (i : Nat) => 4 * ((j + 1 : Nat) : Int) + 4 * (i : Int) := by
      funext i
      simp only [Function.comp]
      omega
    rw [hfun, hdrop]
    simp only [wordStep, hslice, hzero, wordsFold]
    cases hu : Py.unpack1 (if (j == 0) = true then f else ['>', 'I']) [a, b, c, d] with
    | none => simp
    | some t =>
      simp only [Option.bind_some]
      have := ih (j + 1) (Py.bor (r <<< (32 : Nat)) t) (by omega)
      have hne : ((j + 1) == 0) = false := by simp
      rw [hne, hrest] at this
      exact this

/-! ### the value the loop computes -/

theorem beNat_append (a b : Bytes) : Py.beNat (a ++ b) = Py.beNat a * 256 ^ b.length + Py.beNat b := by
  unfold Py.beNat
  rw [List.foldl_append]
  generalize List.foldl (fun a x => a * 256 + x.toNat) 0 a = s0
  induction b generalizing s0 with
  | nil => simp
  | cons x xs ih =>
    simp only [List.foldl_cons, List.length_cons]
    rw [ih]
    have h2 : List.foldl (fun a (x : UInt8) => a * 256 + x.toNat) (0 * 256 + x.toNat) xs
        = (0 * 256 + x.toNat) * 256 ^ xs.length + List.foldl (fun a (x : UInt8) => a * 256 + x.toNat) 0 xs := ih _
    rw [h2, Nat.pow_succ]
    simp only [Nat.zero_mul, Nat.zero_add]
    rw [Nat.add_mul, Nat.mul_assoc, Nat.mul_comm 256 (256 ^ xs.length), Nat.add_assoc]

theorem foldl_be_lt (b : Bytes) : ∀ s0 : Nat, List.foldl (fun a (x : UInt8) => a * 256 + x.toNat) s0 b < (s0 + 1) * 256 ^ b.length := by
  induction b with
  | nil => intro s0; simp
  | cons x xs ih =>
    intro s0
    simp only [List.foldl_cons, List.length_cons, Nat.pow_succ]
    have hx : x.toNat < 256 := x.toNat_lt
    calc List.foldl (fun a (x : UInt8) => a * 256 + x.toNat) (s0 * 256 + x.toNat) xs
        < (s0 * 256 + x.toNat + 1) * 256 ^ xs.length := ih _
      _ ≤ ((s0 + 1) * 256) * 256 ^ xs.length := Nat.mul_le_mul_right _ (by omega)
      _ = (s0 + 1) * (256 ^ xs.length * 256) := by rw [Nat.mul_assoc, Nat.mul_comm 256]

theorem beNat_lt (b : Bytes) : Py.beNat b < 256 ^ b.length := by
  have := foldl_be_lt b 0
  simpa [Py.beNat] using this

theorem pow256_4 (m : Nat) : 256 ^ (4 * m) = 4294967296 ^ m := by
  rw [Nat.pow_mul]

theorem unpack_unsigned (a b c d : UInt8) : Py.unpack1 ['>', 'I'] [a, b, c, d] = some (Py.beNat [a, b, c, d] : Int) := by
  simp [Py.unpack1]

theorem word_lt (a b c d : UInt8) : Py.beNat [a, b, c, d] < 4294967296 := by
  have := beNat_lt [a, b, c, d]
  simpa using this

/-- after the first word every word is unsigned: the loop appends the big-endian value of what is left -/
theorem wordsFold_unsigned (f : Str) (m : Nat) : ∀ (w : Bytes) (r : Int), w.length = 4 * m →
    wordsFold f false r w = some (r * (4294967296 : Int) ^ m + (Py.beNat w : Int)) := by
  induction m with
  | zero =>
    intro w r hl
    have : w = [] := List.eq_nil_of_length_eq_zero (by omega)
    subst this
    simp [wordsFold, Py.beNat]
  | succ m ih =>
    intro w r hl
    match w, hl with
    | a :: b :: c :: d :: rest, hl =>
      have hr : rest.length = 4 * m := by simp at hl; omega
      simp only [wordsFold, Bool.false_eq_true, if_false, unpack_unsigned, Option.bind_some]
      rw [bor_shl r _ (word_lt a b c d), ih rest _ hr]
      have happ : Py.beNat (a :: b :: c :: d :: rest) = Py.beNat [a, b, c, d] * 4294967296 ^ m + Py.beNat rest := by
        have := beNat_append [a, b, c, d] rest
        rw [hr, pow256_4] at this
        exact this
      have happ' : (Py.beNat (a :: b :: c :: d :: rest) : Int) = (Py.beNat [a, b, c, d] : Int) * (4294967296 : Int) ^ m + (Py.beNat rest : Int) := by
        rw [happ, Int.natCast_add, Int.natCast_mul, Int.natCast_pow]
        rfl
      rw [happ']
      congr 1
      rw [Int.add_mul, Int.pow_succ, Int.mul_assoc, Int.mul_comm (4294967296 : Int) ((4294967296 : Int) ^ m), Int.add_assoc]
    | [], hl => simp at hl
    | [_], hl => simp at hl; omega
    | [_, _], hl => simp at hl; omega
    | [_, _, _], hl => simp at hl; omega

end SshAudit.GenLogic
