import SshAudit.Driver.WireOps
namespace SshAudit.Driver

/-- line-protocol operations of the Report model (stub; filled in when the model lands) -/
def reportOp (_op : String) (_args : List String) : Option J := none

end SshAudit.Driver
