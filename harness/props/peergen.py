"""Seeded generators of peers (algorithm lists, size maps, banners) shared by the report properties."""
import struct

CATS = ('kex', 'key', 'enc', 'mac')
B64 = 'abcdefghijklmnopqrstuvwxyzABCDEFGHIJKLMNOPQRSTUVWXYZ0123456789+/'
RFC_ALPH = 'abcdefghijklmnopqrstuvwxyz0123456789-@._+/='
STRICT_S = 'kex-strict-s-v00@openssh.com'
STRICT_C = 'kex-strict-c-v00@openssh.com'


def master():
    from ssh_audit.ssh2_kexdb import SSH2_KexDB
    return SSH2_KexDB.MASTER_DB


def gss_wildcards():
    return [k for k in master()['kex'] if k.startswith('gss-') and k.endswith('-*')]


def gss_name(r, wildcard=None):
    w = wildcard or r.choice(gss_wildcards())
    n = r.choice([22, 22, 8, 1, 40])
    suffix = ''.join(r.choice(B64) for _ in range(n)) + r.choice(['==', '=', ''])
    return w[:-1] + suffix


def unknown_name(r, shape=None):
    shape = shape or r.choice(['plain', 'at', 'cbc', 'etm', 'chacha', 'long', 'gssunk', 'eq'])
    base = ''.join(r.choice('abcdefghijklmnopqrstuvwxyz0123456789') for _ in range(r.randint(3, 12)))
    if shape == 'at':
        return base + '@example.org'
    if shape == 'cbc':
        return base + r.choice(['-cbc', '-cbc@openssh.org', '-cbc@ssh.com'])
    if shape == 'etm':
        return base + '-etm@openssh.com'
    if shape == 'chacha':
        return 'chacha20-poly1305' + r.choice(['-x', '@' + base + '.org', base])
    if shape == 'long':
        return ''.join(r.choice(RFC_ALPH) for _ in range(r.randint(100, 300)))
    if shape == 'gssunk':
        return 'gss-' + base + '-' + ''.join(r.choice(B64) for _ in range(10)) + '=='
    if shape == 'eq':
        return base + '=' + base
    return 'zz-' + base


def gen_list(r, cat, length=None, p_db=0.6, p_unknown=0.15, p_gss=0.1, p_dup=0.1, allow_empty_name=True):
    db = list(master()[cat])
    n = length if length is not None else r.choice([0, 1, 1, 2, 3, 5, 8, 12, r.randint(2, 40)])
    out = []
    for _ in range(n):
        x = r.random()
        if out and x < p_dup:
            out.append(r.choice(out))
        elif x < p_dup + p_db:
            k = r.choice(db)
            out.append(gss_name(r, k) if (cat == 'kex' and k.startswith('gss-') and k.endswith('-*')) else k)
        elif x < p_dup + p_db + p_unknown:
            out.append(unknown_name(r))
        elif cat == 'kex' and x < p_dup + p_db + p_unknown + p_gss:
            out.append(gss_name(r))
        else:
            out.append(r.choice(db))
    if n == 0:
        return ['']       # an empty name-list on the wire decodes to ['']
    if allow_empty_name and r.random() < 0.03:
        out.insert(r.randint(0, len(out)), r.choice(['', ' ', '  ']))
    return out


def gen_sizes(r, peer):
    hk, dh = {}, {}
    for k in peer['key']:
        if k in hk or not k.strip():
            continue
        if r.random() < 0.5:
            ca = r.choice([('', 0), ('', 0), ('ssh-rsa', 4096), ('ssh-rsa', 2048), ('rsa-sha2-512', 1024), ('ssh-ed25519', 256), ('ecdsa-sha2-nistp256', 256), ('', 512), ('ssh-rsa', 0)])
            hk[k] = {'hostkey_size': r.choice([256, 448, 1024, 2047, 2048, 2049, 3071, 3072, 4096, 8192]), 'ca_key_type': ca[0], 'ca_key_size': ca[1]}
    for k in peer['kex']:
        if 'group-exchange' in k and k not in dh and r.random() < 0.7:
            dh[k] = r.choice([1024, 2047, 2048, 2049, 3072, 4096])
    return hk, dh


def gen_peer(r, sizes=True, client_lists=False):
    from props.report_common import mk_peer
    kex, key, enc, mac = (gen_list(r, c) for c in CATS)
    if r.random() < 0.3:
        kex.append(r.choice([STRICT_S, STRICT_C]))
    comp = r.choice([['none'], ['none', 'zlib@openssh.com'], ['zlib@openssh.com', 'zlib', 'none'], [''], ['zlib']])
    enc_c = gen_list(r, 'enc') if client_lists and r.random() < 0.5 else None
    mac_c = gen_list(r, 'mac') if client_lists and r.random() < 0.5 else None
    p = mk_peer(kex, key, enc, mac, comp, enc_c, mac_c)
    if sizes:
        p['host_keys'], p['dh'] = gen_sizes(r, p)
    return p


BANNERS = ['SSH-2.0-OpenSSH_8.0', 'SSH-2.0-OpenSSH_9.9p1 Debian-3', 'SSH-2.0-OpenSSH_10.0', 'SSH-2.0-OpenSSH_7.4', 'SSH-2.0-OpenSSH_5.3',
           'SSH-2.0-dropbear_2022.83', 'SSH-2.0-dropbear_2013.62', 'SSH-2.0-libssh-0.10.6', 'SSH-2.0-libssh_0.7.0', 'SSH-2.0-tinyssh_noversion',
           'SSH-2.0-PuTTY_Release_0.78', 'SSH-2.0-RomSShell_5.40', 'SSH-2.0-FooServer_1.0', 'SSH-1.99-OpenSSH_3.9p1', 'SSH-2.0-Cisco-1.25']


def kexinit_bytes(peer_lists, cookie=b'\x07' * 16, follows=0, unused=0):
    """peer_lists: 10 lists of bytes names in wire order"""
    out = b'' + cookie
    for l in peer_lists:
        body = b','.join(l)
        out += struct.pack('>I', len(body)) + body
    return out + bytes([follows]) + struct.pack('>I', unused)


def independent_kexinit_reader(payload):
    """A 20-line RFC 4253 §7.1 reader written for the oracle (no ssh-audit code): returns the ten raw byte name-lists."""
    pos = 16
    lists = []
    for _ in range(10):
        if pos + 4 > len(payload):
            return None
        n = struct.unpack('>I', payload[pos:pos + 4])[0]
        pos += 4
        body = payload[pos:pos + n]
        pos += n
        lists.append(body.split(b','))
    if pos + 5 > len(payload):
        return None
    return lists
