/-
  The presentation layer: `outputbuffer.py` (class `OutputBuffer`) as a small state machine, and the
  part of `ssh_audit.output()` / `output_algorithm()` / `output_recommendations()` /
  `output_info()` / `output_fingerprints()` / `output_security()` that turns the report *data*
  (`Report.Report`, computed without any output option) into buffer calls.

  * `Buf`, `Op`, `step`, `exec`  — the buffer: level filter (`always_print`, `good ≡ info`, `head`
    never filtered), colour wrapper, sections (`with out:` … `flush_section(sort)`), `line_ended`
    concatenation (IndexError on an empty target list is data: `err`), batch (drops `head`/`sep`),
    `v()`/`d()` with `write_now` (no write for a message the level drops; `v()` silent in JSON mode), `write()`, `reset()`.
  * `sections`, `outputOps`    — `output()` for an SSH-2 peer (or no peer: the error path) as a list of
    buffer operations; `render` runs them.
  * `renderClosed`             — the same text in closed form (proved equal in `Lemmas/Output.lean`).

  Core Lean only.  Colours: the POSIX table (`colors_supported` is true on posix).
-/
import SshAudit.Model.Report
import SshAudit.Model.Wire
namespace SshAudit
namespace Output
open Report (s Level Note AlgLine Rec Action HostKeyInfo kexC keyC)

/-! ### `OutputBuffer` -/

/-- the `level` string `_print` is called with = the method used -/
inductive Meth where
  | head | good | info | warn | fail
deriving Repr, DecidableEq

structure Cfg where
  batch : Bool := false
  verbose : Bool := false
  debug : Bool := false
  colors : Bool := false
  level : Nat := 0            -- `__level`: 0 = info, 1 = warn, 2 = fail
  json : Bool := false        -- `aconf.json` (`is_json_output`); `main()` copies it to `out.json`
  jsonIndent : Bool := false  -- `aconf.json_print_indent`
deriving Repr, DecidableEq

/-- `get_level`: `good` counts as `info`; a name outside `LEVELS` (`head`) is `sys.maxsize` (`none`) -/
def getLevel : Meth → Option Nat
  | .good => some 0
  | .info => some 0
  | .warn => some 1
  | .fail => some 2
  | .head => none

/-- negation of `(always_print is False) and (self.get_level(level) < self.__level)` -/
def passes (lv : Nat) (m : Meth) (always : Bool) : Bool :=
  always || (match getLevel m with
    | none => true
    | some k => !(decide (k < lv)))

def esc : Char := Char.ofNat 27

/-- `COLORS` (non-Windows) -/
def colorCode : Meth → Str
  | .head => s "36"
  | .good => s "32"
  | .warn => s "33"
  | .fail => s "31"
  | .info => s "0"      -- never used: `level != 'info'` guards the lookup

def colorOn (colors : Bool) (m : Meth) (t : Str) : Bool := colors && !t.isEmpty && decide (m ≠ .info)

/-- `"\033[0;%dm%s\033[0m" % (COLORS[level], s)` when colours are on, the text is non-empty and the level is not `info` -/
def paint (colors : Bool) (m : Meth) (t : Str) : Str :=
  if colorOn colors m t then (esc :: s "[0;") ++ colorCode m ++ s "m" ++ t ++ (esc :: s "[0m") else t

structure Buf where
  buffer : List Str := []
  sect : List Str := []
  inSection : Bool := false
  lineEnded : Bool := true
  out : List (List Str) := []       -- one entry per `print(get_buffer())`: the buffer entries written (joined by "\n", plus "\n")
  err : Option Exn := none     -- sticky: an exception ends the run
deriving Repr, DecidableEq

/-- `buf[-1] = buf[-1] + s` (`buf[0]` on an empty list: IndexError) -/
def appendToLast : List Str → Str → Option (List Str)
  | [], _ => none
  | [x], t => some [x ++ t]
  | x :: y :: r, t => (appendToLast (y :: r) t).map (x :: ·)

/-- Python's `list.sort()` on strings (code-point order; any correct sort gives the same list) -/
def leStr (a b : Str) : Bool := !Text.ltStr b a
def sortStr (l : List Str) : List Str := l.mergeSort leStr

/-- `_print` -/
def doPrint (cfg : Cfg) (m : Meth) (t : Str) (ended always : Bool) (b : Buf) : Buf :=
  if passes cfg.level m always = false then b
  else
    let t' := paint cfg.colors m t
    let tgt := if b.inSection then b.sect else b.buffer
    match (if b.lineEnded then some (tgt ++ [t']) else appendToLast tgt t') with
    | none => { b with err := some .index }
    | some l => if b.inSection then { b with sect := l, lineEnded := ended } else { b with buffer := l, lineEnded := ended }

/-- `flush_section(sort_section)` -/
def doFlush (sort : Bool) (b : Buf) : Buf :=
  { b with buffer := b.buffer ++ (if sort then sortStr b.sect else b.sect), sect := [] }

/-- `write()`: `flush_section(); print(self.get_buffer(), flush=True)` -/
def doWrite (b : Buf) : Buf :=
  let b' := doFlush false b
  { b' with out := b'.out ++ [b'.buffer], buffer := [] }

/-- `reset()` -/
def doReset (b : Buf) : Buf :=
  { doFlush false b with buffer := [] }

def doHead (cfg : Cfg) (t : Str) (ended : Bool) (b : Buf) : Buf := if cfg.batch then b else doPrint cfg .head t ended false b
def doSep (cfg : Cfg) (b : Buf) : Buf := if cfg.batch then b else doPrint cfg .info [] true false b

inductive Op where
  | print (m : Meth) (t : Str) (ended : Bool) (always : Bool)   -- `fail/warn/info/good(s, line_ended, always_print)` (`m ≠ head`), or `_print`
  | head (t : Str) (ended : Bool)
  | sep
  | enter                              -- `with out:`
  | exit
  | flush (sort : Bool)
  | close (title : Str) (sort : Bool)  -- `if not out.is_section_empty() and not is_json_output: out.head(title); out.flush_section(sort); out.sep()`
  | write
  | reset
  | v (t : Str) (writeNow : Bool)
  | d (t : Str) (writeNow : Bool)
deriving Repr, DecidableEq

def step (cfg : Cfg) (op : Op) (b : Buf) : Buf :=
  match op with
  | .print m t e a => doPrint cfg m t e a b
  | .head t e => doHead cfg t e b
  | .sep => doSep cfg b
  | .enter => { b with inSection := true }
  | .exit => { b with inSection := false }
  | .flush srt => doFlush srt b
  | .close title srt =>
    if !b.sect.isEmpty && !cfg.json then doSep cfg (doFlush srt (doHead cfg title true b)) else b
  | .write => doWrite b
  | .reset => doReset b
  | .v t wn =>
    -- `if (self.verbose and not self.json) or self.debug:` … `if write_now and self.get_level('info') >= self.__level: self.write()`
    if (cfg.verbose && !cfg.json) || cfg.debug then
      let b' := doPrint cfg .info t true false b
      if wn && passes cfg.level .info false then doWrite b' else b'
    else b
  | .d t wn =>
    if cfg.debug then
      let b' := doPrint cfg .info t true false b
      if wn && passes cfg.level .info false then doWrite b' else b'
    else b

def stepG (cfg : Cfg) (b : Buf) (op : Op) : Buf := if b.err.isSome then b else step cfg op b

def exec (cfg : Cfg) (ops : List Op) (b : Buf) : Buf := ops.foldl (stepG cfg) b

/-- what `get_buffer()` would join: the buffer after a final `flush_section()` -/
def Buf.entries (b : Buf) : List Str := (doFlush false b).buffer

/-- the lines stdout shows for the writes so far: `print("\n".join(buf))` shows `buf`'s entries, and one empty line when `buf` is empty -/
def outEntries (o : List (List Str)) : List Str := o.flatMap (fun w => if w.isEmpty then [[]] else w)

/-- stdout as text -/
def outText (o : List (List Str)) : Str := o.flatMap (fun w => Text.join ['\n'] w ++ ['\n'])

/-! ### `output()` : data → buffer calls -/

structure Item where
  meth : Meth
  text : Str
  always : Bool := false
deriving Repr, DecidableEq

def Item.op (it : Item) : Op := .print it.meth it.text true it.always

structure Sec where
  title : Str
  sort : Bool
  items : List Item
deriving Repr, DecidableEq

/-- `with out: <items>` followed by the conditional head / flush / sep -/
def Sec.ops (sc : Sec) : List Op := [.enter] ++ sc.items.map Item.op ++ [.exit, .close sc.title sc.sort]

structure BannerInfo where
  text : Str            -- `str(banner)`
  ssh1 : Bool           -- `banner.protocol[0] == 1`
  validAscii : Bool
  software : Option Str -- `str(Software.parse(banner))`
deriving Repr, DecidableEq

structure Fp where
  ftype : Str
  sha256 : Str
  md5 : Str
deriving Repr, DecidableEq

/-- everything `output()` shows, as data; nothing in here depends on an output option -/
structure Input where
  report : Report.Report
  hasKex : Bool := true                         -- `kex is not None` (false on the error path)
  rsaFamily : List Str := []
  hostKeys : List (Str × HostKeyInfo) := []
  dhSizes : List (Str × Nat) := []
  maxlen : Nat := 1                             -- `algs.maxlen + 1`
  target : Option Str := none                   -- `print_target`: host or `host:port` / `[host]:port`
  clientIP : Option Str := none
  header : Option Str := none                   -- `'\n'.join(header)` when `len(header) > 0`
  banner : Option BannerInfo := none
  swDisplay : Option Str := none                -- `software.display(False)`
  compat : Option Str := none                   -- `', '.join(comp_text)` of `output_compatibility` (when it prints)
  fps : List Fp := []                           -- the fingerprints `output_fingerprints` walks (sorted by type)
  putty : Bool := false                         -- client audit of PuTTY
  jsonCompact : Str := []                       -- `json.dumps(build_struct(…), sort_keys=True)`
  jsonIndented : Str := []                      -- … with `indent=4`
deriving Repr

/-- `Algorithms.maxlen` for an SSH-2 peer -/
def maxlenOf (peer : Report.Peer) : Nat :=
  ((peer.kex ++ peer.key ++ peer.encS ++ peer.macS).map List.length).foldl max 0

def spaces (n : Nat) : Str := List.replicate n ' '

def levelName : Level → Str
  | .fail => s "fail"
  | .warn => s "warn"
  | .info => s "info"

def methOf : Level → Meth
  | .fail => .fail
  | .warn => .warn
  | .info => .info

/-- how many characters `padding[0:-k]` removes, in the branch order of `output_algorithm`
    (`(N-bit)` for a measured DH modulus or an RSA host key: 11; the certificate form: 15) -/
def padTrim (rsaFamily : List Str) (cat name : Str) (hostKeys : List (Str × HostKeyInfo)) (dhSizes : List (Str × Nat)) : Nat :=
  if cat = kexC then
    match dhSizes.find? (·.1 = name) with
    | some _ => 11
    | none => 0
  else if cat = keyC then
    match hostKeys.find? (·.1 = name) with
    | some (_, hk) =>
      let caT := if rsaFamily.contains hk.caType then s "RSA" else hk.caType
      if caT.length > 0 ∧ hk.caSize > 0 then 15
      else if rsaFamily.contains name then 11
      else 0
    | none => 0
  else 0

/-- one finding as the property counts them -/
structure Finding where
  cat : Str
  shown : Str
  level : Level
  text : Str
deriving Repr, DecidableEq

def findingOf (l : AlgLine) (n : Note) : Finding := { cat := l.cat, shown := l.shown, level := n.level, text := n.text }

/-- `[lvl] text` -/
def tagText (n : Note) : Str := s "[" ++ levelName n.level ++ s "] " ++ n.text

/-- the line `output_algorithm` prints for one note (`none`: a later note with empty text prints nothing in non-verbose mode) -/
def noteLine (verbose : Bool) (lead pad : Str) (first : Bool) (n : Note) : Option Str :=
  if first || verbose then
    some (lead ++ (if n.text ≠ [] then pad ++ s " -- " ++ tagText n else []))
  else if n.text ≠ [] then
    some (spaces lead.length ++ pad ++ s " `- " ++ tagText n)
  else none

def algLead (l : AlgLine) : Str := ('(' :: l.cat) ++ s ") " ++ l.shown

def algPad (cfg : Cfg) (inp : Input) (l : AlgLine) : Str :=
  let ml := if inp.maxlen = 0 then l.name.length else inp.maxlen
  spaces ((if cfg.batch then 0 else ml - l.name.length) - padTrim inp.rsaFamily l.cat l.name inp.hostKeys inp.dhSizes)

/-- "if the first comment is an 'info', the algorithm is rated good: `out.good` is used for all its notes" -/
def useGood (l : AlgLine) : Bool :=
  match l.notes with
  | n :: _ => decide (n.level = .info)
  | [] => false

def notePair (cfg : Cfg) (inp : Input) (l : AlgLine) (first : Bool) (n : Note) : List (Finding × Item) :=
  match noteLine cfg.verbose (algLead l) (algPad cfg inp l) first n with
  | some t => [(findingOf l n, { meth := if useGood l then .good else methOf n.level, text := t })]
  | none => []

/-- the buffer calls of `output_algorithm` for one advertised name, each with the finding it shows -/
def algPairs (cfg : Cfg) (inp : Input) (l : AlgLine) : List (Finding × Item) :=
  match l.notes with
  | [] => []
  | n :: rest => notePair cfg inp l true n ++ rest.flatMap (notePair cfg inp l false)

def algItems (cfg : Cfg) (inp : Input) (ls : List AlgLine) : List Item := ls.flatMap (fun l => (algPairs cfg inp l).map (·.2))

def generalItems (inp : Input) : List Item :=
  (match inp.target with
    | some t => [{ meth := .good, text := s "(gen) target: " ++ t, always := true }]
    | none => []) ++
  (match inp.clientIP with
    | some ip => [{ meth := .good, text := s "(gen) client IP: " ++ ip, always := true }]
    | none => []) ++
  (match inp.header with
    | some h => [{ meth := .info, text := s "(gen) header: " ++ h }]
    | none => []) ++
  (match inp.banner with
    | some b =>
      (if b.ssh1 then [{ meth := .fail, text := s "(gen) banner: " ++ b.text }, { meth := .fail, text := s "(gen) protocol SSH1 enabled" }]
       else [{ meth := .good, text := s "(gen) banner: " ++ b.text }]) ++
      (if b.validAscii then [] else [{ meth := .warn, text := s "(gen) banner contains non-printable ASCII" }]) ++
      (match b.software with
        | some sw => [{ meth := .good, text := s "(gen) software: " ++ sw }]
        | none => [])
    | none => []) ++
  (match inp.compat with
    | some c => [{ meth := .good, text := s "(gen) compatibility: " ++ c }]
    | none => []) ++
  (if inp.hasKex then
    [{ meth := .good, text := s "(gen) compression: " ++
        (if inp.report.compression.length > 0 then s "enabled (" ++ Text.join (s ", ") inp.report.compression ++ s ")" else s "disabled") }]
   else [])

def securityItems (cfg : Cfg) (inp : Input) : List Item :=
  match inp.banner with
  | some b =>
    if b.ssh1 then
      [{ meth := .fail, text := s "(sec) SSH v1 enabled" ++ (if cfg.batch then [] else spaces (inp.maxlen - 14)) ++
          s " -- SSH v1 can be exploited to recover plaintext passwords" }]
    else []
  | none => []

def weakFpType (t : Str) : Bool := Text.startsWith t (s "ecdsa-") || t = s "ssh-dss"

def fpItems (cfg : Cfg) (f : Fp) : List Item :=
  if weakFpType f.ftype then
    if cfg.verbose then
      [{ meth := .warn, text := s "(fin) " ++ f.ftype ++ s ": " ++ f.sha256 ++ s " -- [info] this fingerprint type is insecure and should not be relied upon" },
       { meth := .warn, text := s "(fin) " ++ f.ftype ++ s ": " ++ f.md5 ++ s " -- [info] do not rely on MD5 fingerprints for server identification; it is insecure for this use case" }]
    else []
  else
    [{ meth := .good, text := s "(fin) " ++ f.ftype ++ s ": " ++ f.sha256 }] ++
    (if cfg.verbose then
      [{ meth := .warn, text := s "(fin) " ++ f.ftype ++ s ": " ++ f.md5 ++ s " -- [info] do not rely on MD5 fingerprints for server identification; it is insecure for this use case" }]
     else [])

def recMeth (r : Rec) : Meth := if Report.recLevel r = 2 then .fail else if Report.recLevel r = 1 then .warn else .good

def recItem (cfg : Cfg) (inp : Input) (r : Rec) : Item :=
  let p := if cfg.batch then [] else spaces (inp.maxlen - r.name.length)
  let an := match r.action with
    | .del => s "remove"
    | .add => s "append"
    | .chg => s "change"
  let sg := match r.action with
    | .del => s "-"
    | .add => s "+"
    | .chg => s "!"
  let notes := if r.action = .chg then s " (increase modulus size to 3072 bits or larger)" else []
  { meth := recMeth r, text := s "(rec) " ++ sg ++ r.name ++ p ++ s "-- " ++ r.cat ++ s " algorithm to " ++ an ++ notes ++ s " " }

/-- `not perfect_config`: some removal or change is recommended -/
def anyProblems (inp : Input) : Bool := inp.report.recs.any (fun r => decide (r.action = .del) || decide (r.action = .chg))

def infoItems (inp : Input) : List Item :=
  (if inp.putty then [{ meth := .warn, text := s "(nfo) PuTTY does not have the option of restricting any algorithms during the SSH handshake." }] else []) ++
  (if anyProblems inp then [{ meth := .warn, text := s "(nfo) For hardening guides on common OSes, please see: <https://www.ssh-audit.com/hardening_guides.html>" }] else []) ++
  (inp.report.notes.filter (fun n => decide (n.length > 0))).map (fun n => { meth := .warn, text := s "(nfo) " ++ n })

def recTitle (inp : Input) : Str :=
  s "# algorithm recommendations " ++ (match inp.swDisplay with
    | some d => s "(for " ++ d ++ s ")"
    | none => [])

/-- the sections of `output()` in order (SSH-2 peer, or no peer at all) -/
def sections (cfg : Cfg) (inp : Input) : List Sec :=
  [{ title := s "# general", sort := false, items := generalItems inp },
   { title := s "# security", sort := false, items := securityItems cfg inp }] ++
  (if inp.hasKex then
    [{ title := s "# key exchange algorithms", sort := false, items := algItems cfg inp inp.report.kex },
     { title := s "# host-key algorithms", sort := false, items := algItems cfg inp inp.report.key },
     { title := s "# encryption algorithms (ciphers)", sort := false, items := algItems cfg inp inp.report.enc },
     { title := s "# message authentication code algorithms", sort := false, items := algItems cfg inp inp.report.mac }]
   else []) ++
  [{ title := s "# fingerprints", sort := false, items := inp.fps.flatMap (fpItems cfg) },
   { title := recTitle inp, sort := true, items := inp.report.recs.map (recItem cfg inp) },
   { title := s "# additional info", sort := false, items := infoItems inp }]

def jsonDoc (cfg : Cfg) (inp : Input) : Str := if cfg.jsonIndent then inp.jsonIndented else inp.jsonCompact

def unknownText (names : List Str) : Str :=
  s "\n\n!!! WARNING: unknown algorithm(s) found!: " ++ Text.join (s ",") names ++
  s ".  If this is the latest version of ssh-audit (see <https://github.com/jtesta/ssh-audit/releases>), please create a new Github issue at <https://github.com/jtesta/ssh-audit/issues> with the full output above.\n"

/-- the tail of `output()`: the JSON document replaces everything; otherwise the unknown-algorithm notice -/
def finalOps (cfg : Cfg) (inp : Input) : List Op :=
  if cfg.json then [.reset, .print .info (jsonDoc cfg inp) true true]
  else if inp.report.unknown.length > 0 then [.print .warn (unknownText inp.report.unknown) true false]
  else []

def outputOps (cfg : Cfg) (inp : Input) : List Op := (sections cfg inp).flatMap Sec.ops ++ finalOps cfg inp

/-- the buffer entries after `output()` on a fresh buffer (what the final `write()` prints) -/
def render (cfg : Cfg) (inp : Input) : List Str := (exec cfg (outputOps cfg inp) {}).entries

/-- exit status of a standard audit: the report's (no output option is consulted — `C02.report_status`) -/
def exitStatus (_cfg : Cfg) (inp : Input) : Nat := inp.report.status

/-- a completed single-target standard audit: the verbose messages (each `v(msg, write_now=True)`),
    `output()`, and `main()`'s final `out.write()` -/
def auditOps (cfg : Cfg) (vmsgs : List Str) (inp : Input) : List Op :=
  vmsgs.map (fun m => Op.v m true) ++ outputOps cfg inp ++ [.write]

def stdoutOf (cfg : Cfg) (vmsgs : List Str) (inp : Input) : List (List Str) := (exec cfg (auditOps cfg vmsgs inp) {}).out

/-- a handshake error after the banner: `output(out, aconf, banner, header); out.fail(err)`, then `main()`'s `out.write()` -/
def auditErrorOps (cfg : Cfg) (vmsgs : List Str) (inp : Input) (err : Str) : List Op :=
  vmsgs.map (fun m => Op.v m true) ++ outputOps cfg inp ++ [.print .fail err true false, .write]

def stdoutOfError (cfg : Cfg) (vmsgs : List Str) (inp : Input) (err : Str) : List (List Str) :=
  (exec cfg (auditErrorOps cfg vmsgs inp err) {}).out

/-! ### closed form (equal to `render`: `Lemmas.Output.render_eq_closed`) -/

def keep (lv : Nat) (it : Item) : Bool := passes lv it.meth it.always

/-- a section as it reaches the buffer outside JSON mode -/
def renderSec (cfg : Cfg) (sc : Sec) : List Str :=
  let body := (sc.items.filter (keep cfg.level)).map (fun it => paint cfg.colors it.meth it.text)
  if body.isEmpty then []
  else
    (if cfg.batch then [] else [paint cfg.colors .head sc.title]) ++
    (if sc.sort then sortStr body else body) ++
    (if cfg.batch || !passes cfg.level .info false then [] else [[]])

def renderTail (cfg : Cfg) (inp : Input) : List Str :=
  if inp.report.unknown.length > 0 ∧ passes cfg.level .warn false then [paint cfg.colors .warn (unknownText inp.report.unknown)] else []

def renderClosed (cfg : Cfg) (inp : Input) : List Str :=
  if cfg.json then [jsonDoc cfg inp]
  else (sections cfg inp).flatMap (renderSec cfg) ++ renderTail cfg inp

/-- every finding the algorithm sections show under `cfg`, in order, with the item that shows it -/
def shownPairs (cfg : Cfg) (inp : Input) : List (Finding × Item) :=
  (inp.report.kex ++ inp.report.key ++ inp.report.enc ++ inp.report.mac).flatMap (algPairs cfg inp)

/-- all findings of a report -/
def findingsOf (r : Report.Report) : List Finding :=
  (r.kex ++ r.key ++ r.enc ++ r.mac).flatMap (fun l => l.notes.map (findingOf l))

/-- length of a colour escape at the head of the text: `ESC [ 0 ; d d m` (7), `ESC [ 0 m` (4), none (0) -/
def escLen : Str → Nat
  | c :: '[' :: '0' :: ';' :: d1 :: d2 :: 'm' :: _ => if c = esc ∧ Text.isDigit d1 = true ∧ Text.isDigit d2 = true then 7 else 0
  | c :: '[' :: '0' :: 'm' :: _ => if c = esc then 4 else 0
  | _ => 0

/-- `k` = characters of an escape still to skip -/
def stripGo : Nat → Str → Str
  | _, [] => []
  | k + 1, _ :: r => stripGo k r
  | 0, c :: r =>
    match escLen (c :: r) with
    | 0 => c :: stripGo 0 r
    | n + 1 => stripGo n r

/-- removal of colour escapes (`re.sub('\x1b\\[0(;[0-9][0-9])?m', '', t)`) -/
def stripAnsi (t : Str) : Str := stripGo 0 t

end Output
end SshAudit
