import SshAudit.Driver.WireOps
namespace SshAudit.Driver

/-- line-protocol operations of the Multi model (stub; filled in when the model lands) -/
def multiOp (_op : String) (_args : List String) : Option J := none

end SshAudit.Driver
