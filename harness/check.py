#!/venv/bin/python
"""Entry point of every check:  check.py Cxx [--tier quick|thorough] [--replay file]

Decision protocol (DESIGN.md §5):
  1. translate /repo tables -> lean/SshAudit/Gen            (translator tie; plugins with GEN_LOGIC: also the listed functions, step 3)
  2. lake build the property's Props module and the driver   (kernel re-checks every theorem)
  3. audit: every listed theorem compiled, axioms ⊆ {propext, Classical.choice, Quot.sound}
  4. translation validation of the translator (dump-tables round trip)
  5. correspondence: model driver vs. real implementation on generated inputs
  6. failing-input search with the property's own oracle on the real implementation
  7. decide: exit 0 / VIOLATION with concrete replay / VIOLATION … no-failing-input-found
Exit 2 = the machinery itself failed (never a verdict).
"""
import argparse
import importlib
import json
import subprocess
import os
import sys
import time
import traceback

sys.path.insert(0, os.path.dirname(os.path.abspath(__file__)))
import common  # noqa: E402


class Ctx:
    def __init__(self, prop, tier, seed):
        self.prop = prop
        self.tier = tier
        self.seed = seed
        self.rng = common.Rng(seed, prop)
        self.driver_ok = False
        self.broken = False          # set when a proof obligation or the translator tie is broken
        self.deadline = None

    def scale(self, quick, thorough):
        # quick tier on a tree whose source differs from the validated baseline: 4x the quick budget (capped by the thorough one)
        return common.scaled(self.tier, quick, thorough)

    def driver(self, lines):
        return common.run_driver(lines)


def main():
    ap = argparse.ArgumentParser()
    ap.add_argument('prop')
    ap.add_argument('--tier', default=os.environ.get('VERIF_TIER', 'quick'), choices=['quick', 'thorough'])
    ap.add_argument('--replay', default=None)
    args = ap.parse_args()
    seed = int(os.environ.get('VERIF_SEED', '0') or 0)
    prop = args.prop
    os.chdir(common.VERIF)
    t0 = time.time()
    try:
        plugin = importlib.import_module('props.' + prop)
    except ImportError:
        print('no such property check: %s' % prop)
        traceback.print_exc()
        return 2
    if args.replay:
        common.repo_src()
        obj = json.load(open(args.replay))
        if obj.get('kind') == 'no-failing-input-found':
            # nothing to re-execute on the implementation: the file names the theorems / correspondence streams that no longer check; say so and re-run the check itself
            print('this replay file records a broken proof obligation or correspondence, not a failing input:')
            print('  undischarged theorems: %s' % json.dumps(obj.get('undischarged_theorems'))[:600])
            for m in (obj.get('correspondence_mismatches') or [])[:3]:
                print('  mismatch: %s' % json.dumps(m, default=str)[:500])
            print('re-running the check on the current tree …')
            rc = subprocess.run([sys.executable, os.path.abspath(__file__), prop, '--tier', 'quick'], cwd=common.VERIF).returncode
            return 1 if rc == 1 else (0 if rc == 0 else 2)
        extname = (obj.get('failure') or {}).get('extension')
        if extname:
            return importlib.import_module(extname).replay(obj)
        return plugin.replay(obj)
    # watchdog: a check that does not finish is a machinery error (exit 2), never a silent hang
    import signal

    def on_alarm(signum, frame):
        raise TimeoutError('check %s exceeded its time limit' % prop)
    try:
        signal.signal(signal.SIGALRM, on_alarm)
        signal.alarm(int(os.environ.get('VERIF_TIME_LIMIT', '14400' if args.tier == 'thorough' else '2400')))
    except (ValueError, AttributeError):
        pass
    try:
        return run(plugin, prop, args.tier, seed, t0)
    except Exception:
        traceback.print_exc()
        print('MACHINERY-ERROR property=%s (exit 2: neither pass nor violation)' % prop)
        return 2


def run(plugin, prop, tier, seed, t0):
    ctx = Ctx(prop, tier, seed)
    notes = []
    # 1. translate
    tr = common.translate()
    if not tr['ok']:
        # the tables could not even be read: nothing is shown to hold; search still runs below
        notes.append('translator failed: ' + tr['log'][-400:])
        ctx.broken = True
    # a table that lives inside a function body and can no longer be found (moved / renamed by a refactoring): only the properties whose
    # theorems or oracles rest on it are affected
    TABLE_USERS = {'gex_algs': {'C12', 'C17', 'C19'}, 'kex_to_dhgroup_keys': {'C11', 'C17', 'C19'}, 'ranked_return_codes': {'C08'},
                   'default_kexinit': {'C01', 'C19'}}
    for tbl in (tr.get('missing') or []) if tr['ok'] else []:
        if prop in TABLE_USERS.get(tbl, {prop}):
            notes.append('the table %s could not be regenerated from the source' % tbl)
            ctx.broken = True
    # 2. build
    b_drv = common.lake_build(['driver'])
    ctx.driver_ok = b_drv['ok']
    if not b_drv['ok']:
        notes.append('driver does not build: ' + b_drv['log'][-600:])
        ctx.broken = True
    b = common.lake_build([plugin.MODULE])
    # 3. audit
    audit = common.audit_theorems(plugin.MODULE, plugin.NAMESPACE, plugin.THEOREMS, b)
    # extensions of the same property (plugin.EXTENSIONS = ['props.ext.<name>', …]): each is a module with MODULE / NAMESPACE / THEOREMS and its own
    # run(ctx) / replay(obj); its theorem file is built and audited the same way and its results are merged below
    all_theorems = list(plugin.THEOREMS)
    extensions = [importlib.import_module(n) for n in getattr(plugin, 'EXTENSIONS', [])]
    for ext in extensions:
        be = common.lake_build([ext.MODULE])
        if not be['ok']:
            b = dict(b, ok=False, log=b['log'] + '\n' + be['log'])
        tag = ext.NAMESPACE.split('.')[-1]
        for t, r_ in common.audit_theorems(ext.MODULE, ext.NAMESPACE, ext.THEOREMS, be).items():
            audit[tag + '.' + t] = r_
        all_theorems += [tag + '.' + t for t in ext.THEOREMS]
    # regenerated logic (plugin.GEN_LOGIC = [function names of harness/translate_logic.py]): the Lean definitions of these functions are
    # rewritten from the source and `GenLogic.<name>_eq_model` (definition = hand-written model) is one more obligation of the property
    gen_logic = None
    if getattr(plugin, 'GEN_LOGIC', None):
        # corollaries that also depend on functions another property owns are audited by that property only (GEN_LOGIC_COROLLARIES = False)
        gl, gen_logic = common.gen_logic_audit(plugin.GEN_LOGIC, corollaries=getattr(plugin, 'GEN_LOGIC_COROLLARIES', True))
        # A function that can no longer be *read* (moved into a helper, renamed, rewritten outside the translator's subset) is not an
        # undischarged theorem: nothing was regenerated, so nothing was refuted.  The hand-written model function keeps its other tie —
        # the correspondence streams of this run, where any difference in behaviour is a mismatch and is decided below.  The lost tie is
        # recorded (evidence: coverage.translator.logic_ties_lost) and printed; it is not counted among the obligations of this run.
        lost = {t: r['why'] for t, r in gl.items() if r.get('structural')}
        gl = {t: r for t, r in gl.items() if not r.get('structural')}
        if lost:
            gen_logic = dict(gen_logic or {}, logic_ties_lost=lost)
            notes.append('regenerated-logic tie lost (correspondence tie only) for: ' + ', '.join(sorted(lost)))
            print('NOTE: property=%s regenerated-logic tie lost for %s (the source no longer has these statements in a form the translator reads); '
                  'the model stays tied by the correspondence streams of this run' % (prop, ', '.join(sorted(lost))))
        audit.update(gl)
        all_theorems += list(gl)
    forbidden = common.grep_forbidden(common.lean_sources())
    undischarged = {t: r['why'] for t, r in audit.items() if not r['ok']}
    if forbidden:
        notes.append('forbidden constructs in Lean sources: ' + '; '.join(forbidden[:5]))
        ctx.broken = True
    if undischarged:
        ctx.broken = True
    checker_cmd = b['cmd'] + ' && lake env lean <#print axioms of each listed theorem>'
    leanchecker = None
    if tier == 'thorough' and b['ok']:
        rc, out = common.sh(['lake', 'env', 'leanchecker', plugin.MODULE] + [ext.MODULE for ext in extensions], cwd=common.LEAN, timeout=1800)
        leanchecker = {'rc': rc, 'tail': out[-300:]}
        checker_cmd += ' && lake env leanchecker ' + ' '.join([plugin.MODULE] + [ext.MODULE for ext in extensions])
        if rc != 0:
            ctx.broken = True
            notes.append('leanchecker rejected %s: %s' % (plugin.MODULE, out[-300:]))
    # 4. translator validation
    tables = None
    if ctx.driver_ok and tr['ok']:
        tables = common.tables_roundtrip()
        if not tables['ok']:
            ctx.broken = True
            notes.append('translator round trip differs for tables: %s' % tables['differing_tables'])
    # 5+6. correspondence and failing-input search
    common.repo_src()
    def guarded(mod):
        # a plugin that cannot cope with what the implementation does (an exception in the harness, a run the fake network had to abort) on a tree whose
        # source differs from the validated baseline is a broken correspondence, not a machinery error: the property is no longer shown to hold
        try:
            return mod.run(ctx)
        except (KeyboardInterrupt, SystemExit, TimeoutError):
            raise
        except BaseException:
            if not common.source_changed():
                raise
            tb = traceback.format_exc()
            print('harness stage %s failed on a changed tree:\n%s' % (mod.__name__, tb[-1500:]))
            cov_ = common.Coverage('the stage raised before it could count its cases')
            return {'failures': [], 'coverage': cov_, 'corr_cases': 0,
                    'mismatches': [{'stream': 'harness:' + mod.__name__, 'op': 'run(ctx)', 'model': 'the behaviour of the validated tree', 'impl': 'the harness could not process what the implementation did: ' + tb[-900:]}]}
    res = guarded(plugin)
    mismatches = res.get('mismatches', [])
    failures = res.get('failures', [])
    cov = res['coverage']
    for ext in extensions:
        rext = guarded(ext)
        for f in rext.get('failures', []):
            f.setdefault('extension', ext.__name__)
        mismatches = mismatches + rext.get('mismatches', [])
        failures = failures + rext.get('failures', [])
        res['corr_cases'] = res.get('corr_cases', 0) + rext.get('corr_cases', 0)
        res['assumptions'] = res.get('assumptions', []) + rext.get('assumptions', [])
        res['observations'] = res.get('observations', []) + rext.get('observations', [])
        ec = rext['coverage']
        cov.evaluations += ec.evaluations
        cov.nontrivial |= ec.nontrivial
        for k_, v_ in ec.hist.items():
            cov.hist[k_] = cov.hist.get(k_, 0) + v_
        cov.samples += ec.samples[:2]
        cov.rule += ' || ' + ec.rule
    # a stage shared by two properties tags each failure with the property whose clause it is ('for'); only this property's are decided here
    failures = [f for f in failures if f.get('for', prop) == prop]
    # 7. decide
    ledger = common.load_ledger()
    known = [e for e in ledger.get('findings', []) if e['property'] == prop]
    new_failures, reproduced = [], {}
    for f in failures:
        hit = [e for e in known if common.sig_matches(e['match'], f['sig'])]
        if hit:
            reproduced.setdefault(hit[0]['id'], (hit[0], f))
        else:
            new_failures.append(f)
    violations = 0
    lines = []
    if new_failures:
        groups = {}
        for f in new_failures:
            groups.setdefault(json.dumps(f['sig'], sort_keys=True, default=str), []).append(f)
        for key, group in list(groups.items())[:5]:
            # prefer a failing input that fails again in a process of its own (a failure can depend on what this run did before it)
            chosen, path, confirmed = None, None, False
            for f in group[:6]:
                cand = common.write_replay(prop, {'property': prop, 'kind': 'failing-input', 'failure': f,
                                                  'replay_cmd': '/venv/bin/python harness/check.py %s --replay <this file>' % prop,
                                                  'broken_obligations': undischarged, 'notes': notes})
                try:
                    rc = subprocess.run([sys.executable, os.path.abspath(__file__), prop, '--replay', os.path.join(common.VERIF, cand) if not os.path.isabs(cand) else cand],
                                        stdout=subprocess.DEVNULL, stderr=subprocess.DEVNULL, timeout=300, cwd=common.VERIF).returncode
                except Exception:
                    rc = None
                if chosen is None:
                    chosen, path = f, cand
                if rc == 1:
                    if cand != path:
                        try:
                            os.unlink(os.path.join(common.VERIF, path) if not os.path.isabs(path) else path)
                        except OSError:
                            pass
                    chosen, path, confirmed = f, cand, True
                    break
                elif cand != path:
                    try:
                        os.unlink(os.path.join(common.VERIF, cand) if not os.path.isabs(cand) else cand)
                    except OSError:
                        pass
            if not confirmed:
                full = os.path.join(common.VERIF, path) if not os.path.isabs(path) else path
                try:
                    obj = json.load(open(full))
                    obj['reproduced_in_fresh_process'] = False
                    obj['notes'] = obj.get('notes', []) + ['observed during the run of this check; the replay of this input alone in a fresh process did not fail again (the failure may depend on the runs that preceded it in the same process)']
                    json.dump(obj, open(full, 'w'), indent=1, default=str)
                except Exception:
                    pass
            lines.append('VIOLATION property=%s replay=%s' % (prop, path))
        violations = min(len(groups), 5)
    elif ctx.broken or mismatches:
        path = common.write_replay(prop, {'property': prop, 'kind': 'no-failing-input-found',
                                          'undischarged_theorems': undischarged, 'notes': notes,
                                          'correspondence_mismatches': mismatches[:10],
                                          'build_log_tail': b['log'][-1500:] if not b['ok'] else ''})
        lines.append('VIOLATION property=%s replay=%s no-failing-input-found' % (prop, path))
        violations = 1
    for fid, (e, f) in sorted(reproduced.items()):
        print('KNOWN-FINDING: property=%s %s: %s' % (prop, fid, e['what']))
    for l in lines:
        print(l)
    covd = cov.as_dict()
    covd.update({
        'obligations': len(all_theorems),
        'discharged': sum(1 for r in audit.values() if r['ok']),
        'checker_cmd': checker_cmd,
        'trusted_base': common.TRUSTED_BASE + res.get('trusted_extra', []),
        'theorems': {t: {'status': r['why'], 'axioms': r['axioms']} for t, r in audit.items()},
        'traces_validated_against_impl': res.get('corr_cases', 0),
        'correspondence_mismatches': len(mismatches),
        'translator': {'changed_files': tr.get('changed'), 'round_trip': tables, **({'logic': gen_logic} if gen_logic is not None else {})},
        'known_findings_reproduced': sorted(reproduced),
        'known_findings_not_reproduced': sorted(e['id'] for e in known if e['id'] not in reproduced),
        'observations': res.get('observations', []),
        'leanchecker': leanchecker,
        'notes': notes,
        'source_files_differing_from_validated_baseline': common.source_changed(),
        'budget': 'quick x4 (source differs from the validated baseline)' if (tier == 'quick' and common.source_changed()) else tier,
    })
    if covd['discharged'] == 0:
        # schema: a proof-level file needs discharged >= 1; with nothing discharged fall back to the generic keys
        covd['discharged_none'] = True
        del covd['discharged']
    if 'exhaustive' in res:
        covd['exhaustive'] = res['exhaustive']
    ev = {'property_id': prop, 'tier': tier, 'seed': seed, 'level': 'proof', 'coverage': covd,
          'assumptions': res.get('assumptions', []), 'wall_s': round(time.time() - t0, 2), 'violations': violations}
    common.write_evidence(prop, ev)
    print('%s: %d/%d obligations discharged, %d correspondence cases (%d mismatches), %d oracle evaluations, %d failures (%d known), %.1fs'
          % (prop, covd.get('discharged', 0), covd['obligations'], res.get('corr_cases', 0), len(mismatches), cov.evaluations,
             len(failures), len(failures) - len(new_failures), time.time() - t0))
    return 1 if violations else 0


if __name__ == '__main__':
    sys.exit(main())
