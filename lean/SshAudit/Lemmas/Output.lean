/-
  Helper lemmas for C15: the string order and `sortStr`, the buffer machine run on the call
  sequence of `output()` (closed form), colour stripping.
-/
import SshAudit.Model.Output
namespace SshAudit.Output
open SshAudit SshAudit.Report

/-! ### the code-point order on strings and `sortStr` -/

theorem ltStr_irrefl : ∀ a : Str, Text.ltStr a a = false
  | [] => rfl
  | c :: cs => by
    simp only [Text.ltStr, Char.lt_irrefl, if_false]
    exact ltStr_irrefl cs

theorem char_lt_trichotomy (a b : Char) (h1 : ¬ a < b) (h2 : ¬ b < a) : a = b := by
  have h1' : b ≤ a := Char.not_lt.mp h1
  have h2' : a ≤ b := Char.not_lt.mp h2
  exact Char.le_antisymm h2' h1'

theorem ltStr_trans : ∀ a b c : Str, Text.ltStr a b = true → Text.ltStr b c = true → Text.ltStr a c = true
  | [], [], _, h, _ => by simp [Text.ltStr] at h
  | [], _ :: _, [], _, h => by simp [Text.ltStr] at h
  | [], _ :: _, _ :: _, _, _ => by simp [Text.ltStr]
  | _ :: _, [], _, h, _ => by simp [Text.ltStr] at h
  | _ :: _, _ :: _, [], _, h => by simp [Text.ltStr] at h
  | x :: xs, y :: ys, z :: zs, h1, h2 => by
    simp only [Text.ltStr] at h1 h2 ⊢
    by_cases hxy : x < y
    · by_cases hyz : y < z
      · simp [Char.lt_trans hxy hyz]
      · by_cases hzy : z < y
        · simp [hyz, hzy] at h2
        · have : y = z := char_lt_trichotomy y z hyz hzy
          subst this; simp [hxy]
    · by_cases hyx : y < x
      · simp [hxy, hyx] at h1
      · have : x = y := char_lt_trichotomy x y hxy hyx
        subst this
        simp only [hxy, if_false] at h1
        by_cases hyz : x < z
        · simp [hyz]
        · by_cases hzy : z < x
          · simp [hyz, hzy] at h2
          · simp only [hyz, hzy, if_false] at h2 ⊢
            exact ltStr_trans xs ys zs h1 h2

/-- trichotomy: neither smaller ⇒ equal -/
theorem ltStr_eq_of_not_lt : ∀ a b : Str, Text.ltStr a b = false → Text.ltStr b a = false → a = b
  | [], [], _, _ => rfl
  | [], _ :: _, h, _ => by simp [Text.ltStr] at h
  | _ :: _, [], _, h => by simp [Text.ltStr] at h
  | x :: xs, y :: ys, h1, h2 => by
    simp only [Text.ltStr] at h1 h2
    by_cases hxy : x < y
    · simp [hxy] at h1
    · by_cases hyx : y < x
      · simp [hyx] at h2
      · have : x = y := char_lt_trichotomy x y hxy hyx
        subst this
        simp only [hxy, if_false] at h1 h2
        rw [ltStr_eq_of_not_lt xs ys h1 h2]

theorem ltStr_asymm (a b : Str) (h : Text.ltStr a b = true) : Text.ltStr b a = false := by
  cases hba : Text.ltStr b a
  · rfl
  · have := ltStr_trans a b a h hba
    rw [ltStr_irrefl] at this; cases this

theorem leStr_total (a b : Str) : (leStr a b || leStr b a) = true := by
  unfold leStr
  cases h : Text.ltStr b a
  · simp
  · simp [ltStr_asymm b a h]

theorem leStr_trans (a b c : Str) (h1 : leStr a b = true) (h2 : leStr b c = true) : leStr a c = true := by
  unfold leStr at *
  cases hca : Text.ltStr c a
  · rfl
  · -- c < a; from ¬ b < a: a ≤ b, so either a = b or a < b
    exfalso
    simp only [Bool.not_eq_true'] at h1 h2
    cases hab : Text.ltStr a b
    · have : a = b := ltStr_eq_of_not_lt a b hab h1
      subst this; rw [hca] at h2; cases h2
    · have := ltStr_trans c a b hca hab
      rw [this] at h2; cases h2

theorem leStr_antisymm (a b : Str) (h1 : leStr a b = true) (h2 : leStr b a = true) : a = b := by
  unfold leStr at *
  simp only [Bool.not_eq_true'] at h1 h2
  exact ltStr_eq_of_not_lt a b h2 h1

theorem sortStr_perm (l : List Str) : (sortStr l).Perm l := List.mergeSort_perm l leStr

theorem sortStr_sorted (l : List Str) : (sortStr l).Pairwise (fun a b => leStr a b = true) :=
  List.pairwise_mergeSort leStr_trans leStr_total l

/-- a sorted list is determined by its multiset -/
theorem sorted_perm_eq (l₁ l₂ : List Str) (h₁ : l₁.Pairwise (fun a b => leStr a b = true)) (h₂ : l₂.Pairwise (fun a b => leStr a b = true))
    (hp : l₁.Perm l₂) : l₁ = l₂ :=
  List.Perm.eq_of_pairwise (fun a b _ _ hab hba => leStr_antisymm a b hab hba) h₁ h₂ hp

/-- **the order in which lines enter a sorted section is unobservable** -/
theorem sortStr_eq_of_perm (l₁ l₂ : List Str) (h : l₁.Perm l₂) : sortStr l₁ = sortStr l₂ :=
  sorted_perm_eq _ _ (sortStr_sorted l₁) (sortStr_sorted l₂) ((sortStr_perm l₁).trans (h.trans (sortStr_perm l₂).symm))

/-- sorting tagged lines by their text, then filtering on the tags, then forgetting the tags = sorting the texts of the filtered lines -/
theorem sort_filter_map {α : Type} (f : α → Str) (p : α → Bool) (l : List α) :
    ((l.mergeSort (fun a b => leStr (f a) (f b))).filter p).map f = sortStr ((l.filter p).map f) := by
  apply sorted_perm_eq
  · rw [List.pairwise_map]
    apply List.Pairwise.filter
    exact List.pairwise_mergeSort (le := fun a b => leStr (f a) (f b)) (fun a b c => leStr_trans (f a) (f b) (f c)) (fun a b => leStr_total (f a) (f b)) l
  · exact sortStr_sorted _
  · exact (((List.mergeSort_perm l _).filter p).map f).trans (sortStr_perm _).symm

theorem sort_map {α : Type} (f : α → Str) (l : List α) :
    (l.mergeSort (fun a b => leStr (f a) (f b))).map f = sortStr (l.map f) := by
  have := sort_filter_map f (fun _ => true) l
  rw [List.filter_eq_self.mpr (fun _ _ => rfl), List.filter_eq_self.mpr (fun _ _ => rfl)] at this
  exact this

/-! ### the buffer machine on the call sequence of `output()` -/

theorem exec_nil (cfg : Cfg) (b : Buf) : exec cfg [] b = b := rfl
theorem exec_cons (cfg : Cfg) (op : Op) (ops : List Op) (b : Buf) : exec cfg (op :: ops) b = exec cfg ops (stepG cfg b op) := rfl
theorem exec_append (cfg : Cfg) (xs ys : List Op) (b : Buf) : exec cfg (xs ++ ys) b = exec cfg ys (exec cfg xs b) := by
  simp [exec, List.foldl_append]

/-- the painted texts of the items that pass the level filter -/
def bodyOf (cfg : Cfg) (items : List Item) : List Str := (items.filter (keep cfg.level)).map (fun it => paint cfg.colors it.meth it.text)

theorem bodyOf_cons (cfg : Cfg) (it : Item) (items : List Item) :
    bodyOf cfg (it :: items) = (if keep cfg.level it = true then [paint cfg.colors it.meth it.text] else []) ++ bodyOf cfg items := by
  unfold bodyOf
  by_cases h : keep cfg.level it = true <;> simp [List.filter_cons, h]

/-- items printed inside a section (all with `line_ended=True`) append their painted texts, filtered by level, to the section list -/
theorem exec_items (cfg : Cfg) (items : List Item) (buf sect : List Str) (o : List (List Str)) :
    exec cfg (items.map Item.op) ⟨buf, sect, true, true, o, none⟩ = ⟨buf, sect ++ bodyOf cfg items, true, true, o, none⟩ := by
  induction items generalizing sect with
  | nil => simp [exec_nil, bodyOf]
  | cons it rest ih =>
    rw [List.map_cons, exec_cons, bodyOf_cons]
    by_cases h : keep cfg.level it = true
    · have hs : stepG cfg ⟨buf, sect, true, true, o, none⟩ it.op = ⟨buf, sect ++ [paint cfg.colors it.meth it.text], true, true, o, none⟩ := by
        simp only [keep] at h
        simp [stepG, step, Item.op, doPrint, h]
      rw [hs, ih, if_pos h, List.append_assoc]
    · have hs : stepG cfg ⟨buf, sect, true, true, o, none⟩ it.op = ⟨buf, sect, true, true, o, none⟩ := by
        simp only [keep, Bool.not_eq_true] at h
        simp [stepG, step, Item.op, doPrint, h]
      rw [hs, ih, if_neg h, List.nil_append]

theorem paint_nil (c : Bool) (m : Meth) : paint c m [] = [] := by simp [paint, colorOn]

theorem passes_head (lv : Nat) (a : Bool) : passes lv .head a = true := by simp [passes, getLevel]

theorem renderSec_eq (cfg : Cfg) (sc : Sec) :
    renderSec cfg sc =
      if (bodyOf cfg sc.items).isEmpty then []
      else (if cfg.batch then [] else [paint cfg.colors .head sc.title]) ++ (if sc.sort then sortStr (bodyOf cfg sc.items) else bodyOf cfg sc.items) ++
           (if cfg.batch || !passes cfg.level .info false then [] else [[]]) := rfl

/-- one section outside JSON mode, started with an empty section list: the buffer grows by `renderSec` -/
theorem exec_sec (cfg : Cfg) (hj : cfg.json = false) (sc : Sec) (buf : List Str) (o : List (List Str)) :
    exec cfg sc.ops ⟨buf, [], false, true, o, none⟩ = ⟨buf ++ renderSec cfg sc, [], false, true, o, none⟩ := by
  unfold Sec.ops
  rw [exec_append, exec_append]
  have h1 : exec cfg [Op.enter] ⟨buf, [], false, true, o, none⟩ = ⟨buf, [], true, true, o, none⟩ := by
    simp [exec_cons, exec_nil, stepG, step]
  rw [h1, exec_items, List.nil_append, renderSec_eq]
  by_cases hb : (bodyOf cfg sc.items).isEmpty = true
  · have hb' : bodyOf cfg sc.items = [] := by simpa using hb
    simp [exec_cons, exec_nil, stepG, step, hb']
  · have hb' : bodyOf cfg sc.items ≠ [] := by simpa using hb
    rw [if_neg hb]
    cases hbt : cfg.batch
    · by_cases hp : passes cfg.level .info false = true
      · simp [exec_cons, exec_nil, stepG, step, hb', hj, doHead, doSep, doFlush, doPrint, hbt, hp, passes_head, paint_nil]
      · simp only [Bool.not_eq_true] at hp
        simp [exec_cons, exec_nil, stepG, step, hb', hj, doHead, doSep, doFlush, doPrint, hbt, hp, passes_head]
    · simp [exec_cons, exec_nil, stepG, step, hb', hj, doHead, doSep, doFlush, hbt]

/-- one section in JSON mode: nothing reaches the buffer, the section list keeps growing -/
theorem exec_sec_json (cfg : Cfg) (hj : cfg.json = true) (sc : Sec) (buf sect : List Str) (o : List (List Str)) :
    exec cfg sc.ops ⟨buf, sect, false, true, o, none⟩ = ⟨buf, sect ++ bodyOf cfg sc.items, false, true, o, none⟩ := by
  unfold Sec.ops
  rw [exec_append, exec_append]
  have h1 : exec cfg [Op.enter] ⟨buf, sect, false, true, o, none⟩ = ⟨buf, sect, true, true, o, none⟩ := by
    simp [exec_cons, exec_nil, stepG, step]
  rw [h1, exec_items]
  simp [exec_cons, exec_nil, stepG, step, hj]

theorem exec_secs (cfg : Cfg) (hj : cfg.json = false) (secs : List Sec) (buf : List Str) (o : List (List Str)) :
    exec cfg (secs.flatMap Sec.ops) ⟨buf, [], false, true, o, none⟩ = ⟨buf ++ secs.flatMap (renderSec cfg), [], false, true, o, none⟩ := by
  induction secs generalizing buf with
  | nil => simp [exec_nil]
  | cons sc rest ih => rw [List.flatMap_cons, exec_append, exec_sec cfg hj, ih, List.flatMap_cons, List.append_assoc]

theorem exec_secs_json (cfg : Cfg) (hj : cfg.json = true) (secs : List Sec) (buf sect : List Str) (o : List (List Str)) :
    exec cfg (secs.flatMap Sec.ops) ⟨buf, sect, false, true, o, none⟩ = ⟨buf, sect ++ secs.flatMap (fun sc => bodyOf cfg sc.items), false, true, o, none⟩ := by
  induction secs generalizing sect with
  | nil => simp [exec_nil]
  | cons sc rest ih => rw [List.flatMap_cons, exec_append, exec_sec_json cfg hj, ih, List.flatMap_cons, List.append_assoc]

/-- **`output()` on a buffer whose lists are empty** (any earlier writes `o`): no exception, flags restored, the buffer holds the closed form -/
theorem exec_output (cfg : Cfg) (inp : Input) (o : List (List Str)) :
    exec cfg (outputOps cfg inp) ⟨[], [], false, true, o, none⟩ = ⟨renderClosed cfg inp, [], false, true, o, none⟩ := by
  unfold outputOps renderClosed finalOps
  rw [exec_append]
  cases hj : cfg.json
  · rw [exec_secs cfg hj]
    simp only [Bool.false_eq_true, if_false, List.nil_append, renderTail]
    by_cases hu : inp.report.unknown.length > 0
    · by_cases hp : passes cfg.level .warn false = true
      · simp [exec_cons, exec_nil, stepG, step, doPrint, hu, hp]
      · simp only [Bool.not_eq_true] at hp
        simp [exec_cons, exec_nil, stepG, step, doPrint, hu, hp]
    · simp [exec_nil, hu]
  · rw [exec_secs_json cfg hj]
    simp [exec_cons, exec_nil, stepG, step, doReset, doFlush, doPrint, passes, paint, colorOn]

theorem render_eq_closed' (cfg : Cfg) (inp : Input) : render cfg inp = renderClosed cfg inp := by
  unfold render
  have h := exec_output cfg inp []
  have h0 : ({} : Buf) = ⟨[], [], false, true, [], none⟩ := rfl
  rw [h0, h]
  simp [Buf.entries, doFlush]

/-- what the verbose messages (`v(msg, write_now=True)`) put on stdout: one write each when verbose (outside JSON mode) or debug is on and
    the level is `info`; nothing otherwise (a message the level drops is not flushed) -/
def vWrites (cfg : Cfg) (vmsgs : List Str) : List (List Str) :=
  if ((cfg.verbose && !cfg.json) || cfg.debug) && passes cfg.level .info false then vmsgs.map (fun m => [m]) else []

theorem exec_vmsgs (cfg : Cfg) (vmsgs : List Str) (o : List (List Str)) :
    exec cfg (vmsgs.map (fun m => Op.v m true)) ⟨[], [], false, true, o, none⟩ = ⟨[], [], false, true, o ++ vWrites cfg vmsgs, none⟩ := by
  induction vmsgs generalizing o with
  | nil => simp [exec_nil, vWrites]
  | cons m rest ih =>
    rw [List.map_cons, exec_cons]
    by_cases hv : ((cfg.verbose && !cfg.json) || cfg.debug) = true
    · by_cases hp : passes cfg.level .info false = true
      · have hs : stepG cfg ⟨[], [], false, true, o, none⟩ (Op.v m true) = ⟨[], [], false, true, o ++ [[m]], none⟩ := by
          simp only [stepG, step, hv, hp]
          simp [doPrint, hp, doWrite, doFlush, paint, colorOn]
        rw [hs, ih]; simp [vWrites, hv, hp]
      · simp only [Bool.not_eq_true] at hp
        have hs : stepG cfg ⟨[], [], false, true, o, none⟩ (Op.v m true) = ⟨[], [], false, true, o, none⟩ := by
          simp only [stepG, step, hv, hp]
          simp [doPrint, hp]
        rw [hs, ih]; simp [vWrites, hp]
    · simp only [Bool.not_eq_true] at hv
      have hs : stepG cfg ⟨[], [], false, true, o, none⟩ (Op.v m true) = ⟨[], [], false, true, o, none⟩ := by
        simp only [stepG, step, hv]
        simp
      rw [hs, ih]; simp [vWrites, hv]

theorem stdoutOf_eq (cfg : Cfg) (vmsgs : List Str) (inp : Input) : stdoutOf cfg vmsgs inp = vWrites cfg vmsgs ++ [renderClosed cfg inp] := by
  unfold stdoutOf auditOps
  have h0 : ({} : Buf) = ⟨[], [], false, true, [], none⟩ := rfl
  rw [h0, exec_append, exec_append, exec_vmsgs, exec_output]
  simp [exec_cons, exec_nil, stepG, step, doWrite, doFlush]

theorem stdoutOfError_eq (cfg : Cfg) (vmsgs : List Str) (inp : Input) (err : Str) :
    stdoutOfError cfg vmsgs inp err =
      vWrites cfg vmsgs ++ [renderClosed cfg inp ++ (if passes cfg.level .fail false then [paint cfg.colors .fail err] else [])] := by
  unfold stdoutOfError auditErrorOps
  have h0 : ({} : Buf) = ⟨[], [], false, true, [], none⟩ := rfl
  rw [h0, exec_append, exec_append, exec_vmsgs, exec_output]
  by_cases hp : passes cfg.level .fail false = true
  · simp [exec_cons, exec_nil, stepG, step, doWrite, doFlush, doPrint, hp]
  · simp only [Bool.not_eq_true] at hp
    simp [exec_cons, exec_nil, stepG, step, doWrite, doFlush, doPrint, hp]

/-! ### colour escapes -/

theorem escLen_ne (c : Char) (r : Str) (h : c ≠ esc) : escLen (c :: r) = 0 := by
  unfold escLen
  split <;> simp_all

theorem stripAnsi_cons_ne (c : Char) (r : Str) (h : c ≠ esc) : stripAnsi (c :: r) = c :: stripAnsi r := by
  simp [stripAnsi, stripGo, escLen_ne c r h]

theorem stripAnsi_escfree (t r : Str) (h : esc ∉ t) : stripAnsi (t ++ r) = t ++ stripAnsi r := by
  induction t with
  | nil => rfl
  | cons c cs ih =>
    have hc : c ≠ esc := fun e => h (by simp [e])
    have hcs : esc ∉ cs := fun e => h (by simp [e])
    rw [List.cons_append, stripAnsi_cons_ne c _ hc, ih hcs]; rfl

theorem stripAnsi_reset : stripAnsi (esc :: s "[0m") = [] := by decide

theorem stripAnsi_open (d1 d2 : Char) (h1 : Text.isDigit d1 = true) (h2 : Text.isDigit d2 = true) (r : Str) :
    stripAnsi (esc :: '[' :: '0' :: ';' :: d1 :: d2 :: 'm' :: r) = stripAnsi r := by
  simp [stripAnsi, stripGo, escLen, h1, h2]

/-- **stripping the colour wrapper gives the uncoloured text** (texts without ESC) -/
theorem strip_paint (c : Bool) (m : Meth) (t : Str) (h : esc ∉ t) : stripAnsi (paint c m t) = paint false m t := by
  have hf : paint false m t = t := by simp [paint, colorOn]
  rw [hf]
  unfold paint
  by_cases hc : colorOn c m t = true
  · rw [if_pos hc]
    have key : ∀ d1 d2 : Char, Text.isDigit d1 = true → Text.isDigit d2 = true → stripAnsi ((esc :: s "[0;") ++ [d1, d2] ++ s "m" ++ t ++ (esc :: s "[0m")) = t := by
      intro d1 d2 hd1 hd2
      have : (esc :: s "[0;") ++ [d1, d2] ++ s "m" ++ t ++ (esc :: s "[0m") = esc :: '[' :: '0' :: ';' :: d1 :: d2 :: 'm' :: (t ++ (esc :: s "[0m")) := by
        simp [s]
      rw [this, stripAnsi_open d1 d2 hd1 hd2, stripAnsi_escfree t _ h, stripAnsi_reset, List.append_nil]
    cases m
    · exact key '3' '6' (by decide) (by decide)
    · exact key '3' '2' (by decide) (by decide)
    · simp [colorOn] at hc
    · exact key '3' '3' (by decide) (by decide)
    · exact key '3' '1' (by decide) (by decide)
  · rw [if_neg hc]
    have := stripAnsi_escfree t [] h
    rw [List.append_nil] at this
    rw [this]; simp [stripAnsi, stripGo]

end SshAudit.Output
