/-
  Line-protocol driver: one operation per input line (`op tok tok …`), one canonical JSON
  line per answer.  Runs the *executable model definitions* the theorems are about.
-/
import SshAudit.Driver.Ops
open SshAudit.Driver

partial def loop (h : IO.FS.Stream) (out : IO.FS.Stream) : IO Unit := do
  let line ← h.getLine
  if line.isEmpty then return ()
  let l := line.trimAscii.toString
  if l.isEmpty then loop h out else
  let toks := l.splitOn " "
  match toks with
  | [] => out.putStrLn "{\"err\": \"bad-op\"}"
  | op :: args => out.putStrLn (dispatch op args).render
  loop h out

def main : IO Unit := do
  let out ← IO.getStdout
  loop (← IO.getStdin) out
  out.flush
