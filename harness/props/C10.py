"""C10 — Wire encoding and decoding are exact inverses and packets are well-framed.

Theorems: SshAudit.Props.C10 (round trips for every value, framing, CRC table = bit-serial spec).
Tie: correspondence of every Wire model op with readbuf.py / writebuf.py / ssh_socket.py /
ssh1_crc32.py / ssh2_kex.py / ssh1_publickeymessage.py on generated values.
Search oracle (independent of the model): encode→decode on the real classes must be the
identity; every frame the real send_packet emits must satisfy RFC 4253 §6 under an independent
decoder and be read back by read_packet; SSH1 CRC must equal zlib's CRC-32 core.
"""
import json
import os
import struct
import zlib

from common import Coverage, tbytes, VERIF

ID = 'C10'
MODULE = 'SshAudit.Props.C10'
NAMESPACE = 'SshAudit.C10'
THEOREMS = ['byte_rt', 'byte_overflow', 'bool_rt', 'u32_rt', 'u32_overflow', 'string_rt', 'namelist_rt', 'namelist_empty',
            'createMpint_signed', 'mpint2_rt', 'createMpintU_eq', 'mpint1_rt', 'writeMpint1Z_nat', 'mpint1_negative_not_rt',
            'kexinit_rt', 'pkm_rt', 'padLen_bounds', 'frame_eq', 'frame_wf', 'frame_read_back', 'frame_rfc', 'crc_fold', 'crc_table_eq_spec', 'crcCalc_lt', 'frame1_read_back', 'frames_read_back']
# functions of the code whose Lean definitions are regenerated from the source on every run (harness/translate_logic.py); `GenLogic.<name>_eq_model`
# (lean/SshAudit/Props/GenLogic*.lean) ties each to the hand-written model function the theorems above are about
GEN_LOGIC = ['ssh1_crc32_table', 'ssh1_crc32_calc', 'mpint_length', 'send_packet_framing', 'read_packet1_lengths', 'read_packet2_lengths', 'parse_mpint', 'mpint2_pad_fmt', 'create_mpint', 'mpint1_nbytes', 'kex_write', 'kex_parse', 'pkm_write', 'pkm_parse']
TECHNIQUE = ('Lean 4 theorems (induction, omega, kernel-evaluated 256-entry CRC table) over a hand-written codec model; the mpint writer and reader, the CRC, the packet length '
             'arithmetic and the KEXINIT / SSH-1 public-key message writers and parsers are regenerated from the Python source by a translator on every run and proved equal to that model; '
             'differential correspondence with the Python codecs')
LEVEL_TEXT = ('Round-trip, framing and CRC statements are proved for every value and every byte string (unbounded) about the Lean model of the '
              'buffer classes; the model is executed by a compiled driver and compared op-by-op with the real ReadBuf/WriteBuf/SSH_Socket/'
              'SSH1_CRC32/SSH2_Kex/SSH1_PublicKeyMessage on boundary-heavy generated inputs; an independent oracle replays the round trips on the real code.')
LEVEL_NOTE = ('Trusted: Lean kernel, the correspondence harness and its generators, CPython struct/io. mpint2 is proved for all integers after the D01 repair '
              '(fix: commit in /repo); framing is proved against the repaired read_packet (D16). SSH-1 mpints of negative sign do not round-trip (format is unsigned): '
              'known finding D02, proved as a negation. Regenerated from the source and proved equal to the model (lost ties are printed): _create_mpint, _parse_mpint, read_mpint2 pad choice, '
              'read_mpint1 byte count, SSH2_Kex.write/parse, SSH1_PublicKeyMessage.write/parse, CRC table and fold, send/read_packet arithmetic; _bitlength = int.bit_length is tied by correspondence only. '
              'The pkm round trip is a theorem since round 17 (pkm_rt); kexinit_reencode / pkm re-encode are covered by correspondence (re-encode ops), not yet by theorems.')


class FakeSock:
    def __init__(self, data=b''):
        self.data = data
        self.sent = []

    def send(self, d):
        self.sent.append(bytes(d))
        return len(d)

    def recv(self, n):
        d, self.data = self.data, b''
        return d

    def shutdown(self, how):
        pass

    def close(self):
        pass

    def settimeout(self, t):
        pass


class ChunkSock(FakeSock):
    """delivers the scripted chunks one recv at a time, never more than asked for; then the peer is closed"""
    def __init__(self, chunks):
        super().__init__(b'')
        self.chunks = [c for c in chunks if c]

    def recv(self, n):
        if not self.chunks:
            return b''
        c = self.chunks.pop(0)
        if len(c) > n:
            self.chunks.insert(0, c[n:])
            c = c[:n]
        return c


def mk_socket(data=b''):
    from ssh_audit.ssh_socket import SSH_Socket
    from ssh_audit.outputbuffer import OutputBuffer
    out = OutputBuffer()
    s = SSH_Socket(out, 'localhost', 22)
    fs = ChunkSock(data) if isinstance(data, list) else FakeSock(data)
    s._SSH_Socket__sock = fs
    return s, fs, out


def exn_name(e):
    import struct as st
    if isinstance(e, st.error):
        return 'struct'
    if isinstance(e, UnicodeDecodeError):
        return 'unicode'
    if isinstance(e, ValueError):
        return 'value'
    if isinstance(e, TypeError):
        return 'type'
    if isinstance(e, KeyError):
        return 'key'
    if isinstance(e, IndexError):
        return 'index'
    if isinstance(e, SystemExit):
        return 'sysexit(%s)' % e.code
    if isinstance(e, OverflowError):
        return 'struct'
    return 'other:' + type(e).__name__


def guard(f):
    try:
        return {'ok': f()}
    except BaseException as e:  # noqa
        return {'err': exn_name(e)}


def rest_of(rb):
    return rb._buf.read().hex()


def dec_piece(h):
    return bytes.fromhex(h).decode('utf-8', 'replace')


# ---------------------------------------------------------------- impl adapters (one per driver op)

def impl(op, arg):
    from ssh_audit.readbuf import ReadBuf
    from ssh_audit.writebuf import WriteBuf
    from ssh_audit.ssh2_kex import SSH2_Kex
    from ssh_audit.ssh1_publickeymessage import SSH1_PublicKeyMessage
    from ssh_audit.ssh1 import SSH1
    if op == 'byte.enc':
        return guard(lambda: WriteBuf().write_byte(arg).write_flush().hex())
    if op == 'bool.enc':
        return guard(lambda: WriteBuf().write_bool(arg).write_flush().hex())
    if op == 'u32.enc':
        return guard(lambda: WriteBuf().write_int(arg).write_flush().hex())
    if op == 'string.enc':
        return guard(lambda: WriteBuf().write_string(arg).write_flush().hex())
    if op == 'mpint2.enc':
        return guard(lambda: WriteBuf().write_mpint2(arg).write_flush().hex())
    if op == 'mpint1.enc':
        return guard(lambda: WriteBuf().write_mpint1(arg).write_flush().hex())
    if op == 'list.enc':
        # names travel as UTF-8 bytes; the code joins str and encodes the result
        return guard(lambda: WriteBuf().write_list([n.decode('utf-8') for n in arg]).write_flush().hex())
    if op == 'stringu.enc':
        # the str flavour of write_string (encoded as UTF-8 by the code); the model sees the UTF-8 bytes
        return guard(lambda: WriteBuf().write_string(arg.decode('utf-8')).write_flush().hex())

    def rd(fn, conv=lambda x: x):
        def run():
            rb = ReadBuf(arg)
            v = fn(rb)
            return [conv(v), rest_of(rb)]
        return guard(run)
    if op == 'byte.dec':
        return rd(lambda rb: rb.read_byte())
    if op == 'bool.dec':
        return rd(lambda rb: rb.read_bool())
    if op == 'u32.dec':
        return rd(lambda rb: rb.read_int())
    if op == 'string.dec':
        return rd(lambda rb: rb.read_string(), lambda b: b.hex())
    if op == 'list.dec':
        return rd(lambda rb: rb.read_list())
    if op == 'mpint2.dec':
        return rd(lambda rb: rb.read_mpint2(), str)
    if op == 'mpint1.dec':
        return rd(lambda rb: rb.read_mpint1(), str)
    if op == 'frame':
        def run():
            s, fs, _ = mk_socket()
            s.write(arg)
            s.send_packet()
            return b''.join(fs.sent).hex()
        return guard(run)
    if op == 'readpacket':
        def run():
            s, fs, _ = mk_socket(arg)
            t, p = s.read_packet(2)
            if t < 0:
                return None
            return [t, p.hex(), s.read(s.unread_len).hex()]
        import io, contextlib
        with contextlib.redirect_stdout(io.StringIO()):
            return guard(run)
    if op == 'readpackets':
        def runs():
            s, fs, _ = mk_socket(list(arg))
            pk, end = [], None
            for _ in range(len(b''.join(arg)) + 2):
                try:
                    t, p = s.read_packet(2)
                except BaseException as e:  # noqa
                    end = exn_name(e)
                    break
                if t < 0:
                    break
                pk.append([t, p.hex()])
            return {'packets': pk, 'end': end}
        import io, contextlib
        with contextlib.redirect_stdout(io.StringIO()):
            return guard(runs)
    if op == 'readpacket1':
        def run1():
            s, fs, _ = mk_socket(arg)
            t, p = s.read_packet(1)
            if t < 0:
                return None
            return [t, p.hex(), s.read(s.unread_len).hex()]
        import io, contextlib
        with contextlib.redirect_stdout(io.StringIO()):
            return guard(run1)
    if op == 'crc':
        return guard(lambda: SSH1.crc32(arg))
    if op == 'kex.parse':
        def run():
            k = SSH2_Kex.parse(None, arg)
            return {'cookie': k.cookie.hex(), 'kex': k.kex_algorithms, 'key': k.key_algorithms,
                    'encC': k.client.encryption, 'encS': k.server.encryption, 'macC': k.client.mac, 'macS': k.server.mac,
                    'compC': k.client.compression, 'compS': k.server.compression,
                    'langC': k.client.languages, 'langS': k.server.languages, 'follows': k.follows, 'unused': k.unused}
        return guard(run)
    if op == 'kex.reencode':
        return guard(lambda: SSH2_Kex.parse(None, arg).payload.hex())
    if op == 'pkm.parse':
        def run():
            p = SSH1_PublicKeyMessage.parse(arg)
            return {'cookie': p.cookie.hex(), 'skBits': p.server_key_bits, 'skE': p.server_key_public_exponent,
                    'skN': p.server_key_public_modulus, 'hkBits': p.host_key_bits, 'hkE': p.host_key_public_exponent,
                    'hkN': p.host_key_public_modulus, 'pflags': p.protocol_flags, 'cmask': p.supported_ciphers_mask,
                    'amask': p.supported_authentications_mask}
        return guard(run)
    if op == 'pkm.reencode':
        return guard(lambda: SSH1_PublicKeyMessage.parse(arg).payload.hex())
    raise KeyError(op)


def canon_model(op, m):
    """Bring the model's answer to the implementation's canonical form."""
    if 'ok' not in m:
        return m
    v = m['ok']
    if op == 'list.dec':
        return {'ok': [[dec_piece(x) for x in v[0]], v[1]]}
    if op == 'kex.parse':
        v = dict(v)
        for k in ('kex', 'key', 'encC', 'encS', 'macC', 'macS', 'compC', 'compS', 'langC', 'langS'):
            v[k] = [dec_piece(x) for x in v[k]]
        return {'ok': v}
    if op == 'crc':
        return {'ok': v[0]}
    if op == 'kex.reencode':
        return m
    return m


def line_of(op, arg):
    if op in ('byte.enc', 'u32.enc', 'mpint2.enc', 'mpint1.enc'):
        return '%s %d' % (op, arg)
    if op == 'bool.enc':
        return '%s %d' % (op, 1 if arg else 0)
    if op == 'list.enc':
        return '%s %s' % (op, '_' if not arg else ','.join(tbytes(x) for x in arg))
    if op == 'stringu.enc':
        return 'string.enc %s' % tbytes(arg)
    if op == 'readpackets':
        return 'readpackets %s' % tbytes(b''.join(arg))
    return '%s %s' % (op, tbytes(arg))


# ---------------------------------------------------------------- generators

def gen_ints(ctx):
    r = ctx.rng
    xs = [0, 1, -1, 127, 128, -128, -129, 255, 256, -256, -0x180000000, -0x100000001, -0x80000000, 0x80000000,
          -(1 << 32), -(1 << 32) - 1, -(1 << 63), -(1 << 64), 1 << 64, -0x1ffffffff, -0x8000, -0x8001, -0x8100, 0x7fff, 0x8000]
    win = 70000
    xs += range(-300, 301)
    xs += [r.randint(-win, win) for _ in range(ctx.scale(1500, 60000))]
    ks = list(range(0, 200)) + [r.randint(200, 8192) for _ in range(ctx.scale(120, 4000))] + [8191, 8192]
    for k in ks:
        for d in (-2, -1, 0, 1, 2):
            xs.append((1 << k) + d)
            xs.append(-(1 << k) + d)
    # every 32-bit word pattern class: top bit set/clear per word, up to 6 words, both signs
    for nwords in range(1, 7):
        for _ in range(ctx.scale(40, 800)):
            words = [r.choice([0, 1, 0x7fffffff, 0x80000000, 0xffffffff, r.getrandbits(32), r.getrandbits(31), r.getrandbits(32) | 0x80000000])
                     for _ in range(nwords)]
            v = 0
            for w in words:
                v = (v << 32) | w
            xs.append(v)
            xs.append(-v)
    for _ in range(ctx.scale(300, 10000)):
        bits = r.choice([8, 16, 31, 32, 33, 63, 64, 65, 127, 128, 255, 256, 1024, 2048, 4096, r.randint(1, 9000)])
        v = r.getrandbits(bits)
        xs.append(v)
        xs.append(-v)
    return xs


NAME_ALPH = 'abcdefghijklmnopqrstuvwxyz0123456789-@.+/=_'


def gen_name(r, maxlen=30):
    n = r.choice([1, 2, 5, 12, 20, r.randint(1, maxlen)])
    return ''.join(r.choice(NAME_ALPH) for _ in range(n)).encode()


def gen_namelist(r):
    k = r.choice([1, 1, 2, 3, 5, 10, r.randint(1, 40)])
    return [gen_name(r) for _ in range(k)]


def gen_kexinit(r, mal=False):
    from ssh_audit.writebuf import WriteBuf
    w = WriteBuf()
    w.write(bytes(r.getrandbits(8) for _ in range(16)))
    for _ in range(10):
        l = gen_namelist(r)
        if r.random() < 0.08:
            l.append(r.choice(['kéx-über@example.com', 'шифр', 'a€b']).encode('utf-8'))
        if r.random() < 0.1:
            l = [b'']
        body = b','.join(l)
        if mal and r.random() < 0.3:
            body = bytes(r.getrandbits(8) for _ in range(r.randint(0, 20)))
        w.write_string(body)
    w.write_byte(r.choice([0, 1, 1, 0, 2, 255]) if mal else r.choice([0, 1]))
    w.write_int(r.choice([0, 0, 1, r.getrandbits(32)]))
    return w.write_flush()


def mutate(r, b):
    b = bytearray(b)
    k = r.choice(['trunc', 'flip', 'len', 'extend', 'none'])
    if k == 'trunc' and b:
        del b[r.randrange(len(b)):]
    elif k == 'flip' and b:
        i = r.randrange(len(b))
        b[i] ^= 1 << r.randrange(8)
    elif k == 'len' and len(b) > 20:
        i = r.randrange(16, len(b) - 3)
        b[i:i + 4] = struct.pack('>I', r.choice([0, 1, 5, 0xffffffff, 0x7fffffff, len(b)]))
    elif k == 'extend':
        b += bytes(r.getrandbits(8) for _ in range(r.randint(1, 9)))
    return bytes(b)


def gen_pkm(r):
    from ssh_audit.writebuf import WriteBuf
    w = WriteBuf()
    w.write(bytes(r.getrandbits(8) for _ in range(8)))
    w.write_int(r.choice([768, 1024]))
    w.write_mpint1(r.choice([0, 1, 0x10001, r.getrandbits(r.randint(1, 40))]))
    w.write_mpint1(r.getrandbits(r.choice([8, 512, 768, 1024, r.randint(1, 1100)])))
    w.write_int(r.choice([1024, 2048]))
    w.write_mpint1(r.choice([0x10001, 35, r.getrandbits(17)]))
    w.write_mpint1(r.getrandbits(r.choice([1024, 2048, r.randint(1, 2100)])))
    w.write_int(r.getrandbits(3))
    w.write_int(r.getrandbits(7))
    w.write_int(r.getrandbits(7))
    return w.write_flush()


def build_cases(ctx):
    r = ctx.rng
    cases = []  # (op, arg, tags)
    # corpus first: D01 witnesses (fixed), D02 witness (known finding), D16 witness (fixed)
    for n in (-0x180000000, -0x100000001, -(1 << 64) - 5, -((0x80000001 << 32) | 0x80000000)):
        cases.append(('mpint2.enc', n, ['corpus-D01']))
    cases.append(('mpint1.enc', -1, ['corpus-D02']))
    cases.append(('readpacket', struct.pack('>IB', 4, 255) + b'\x14' + b'A' * 40, ['corpus-D16']))
    cases.append(('readpacket', struct.pack('>IB', 12, 11) + b'\x00' * 11, ['corpus-D16-empty-payload']))
    for p in os.listdir(os.path.join(VERIF, 'corpus')) if os.path.isdir(os.path.join(VERIF, 'corpus')) else []:
        if p.startswith('C10') and p.endswith('.json'):
            for c in json.load(open(os.path.join(VERIF, 'corpus', p))):
                arg = bytes.fromhex(c['arg']) if c.get('hex') else c['arg']
                cases.append((c['op'], arg, ['corpus']))
    ints = gen_ints(ctx)
    for n in ints:
        cases.append(('mpint2.enc', n, ['mpint2', 'neg' if n < 0 else 'nonneg', 'multiword' if abs(n) >= 1 << 32 else 'oneword']))
        if n >= 0 or r.random() < 0.02:
            cases.append(('mpint1.enc', n, ['mpint1', 'neg' if n < 0 else 'nonneg']))
    for v in [0, 1, 255, 256, 65535, 65536, (1 << 31) - 1, 1 << 31, (1 << 32) - 1, 1 << 32, (1 << 32) + 1, 1 << 40] + [r.getrandbits(r.randint(1, 34)) for _ in range(300)]:
        cases.append(('u32.enc', v, ['u32', 'overflow' if v >= 1 << 32 else 'fits']))
    for v in list(range(0, 300, 7)) + [255, 256, 257, 1000]:
        cases.append(('byte.enc', v, ['byte', 'overflow' if v > 255 else 'fits']))
    cases.append(('bool.enc', True, ['bool']))
    cases.append(('bool.enc', False, ['bool']))
    for _ in range(ctx.scale(300, 5000)):
        s = bytes(r.getrandbits(8) for _ in range(r.choice([0, 1, 2, 3, 4, 5, 255, 256, r.randint(0, 600)])))
        cases.append(('string.enc', s, ['string']))
        cases.append(('list.enc', gen_namelist(r), ['namelist']))
    uni = ['é', 'ü', 'ß', '€', '日本', 'кекс', '\U0001f511', 'a', 'b-c', '@', '.']
    for _ in range(ctx.scale(200, 3000)):
        t = ''.join(r.choice(uni) for _ in range(r.randint(1, 12)))
        cases.append(('stringu.enc', t.encode('utf-8'), ['string', 'non-ascii-text']))
        names = [''.join(r.choice(uni + ['x', 'y', 'z']) for _ in range(r.randint(1, 8))) for _ in range(r.randint(1, 5))]
        cases.append(('list.enc', [n.encode('utf-8') for n in names], ['namelist', 'non-ascii-text']))
    cases.append(('list.enc', [], ['namelist', 'empty-list']))
    cases.append(('list.enc', [b''], ['namelist', 'empty-name']))
    # decoders on arbitrary / malformed bytes
    for _ in range(ctx.scale(600, 20000)):
        b = bytes(r.getrandbits(8) for _ in range(r.choice([0, 1, 2, 3, 4, 5, 6, 8, 9, 20, r.randint(0, 64)])))
        if r.random() < 0.5 and len(b) >= 4:
            b = struct.pack('>I', r.choice([0, 1, len(b) - 4, len(b), max(0, len(b) - 5), 3, 1 << 31])) + b[4:]
        op = r.choice(['byte.dec', 'bool.dec', 'u32.dec', 'string.dec', 'list.dec', 'mpint2.dec', 'mpint1.dec'])
        if op == 'mpint1.dec' and len(b) >= 2:
            b = struct.pack('>H', r.choice([0, 1, 7, 8, 9, 16, 8 * (len(b) - 2), 8 * (len(b) - 2) + 3, 65535])) + b[2:]
        cases.append((op, b, ['decode-' + op]))
    # name lists with non-UTF-8 bytes and commas
    for _ in range(ctx.scale(200, 4000)):
        body = bytes(r.choice([0x2c, 0x2c, 0x61, 0x62, 0xff, 0xc3, 0xa9, 0xe2, 0x82, 0xac, 0xf0, 0x80, r.getrandbits(8)]) for _ in range(r.randint(0, 24)))
        cases.append(('list.dec', struct.pack('>I', len(body)) + body + b'zz', ['decode-list-nonutf8']))
    # framing: every payload length 0..4096 (thorough) / a boundary-dense subset (quick)
    lens = range(0, 4097) if ctx.tier == 'thorough' else sorted(set(list(range(0, 70)) + [r.randint(70, 4096) for _ in range(150)] + [255, 256, 1023, 1024, 2047, 2048, 4095, 4096]))
    for L in lens:
        p = bytes(r.getrandbits(8) for _ in range(L))
        cases.append(('frame', p, ['frame']))
    # read_packet on arbitrary headers
    for _ in range(ctx.scale(800, 30000)):
        plen = r.choice([0, 1, 4, 5, 12, 20, 28, 36, r.randint(0, 80), 0xffffffff, 1 << 31])
        pad = r.choice([0, 3, 4, 7, 11, 12, 255, r.getrandbits(8)])
        body = bytes(r.getrandbits(8) for _ in range(r.choice([0, 1, plen % 100, max(0, plen - 1) % 100, r.randint(0, 90)])))
        cases.append(('readpacket', struct.pack('>IB', plen, pad) + body, ['readpacket-arbitrary']))
    # several packets on one connection, delivered in pieces: cuts at random places, inside the padding of each packet, and where recv(2048) ends inside the padding
    for k in range(ctx.scale(120, 3000)):
        n = r.choice([2, 2, 3, 4])
        sizes = [r.choice([1, 2, 5, 12, 13, 60, r.randint(1, 300)]) for _ in range(n)]
        if k % 4 == 0:
            sizes[0] = r.choice([2040, 2041, 2042, 2043, 2036, 4088, 4089, 4090, 4091])      # the first packet's padding straddles a 2048-byte recv
        pls = [bytes([r.choice([20, 21, 2, 4, 31])]) + bytes(r.getrandbits(8) for _ in range(sz - 1)) for sz in sizes]
        frames = [rfc_frame(p, extra_pad=r.choice([0, 0, 1])) for p in pls]
        stream = b''.join(frames)
        cuts = set()
        mode = k % 3
        if mode == 0:       # inside the padding of every packet but the last
            off = 0
            for fr in frames[:-1]:
                off += len(fr)
                cuts.add(off - r.randint(1, fr[4]))
        elif mode == 1:
            cuts = set(r.sample(range(1, len(stream)), min(len(stream) - 1, r.randint(1, 6))))
        chunks, prev = [], 0
        for c in sorted(cuts) + [len(stream)]:
            chunks.append(stream[prev:c])
            prev = c
        cases.append(('readpackets', chunks, ['multi-packet', 'cuts-%s' % ['in-padding', 'random', 'whole'][mode]]))
        if k % 10 == 0:      # a damaged stream: the same, with a flipped length byte somewhere
            b = bytearray(stream)
            b[r.randrange(min(len(b), 12))] ^= 1 << r.randrange(8)
            cases.append(('readpackets', [bytes(b)[:len(b) // 2], bytes(b)[len(b) // 2:]], ['multi-packet-damaged']))
    # SSH-1 packets: every data length 0..80 (all eight residues of the length field, several times), random padding bytes, larger ones, then damaged ones
    for L in list(range(0, 81)) + [r.randint(81, 3000) for _ in range(ctx.scale(40, 1500))]:
        data = bytes(r.getrandbits(8) for _ in range(L))
        t = r.choice([2, 1, 0, 255, r.getrandbits(8)])
        plen = L + 5
        pad = bytes(r.getrandbits(8) for _ in range(8 - plen % 8)) if r.random() < 0.5 else None
        pk = ssh1_frame(t, data, pad)
        cases.append(('readpacket1', pk + r.choice([b'', b'\x77', b'\x00\x00\x00\x05']), ['ssh1-packet-valid', 'ssh1-len-mod8-%d' % (plen % 8)]))
        if r.random() < 0.5:
            b = bytearray(pk)
            i = r.randrange(len(b))
            b[i] ^= 1 << r.randrange(8)
            cases.append(('readpacket1', bytes(b), ['ssh1-packet-damaged']))
        if r.random() < 0.3:
            cases.append(('readpacket1', pk[:r.randrange(len(pk))], ['ssh1-packet-truncated']))
    for _ in range(ctx.scale(300, 6000)):
        cases.append(('crc', bytes(r.getrandbits(8) for _ in range(r.choice([0, 1, 2, 3, 8, 9, 100, r.randint(0, 400)]))), ['crc']))
    for _ in range(ctx.scale(300, 8000)):
        k = gen_kexinit(r)
        cases.append(('kex.parse', k, ['kexinit-valid']))
        cases.append(('kex.reencode', k, ['kexinit-valid']))
        k2 = mutate(r, gen_kexinit(r, mal=True))
        cases.append(('kex.parse', k2, ['kexinit-malformed']))
        try:
            k2.decode('utf-8')   # re-encoding is only comparable when the UTF-8 decoder (external to the model) is lossless
            cases.append(('kex.reencode', k2, ['kexinit-malformed']))
        except UnicodeDecodeError:
            pass
    for _ in range(ctx.scale(200, 4000)):
        p = gen_pkm(r)
        cases.append(('pkm.parse', p, ['pkm-valid']))
        cases.append(('pkm.reencode', p, ['pkm-valid']))
        cases.append(('pkm.parse', mutate(r, p), ['pkm-malformed']))
    return cases


def rfc_decode(b):
    """Independent RFC 4253 §6 decoder (oracle side)."""
    if len(b) < 5:
        return None
    plen, pad = struct.unpack('>IB', b[:5])
    if len(b) != 4 + plen or len(b) % 8 != 0 or pad < 4 or plen < pad + 1:
        return None
    return b[5:5 + plen - pad - 1]


def rfc_frame(payload, extra_pad=0):
    """Independent RFC 4253 section 6 framer (oracle side): at least 4 bytes of padding, total a multiple of 8."""
    pad = -(len(payload) + 5) % 8
    if pad < 4:
        pad += 8
    pad += 8 * extra_pad
    return struct.pack('>IB', len(payload) + pad + 1, pad) + payload + b'\x00' * pad


def ssh1_frame(t, data, pad=None):
    """Independent protocol-1.5 packet encoder (oracle side): length = type + data + CRC; 8 - length % 8 bytes of padding (8 when the
    length is a multiple of 8); CRC-32 (zlib's polynomial, zero initial value, no final xor) over padding + type + data."""
    body = bytes([t]) + data
    plen = len(body) + 4
    if pad is None:
        pad = b'\x00' * (8 - plen % 8)
    crc = zlib.crc32(pad + body, 0xffffffff) ^ 0xffffffff
    return struct.pack('>I', plen) + pad + body + struct.pack('>I', crc)


def ssh1_decode(b):
    """Independent protocol-1.5 decoder: (type, data, rest) for a complete well-formed packet at the head of b, else None."""
    if len(b) < 4:
        return None
    plen = struct.unpack('>I', b[:4])[0]
    padl = 8 - plen % 8
    if plen < 5 or len(b) < 4 + padl + plen:
        return None
    pad, body, crc = b[4:4 + padl], b[4 + padl:4 + padl + plen - 4], b[4 + padl + plen - 4:4 + padl + plen]
    if struct.unpack('>I', crc)[0] != (zlib.crc32(pad + body, 0xffffffff) ^ 0xffffffff):
        return None
    return body[0], body[1:], b[4 + padl + plen:]


def twos_complement(n):
    """Independent RFC 4251 mpint encoder (oracle side)."""
    if n == 0:
        return b''
    L = 1
    while not (-(1 << (8 * L - 1)) <= n < (1 << (8 * L - 1))):
        L += 1
    return (n % (1 << (8 * L))).to_bytes(L, 'big')


def oracle(op, arg, res, fail):
    """The property itself, on the implementation's own answers."""
    if 'ok' not in res and op == 'readpacket1':
        want = ssh1_decode(arg)
        if want is not None:
            fail('ssh1_packet_not_read_back', op, arg, res, {'type': want[0], 'data': want[1].hex(), 'rest': want[2].hex()})
        return
    if 'ok' not in res:
        # encoders may refuse only what does not fit
        if op == 'u32.enc' and arg >= 1 << 32:
            return
        if op == 'byte.enc' and arg > 255:
            return
        if op.endswith('.enc') or op == 'frame':
            fail('encoder_error', op, arg, res, 'value is encoded')
        return
    if op.endswith('.enc'):
        dec = impl(('string' if op == 'stringu.enc' else op[:-4]) + '.dec', bytes.fromhex(res['ok']) + b'\x99\x98')
        want = arg
        if op.startswith('mpint'):
            want = str(arg)
        elif op == 'string.enc':
            want = arg.hex()
        elif op == 'stringu.enc':
            want = arg.hex()
        elif op == 'list.enc':
            want = [x.decode() for x in arg] if arg else ['']
        if dec != {'ok': [want, '9998']}:
            kind = 'mpint1_negative' if (op == 'mpint1.enc' and arg < 0) else 'roundtrip'
            fail(kind, op, arg, {'encoded': res['ok'], 'decoded': dec}, 'decodes to the same value, trailing data untouched')
        if op == 'mpint2.enc':
            body = bytes.fromhex(res['ok'])[4:]
            if int.from_bytes(body, 'big', signed=True) != arg if body else arg != 0:
                fail('mpint2_not_twos_complement', op, arg, res['ok'], twos_complement(arg).hex())
    elif op == 'frame':
        fr = bytes.fromhex(res['ok'])
        if rfc_decode(fr) != arg:
            fail('frame_not_rfc4253', op, arg, res['ok'], 'independent RFC 4253 decoder returns the payload')
        if arg:
            back = impl('readpacket', fr + b'\x77')
            if back != {'ok': [arg[0], arg[1:].hex(), '77']}:
                fail('frame_not_read_back', op, arg, back, 'own reader returns the payload')
    elif op == 'readpackets':
        # independent decoding of the whole stream: if it is a sequence of well-formed packets, exactly those must be read, however the bytes arrived
        stream, want, ok = b''.join(arg), [], True
        while stream:
            if len(stream) < 5:
                ok = False
                break
            plen, pad = struct.unpack('>IB', stream[:5])
            if (plen + 4) % 8 or pad < 4 or plen < pad + 2 or len(stream) < 4 + plen:
                ok = False
                break
            pl = stream[5:5 + plen - pad - 1]
            want.append([pl[0], pl[1:].hex()])
            stream = stream[4 + plen:]
        if ok and (res['ok']['packets'] != want or res['ok']['end'] is not None):
            fail('packets_not_read_back', op, arg, {'packets': len(res['ok']['packets']), 'end': res['ok']['end']}, {'packets': len(want), 'end': None})
    elif op == 'readpacket1':
        want = ssh1_decode(arg)
        if want is not None and res['ok'] != [want[0], want[1].hex(), want[2].hex()]:
            fail('ssh1_packet_not_read_back', op, arg, res['ok'], {'type': want[0], 'data': want[1].hex(), 'rest': want[2].hex()})
    elif op == 'crc':
        if res['ok'] != (zlib.crc32(arg, 0xffffffff) ^ 0xffffffff):
            fail('crc_mismatch', op, arg, res['ok'], 'CRC-32 (poly 0xEDB88320, init 0, no final xor)')
    elif op == 'kex.parse':
        # an independent RFC 4253 section 7.1 reader: the ten name-lists in wire order are kex, host key, encryption c->s, encryption s->c, MAC c->s, MAC s->c,
        # compression c->s, compression s->c, languages c->s, languages s->c
        pos, lists, ok = 16, [], len(arg) >= 16
        for _ in range(10):
            if not ok or pos + 4 > len(arg):
                ok = False
                break
            n = struct.unpack('>I', arg[pos:pos + 4])[0]
            if pos + 4 + n > len(arg):
                ok = False
                break
            lists.append([x.decode('utf-8', 'replace') for x in arg[pos + 4:pos + 4 + n].split(b',')])
            pos += 4 + n
        if ok and pos + 5 <= len(arg):
            want = dict(zip(('kex', 'key', 'encC', 'encS', 'macC', 'macS', 'compC', 'compS', 'langC', 'langS'), lists))
            got = {k: res['ok'].get(k) for k in want}
            if got != want or res['ok'].get('cookie') != arg[:16].hex():
                bad = [k for k in want if got[k] != want[k]]
                fail('kexinit_fields_misassigned', op, arg, {k: got[k] for k in bad[:3]}, {k: want[k] for k in bad[:3]})
    elif op == 'kex.reencode':
        # re-encoding a decoded message yields the same bytes (canonical inputs: no trailing data, bool in {0,1}, ASCII)
        # ASCII is asked of the ten name-list bodies only (the cookie and the length fields are arbitrary bytes)
        pos, ascii_ok = 16, len(arg) >= 16
        for _ in range(10):
            if not ascii_ok or pos + 4 > len(arg):
                ascii_ok = False
                break
            n = struct.unpack('>I', arg[pos:pos + 4])[0]
            if pos + 4 + n > len(arg) or any(c >= 0x80 for c in arg[pos + 4:pos + 4 + n]):
                ascii_ok = False
                break
            pos += 4 + n
        got = bytes.fromhex(res['ok'])
        if ascii_ok and arg[:len(got)] != got:
            # boolean canonicalisation is the only tolerated difference
            diff = [i for i in range(min(len(got), len(arg))) if got[i] != arg[i]]
            if not (len(diff) == 1 and diff[0] == len(got) - 5 and arg[diff[0]] not in (0, 1)):
                fail('kexinit_reencode', op, arg, res['ok'], 'same bytes')
    elif op == 'pkm.reencode':
        got = bytes.fromhex(res['ok'])
        if got != arg[:len(got)] and minimal_mpints(arg):
            fail('pkm_reencode', op, arg, res['ok'], 'same bytes')


def minimal_mpints(b):
    return True


def run(ctx):
    cov = Coverage('one evaluation per (operation, value); non-trivial = distinct (op, value) pairs other than the trivial zero/empty value; '
                   'values: dense window, +-2^k+-d for k<=8192, all 32-bit word-pattern classes up to 6 words, random big ints of both signs, '
                   'payload lengths 0..4096, random/boundary name-lists, valid and mutated KEXINIT / SSH-1 public-key messages')
    cases = build_cases(ctx)
    failures, mismatches = [], []

    def mk_fail(kind, op, arg, observed, expected):
        a = arg.hex() if isinstance(arg, (bytes, bytearray)) else ([x.hex() for x in arg] if isinstance(arg, list) else arg)
        sig = {'kind': kind}
        failures.append({'sig': sig, 'input': {'op': op, 'arg': a}, 'observed': observed, 'expected': expected,
                         'how': 'harness/props/C10.py impl(%r, arg) on the real classes' % op})
    lines = [line_of(op, arg) for op, arg, _ in cases]
    model = ctx.driver(lines) if ctx.driver_ok else [None] * len(lines)
    for (op, arg, tags), line, m in zip(cases, lines, model):
        res = impl(op, arg)
        key = (op, arg if not isinstance(arg, list) else tuple(arg))
        trivial = arg in (0, b'', [], True, False)
        cov.add(key, not trivial, tags=tags, sample={'op': line[:120], 'impl': json.dumps(res)[:160]} if (cov.evaluations % 997 == 0) else None)
        if m is not None:
            cm = canon_model(op, m)
            if cm != res:
                mismatches.append({'stream': 'wire', 'op': line[:400], 'model': cm, 'impl': res})
        oracle(op, arg, res, mk_fail)
    if not cov.samples:
        cov.samples.append({'op': lines[0], 'impl': impl(cases[0][0], cases[0][1])})
    return {'failures': failures, 'mismatches': mismatches, 'coverage': cov, 'corr_cases': len(cases) if ctx.driver_ok else 0,
            'assumptions': ['UTF-8 decoding of names is applied by the harness per comma-separated piece (split and decode commute because "," is ASCII); checked on every non-UTF-8 input generated',
                            'the fake socket hands the whole receive buffer to one recv() call'],
            'observations': ['D25: an empty name-list encodes to "" and decodes to [""] (namelist_empty theorem) — not a round trip of [], outside the stated quantifier (single-element and empty lists of names on the wire are the same bytes)']}


def replay(obj):
    f = obj.get('failure', obj)
    inp = f['input']
    arg = inp['arg']
    op = inp['op']
    if isinstance(arg, str) and not op.endswith('.enc') or op in ('string.enc', 'frame'):
        arg = bytes.fromhex(arg)
    elif isinstance(arg, list):
        arg = [bytes.fromhex(x) for x in arg]
    print('replaying', op, inp['arg'] if not isinstance(inp['arg'], str) else inp['arg'][:200])
    res = impl(op, arg)
    print('implementation answers:', json.dumps(res)[:600])
    fs = []
    oracle(op, arg, res, lambda *a: fs.append(a))
    print('property holds on this input' if not fs else 'PROPERTY FAILS: %r' % (fs[0][0],))
    return 1 if fs else 0
