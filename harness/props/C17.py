"""C17 — The tool's knowledge tables agree with each other.

Theorems: `decide +kernel` over the regenerated tables (SshAudit.Props.C17).
Tie: translator (tables regenerated each run) + dump-tables round trip.
Search oracle: the same predicates evaluated on the live Python tables, naming the entry,
plus one real `output()` run per built-in policy's synthesised peer (no failure, exit != 3).
"""
import re
from common import Coverage

ID = 'C17'
MODULE = 'SshAudit.Props.C17'
NAMESPACE = 'SshAudit.C17'
THEOREMS = ['policy_names_known', 'policy_names_not_failing', 'policy_sizes_clean', 'hostkey_types_known',
            'probe_tables_known', 'dheat_names_known', 'dheat_tables_consistent', 'broken_primitive_failed₂',
            'entry_shape₂', 'entry_shape₁', 'categories₂', 'categories₁',
            'broken_primitive_failed₁_false', 'broken_primitive_failed₁_partial', 'builtin_peer_no_fail', 'builtin_peer_all_known']

TOKENS = 'md5 sha1 arcfour rc4 des none dss group1- 1024 nistp nistk nistb nistt ripemd blowfish cast idea seed serpent rijndael gost null'.split()


def mentions_broken(name):
    l = name.lower()
    return any(t in l for t in TOKENS) or re.search(r'(?<!ec)dsa', l) is not None


def fails_of(desc):
    return [x for x in desc[1] if x is not None] if len(desc) > 1 else []


def run(ctx):
    from ssh_audit.ssh2_kexdb import SSH2_KexDB
    from ssh_audit.ssh1_kexdb import SSH1_KexDB
    from ssh_audit.builtin_policies import BUILTIN_POLICIES
    from ssh_audit.hostkeytest import HostKeyTest
    from ssh_audit.dheat import DHEat
    cov = Coverage('every table entry is one evaluation per predicate that applies to it; non-trivial = the predicate\'s premise holds for the entry (e.g. name mentions a broken primitive, policy names an algorithm)')
    failures = []
    db2, db1 = SSH2_KexDB.MASTER_DB, SSH1_KexDB.MASTER_DB

    def fail(kind, where, name, observed, expected):
        failures.append({'sig': {'kind': kind, 'where': where, 'name': name},
                         'input': {'table': where, 'entry': name}, 'observed': observed, 'expected': expected})

    # policies
    for pname, p in BUILTIN_POLICIES.items():
        for field, cat in (('kex', 'kex'), ('host_keys', 'key'), ('optional_host_keys', 'key'), ('ciphers', 'enc'), ('macs', 'mac')):
            for a in (p[field] or []):
                cov.add(('pol', pname, field, a), True, tags=['policy-name'])
                if a not in db2[cat]:
                    fail('policy_name_unknown', pname + '/' + field, a, 'not a key of SSH2 MASTER_DB[%s]' % cat, 'known to the database')
                elif fails_of(db2[cat][a]):
                    fail('policy_name_failing', pname + '/' + field, a, 'rated fail: %r' % fails_of(db2[cat][a]), 'no failure')
        for a, v in (p['hostkey_sizes'] or {}).items():
            cov.add(('polsz', pname, a), True, tags=['policy-size'])
            if a not in db2['key']:
                fail('policy_name_unknown', pname + '/hostkey_sizes', a, 'not a key of SSH2 MASTER_DB[key]', 'known')
            ed = a.startswith('ssh-ed25519') or a.startswith('sk-ssh-ed25519')
            if v['hostkey_size'] < (256 if ed else 3072):
                fail('policy_size_small', pname + '/hostkey_sizes', a, v['hostkey_size'], '>= %d' % (256 if ed else 3072))
            if v.get('ca_key_size', 0) and v['ca_key_size'] < (256 if v.get('ca_key_type', '').startswith('ssh-ed25519') else 3072):
                fail('policy_size_small', pname + '/hostkey_sizes(ca)', a, v['ca_key_size'], 'at/above the no-note threshold')
        for a, v in (p['dh_modulus_sizes'] or {}).items():
            cov.add(('poldh', pname, a), True, tags=['policy-size'])
            if a not in db2['kex']:
                fail('policy_name_unknown', pname + '/dh_modulus_sizes', a, 'not a key of SSH2 MASTER_DB[kex]', 'known')
            if v < 3072:
                fail('policy_size_small', pname + '/dh_modulus_sizes', a, v, '>= 3072')
    # probe tables
    for a in HostKeyTest.HOST_KEY_TYPES:
        cov.add(('hkt', a), True, tags=['probe-table'])
        if a not in db2['key']:
            fail('probe_name_unknown', 'HOST_KEY_TYPES', a, 'not in MASTER_DB[key]', 'known')
    for a in HostKeyTest.RSA_FAMILY:
        cov.add(('rsa', a), True, tags=['probe-table'])
        if a not in db2['key']:
            fail('probe_name_unknown', 'RSA_FAMILY', a, 'not in MASTER_DB[key]', 'known')
    for where, lst in (('DHEat.gex_algs', DHEat.gex_algs), ('DHEat.alg_priority', DHEat.alg_priority),
                       ('DHEat.tested_algs', DHEat.tested_algs), ('DHEat.alg_modulus_sizes', list(DHEat.alg_modulus_sizes))):
        for a in lst:
            cov.add((where, a), True, tags=['dheat-table'])
            if a not in db2['kex']:
                fail('dheat_name_unknown', where, a, 'not in MASTER_DB[kex]', 'known')
    for a in set(DHEat.alg_priority) ^ set(DHEat.alg_modulus_sizes):
        fail('dheat_tables_inconsistent', 'alg_priority/alg_modulus_sizes', a, 'in one table only', 'same key set')
    # database entries
    for where, db in (('SSH2', db2), ('SSH1', db1)):
        for cat, ents in db.items():
            for n, desc in ents.items():
                mb = mentions_broken(n)
                cov.add((where, cat, n), mb, tags=['db-entry', 'db-broken-primitive'] if mb else ['db-entry'],
                        sample={'db': where, 'cat': cat, 'name': n, 'desc': desc} if mb else None)
                if mb and not fails_of(desc):
                    fail('broken_not_failed', where + '/' + cat, n, 'no failure note', 'at least one failure')
                if not (1 <= len(desc) <= 4) or any(t is None for l in desc[1:] for t in l):
                    fail('entry_shape', where + '/' + cat, n, desc, '1-4 lists, no None among notes')
    # the tables must still be what they were at import after real scans have run (scans edit only per-thread copies)
    try:
        runtime_table_integrity(cov, fail)
    except Exception as e:
        failures.append({'sig': {'kind': 'runtime_integrity_scenario_crashed', 'where': 'fakenet audit', 'name': type(e).__name__},
                         'input': {}, 'observed': repr(e), 'expected': 'scenario runs'})
    # a standard audit of each policy's peer, on the real output()
    corr = 0
    try:
        corr = audit_policy_peers(cov, fail)
        corr += audit_policy_peers_e2e(cov, fail)[0]
    except Exception as e:  # the glue moved: not a verdict, but the proof tie is then weaker
        failures.append({'sig': {'kind': 'audit_of_policy_peer_crashed', 'where': 'output()', 'name': type(e).__name__},
                         'input': {}, 'observed': repr(e), 'expected': 'output() runs'})
    return {'failures': failures, 'mismatches': [], 'coverage': cov, 'corr_cases': corr, 'exhaustive': True,
            'assumptions': ['tables are module/class-level literals read after import; code that edits them later at run time is outside C17'],
            'observations': []}


def runtime_table_integrity(cov, fail):
    """Runs audits that exercise every channel through which a scan edits rating state (small RSA host key, small GEX modulus,
    OpenSSH 2048 fallback, Terrapin marks, JSON notes) and then requires MASTER_DB (both protocols) to equal its import-time value,
    in this thread and as seen by a fresh thread."""
    import copy
    import threading
    import fakenet as fn
    from ssh_audit.ssh2_kexdb import SSH2_KexDB
    from ssh_audit.ssh1_kexdb import SSH1_KexDB
    snap2, snap1 = copy.deepcopy(SSH2_KexDB.MASTER_DB), copy.deepcopy(SSH1_KexDB.MASTER_DB)
    from ssh_audit.builtin_policies import BUILTIN_POLICIES
    from ssh_audit.hostkeytest import HostKeyTest
    from ssh_audit.dheat import DHEat
    other_tables = {'BUILTIN_POLICIES': BUILTIN_POLICIES, 'HOST_KEY_TYPES': HostKeyTest.HOST_KEY_TYPES, 'RSA_FAMILY': HostKeyTest.RSA_FAMILY, 'DHEat.alg_priority': DHEat.alg_priority,
                    'DHEat.gex_algs': DHEat.gex_algs, 'DHEat.alg_modulus_sizes': DHEat.alg_modulus_sizes}
    snap_other = copy.deepcopy(other_tables)
    # policy scans with built-in policies against targets that add unlisted pseudo-algorithms / drift: evaluating a policy must not write into the policy table
    for pname in [n for n in BUILTIN_POLICIES if BUILTIN_POLICIES[n]['server_policy']][-3:]:
        pl = copy.deepcopy(BUILTIN_POLICIES[pname])
        pl['kex'] = list(pl['kex'] or []) + ['kex-strict-s-v01@openssh.com', 'ext-info-s', 'zz-new-kex@example.org']
        pl['macs'] = ['hmac-sha1'] + list(pl['macs'] or [])
        for extra in ([], ['-j']):
            fn.run_main(['-n', '--skip-rate-test', '-P', pname] + extra + ['10.3.3.5'], fn.FakeNet({'10.3.3.5': policy_server(pl)}), fresh=False)
            cov.add(('runtime-policy-tables', pname, tuple(extra)), True, tags=['runtime-integrity'])
    srv = fn.simple_server(kex=('diffie-hellman-group-exchange-sha256', 'diffie-hellman-group-exchange-sha1', 'curve25519-sha256'),
                           key=('rsa-sha2-512', 'ssh-rsa', 'ssh-ed25519'), enc=('chacha20-poly1305@openssh.com', 'aes128-cbc'),
                           mac=('hmac-sha2-256-etm@openssh.com', 'hmac-sha1'), banner=b'SSH-2.0-OpenSSH_8.0',
                           hostkeys={'rsa-sha2-512': fn.rsa_blob(1024), 'ssh-rsa': fn.rsa_blob(1024), 'ssh-ed25519': fn.ed25519_blob()},
                           gex=lambda mn, pf, mx: 1024 if mx < 2048 else 2048)
    # servers presenting broken-primitive host keys of unusual sizes (DSA with a 2048 / 3072-bit modulus, 4096-bit ssh-rsa): whatever a scan adds to the
    # entries it rates, an entry the database brands as broken must still carry a failure in the copy the report reads, and the report must show it
    odd = [fn.simple_server(kex=('curve25519-sha256', 'diffie-hellman-group1-sha1'), key=('ssh-dss', 'ssh-rsa', 'ssh-ed25519'), enc=('aes256-ctr', '3des-cbc', 'arcfour'),
                            mac=('hmac-sha2-256', 'hmac-md5', 'hmac-sha1'), hostkeys={'ssh-dss': fn.dss_blob(b), 'ssh-rsa': fn.rsa_blob(4096), 'ssh-ed25519': fn.ed25519_blob()})
           for b in (1024, 2048, 3072)]
    # … and servers that still offer the SHA-1 group exchange and answer the modulus probes with groups of every class (seed C17-12: a measured
    # modulus of 2048 bits or more replaced the entry's failure list by an empty one): whatever size is measured, the SHA-1 finding stays
    def gex_of(b):
        return lambda mn, pf, mx: b if mn <= b <= mx else (None if mx < b else b)
    for b in (1024, 1536, 2048, 3072, 4096, 8192):
        for ban in (b'SSH-2.0-OpenSSH_7.4', b'SSH-2.0-dropbear_2019.78'):
            odd.append(fn.simple_server(kex=('diffie-hellman-group-exchange-sha256', 'diffie-hellman-group-exchange-sha1', 'curve25519-sha256'), key=('ssh-ed25519',),
                                        enc=('aes256-ctr',), mac=('hmac-sha2-256',), banner=ban, hostkeys={'ssh-ed25519': fn.ed25519_blob()}, gex=gex_of(b)))
    for k, osrv in enumerate(odd):
        SSH2_KexDB.thread_exit()
        code, out = fn.run_main(['-n', '--skip-rate-test', '10.3.3.4'], fn.FakeNet({'10.3.3.4': osrv}), fresh=False)
        cov.add(('runtime-broken-primitives', k), True, tags=['runtime-integrity'])
        live = SSH2_KexDB.get_db()
        for c, ents in live.items():
            for n, desc in ents.items():
                if mentions_broken(n) and fails_of(snap2[c][n]) and not fails_of(desc):
                    fail('broken_primitive_loses_failure_at_runtime', 'per-thread database after an audit', '%s/%s' % (c, n), desc, 'still carries a failure: %r' % fails_of(snap2[c][n]))
        for line in out.split('\n'):
            if line.startswith(('(kex) ', '(key) ', '(enc) ', '(mac) ')) and '-- [' in line:
                c, n = line[1:4], line[6:].split(' ')[0]
                if n in snap2.get(c, {}) and mentions_broken(n) and fails_of(snap2[c][n]) and '[fail]' not in line:
                    fail('broken_primitive_loses_failure_at_runtime', 'report line', '%s/%s' % (c, n), line.strip(), 'a [fail] finding')
        SSH2_KexDB.thread_exit()
    for args in (['-n', '--skip-rate-test'], ['-n', '--skip-rate-test', '-j']):
        fn.run_main(args + ['10.3.3.3'], fn.FakeNet({'10.3.3.3': srv}), fresh=False)
        cov.add(('runtime-integrity', tuple(args)), True, tags=['runtime-integrity'])
    seen = {}

    def other():
        seen['db'] = copy.deepcopy(SSH2_KexDB.get_db())
        SSH2_KexDB.thread_exit()
    t = threading.Thread(target=other)
    t.start()
    t.join()
    for where, live, snap in (('SSH2 MASTER_DB', SSH2_KexDB.MASTER_DB, snap2), ('SSH1 MASTER_DB', SSH1_KexDB.MASTER_DB, snap1), ('get_db() in a fresh thread', seen.get('db'), snap2)):
        if live != snap:
            bad = [(c, n) for c in snap for n in snap[c] if live.get(c, {}).get(n) != snap[c][n]]
            c, n = bad[0] if bad else ('?', '?')
            fail('tables_changed_at_runtime', where, '%s/%s' % (c, n), live.get(c, {}).get(n) if isinstance(live, dict) else None, snap[c][n] if bad else 'unchanged tables')
    def relevant(name, table, ref):
        # loading a built-in policy fills in default CA fields / an empty raw key in its size records (in place, idempotent): not a change of what the table says
        if name != 'BUILTIN_POLICIES':
            return table
        out = {}
        for pn, pol in table.items():
            q = dict(pol)
            if isinstance(q.get('hostkey_sizes'), dict):
                q['hostkey_sizes'] = {k: {kk: vv for kk, vv in v.items() if kk in ref[pn]['hostkey_sizes'].get(k, {})} for k, v in q['hostkey_sizes'].items()}
            out[pn] = q
        return out
    # a standard audit WITH the connection-rate check, against a target advertising names the tables do not know (look-alikes of table entries included):
    # the denial-of-service tables are read, never extended
    odd_kex = ('curve25519-sha256', 'diffie-hellman-group-exchange-sha512@example.com', 'diffie-hellman-group-exchange-sha256', 'diffie-hellman-group99-sha512', 'ecdh-sha2-nistp999')
    rsrv = fn.simple_server(kex=odd_kex, key=('ssh-ed25519',), enc=('aes256-ctr',), mac=('hmac-sha2-256-etm@openssh.com',), gex=lambda a, b, c: 3072 if c >= 3072 else None)
    for extra in ([], ['-j']):
        fn.run_main(['-n'] + extra + ['10.3.3.6'], fn.FakeNet({'10.3.3.6': rsrv}), fresh=False)
        cov.add(('runtime-dheat-tables', tuple(extra)), True, tags=['runtime-integrity'])
    for name, live_t in other_tables.items():
        if relevant(name, live_t, snap_other[name]) != snap_other[name]:
            keys = [k for k in snap_other[name] if isinstance(snap_other[name], dict) and live_t.get(k) != snap_other[name][k]]
            fail('tables_changed_at_runtime', name, str(keys[0]) if keys else name, str(live_t.get(keys[0]) if keys else live_t)[:300], 'unchanged tables')
            if isinstance(live_t, dict):
                live_t.clear()
                live_t.update(snap_other[name])
            else:
                live_t[:] = snap_other[name]
    fn.reset_dbs()
    # restore the tables so that the remaining checks see the import-time values even if the property is violated
    if SSH2_KexDB.MASTER_DB != snap2:
        SSH2_KexDB.MASTER_DB.clear()
        SSH2_KexDB.MASTER_DB.update(snap2)


def audit_policy_peers(cov, fail):
    from ssh_audit.builtin_policies import BUILTIN_POLICIES
    from ssh_audit.ssh2_kex import SSH2_Kex
    from ssh_audit.ssh2_kexparty import SSH2_KexParty
    from ssh_audit.ssh2_kexdb import SSH2_KexDB
    from ssh_audit.outputbuffer import OutputBuffer
    from ssh_audit.auditconf import AuditConf
    from ssh_audit import ssh_audit as sa
    n = 0
    for pname, p in BUILTIN_POLICIES.items():
        SSH2_KexDB.thread_exit()
        out = OutputBuffer()
        out.use_colors = False
        party = SSH2_KexParty(p['ciphers'] or [], p['macs'] or [], ['none'], [''])
        kex = SSH2_Kex(out, b'\0' * 16, p['kex'] or [], (p['host_keys'] or []), party, party, False, 0)
        aconf = AuditConf('h', 22)
        client = None if p['server_policy'] else '1.2.3.4'
        ret = sa.output(out, aconf, None, [], client_host=client, kex=kex)
        text = out.get_buffer()
        n += 1
        cov.add(('audit', pname), True, tags=['policy-peer-audit'])
        if ret == 3 or '[fail]' in text:
            bad = [l for l in text.split('\n') if '[fail]' in l]
            fail('policy_peer_fails_audit', pname, bad[0] if bad else '?', 'exit %d' % ret, 'no failure-level finding')
    SSH2_KexDB.thread_exit()
    return n


def policy_server(p):
    """a scripted target configured exactly per a built-in server policy: its lists, host keys / certificates of the listed sizes signed by CAs of the listed type and size, its moduli"""
    import fakenet as fn

    def ca_blob(t, bits):
        return fn.ed25519_blob() if t.startswith('ssh-ed25519') else fn.rsa_blob(bits)
    hostkeys = {}
    sizes = p['hostkey_sizes'] or {}
    for t in (p['host_keys'] or []) + (p['optional_host_keys'] or []):
        v = sizes.get(t, {})
        bits = v.get('hostkey_size', 4096)
        if '-cert-' in t:
            ca = ca_blob(v.get('ca_key_type', 'ssh-ed25519'), v.get('ca_key_size', 256))
            if 'ed25519' in t:
                hostkeys[t] = fn.cert_blob('ssh-ed25519-cert-v01@openssh.com', fn.sstr(b'\x42' * 32), ca)
            else:
                hostkeys[t] = fn.cert_blob('ssh-rsa-cert-v01@openssh.com', fn.mpint(65537) + fn.mpint((1 << (bits - 1)) | 1), ca)
        elif 'ed25519' in t:
            hostkeys[t] = fn.ed25519_blob()
        else:
            hostkeys[t] = fn.rsa_blob(bits)
    dh = p['dh_modulus_sizes'] or {}
    size = max(dh.values()) if dh else 4096
    banner = (p['banner'] or 'SSH-2.0-OpenSSH_9.9').encode()
    return fn.simple_server(kex=tuple(p['kex'] or []), key=tuple((p['host_keys'] or []) + (p['optional_host_keys'] or [])), enc=tuple(p['ciphers'] or []), mac=tuple(p['macs'] or []),
                            banner=banner, hostkeys=hostkeys, gex=lambda mn, pf, mx: size if mn <= size <= mx else (None if mx < size else size))


def audit_policy_peers_e2e(cov, fail, only=None):
    """the whole audit (handshake, host-key and group-exchange probes, report) of the target each built-in server policy describes: no failure-level finding"""
    import fakenet as fn
    from ssh_audit.builtin_policies import BUILTIN_POLICIES
    n = 0
    bad = 0
    for pname, p in BUILTIN_POLICIES.items():
        if not p['server_policy'] or (only is not None and pname != only):
            continue
        srv = policy_server(p)
        code, out = fn.run_main(['-n', '--skip-rate-test', '10.17.0.1'], fn.FakeNet({'10.17.0.1': srv}))
        n += 1
        cov.add(('audit-e2e', pname), True, tags=['policy-peer-audit-e2e'])
        fl = [l for l in out.split('\n') if '[fail]' in l]
        probed = len(srv.log) > 1
        if code == 3 or fl or code not in (0, 2) or not probed:
            bad += 1
            fail('policy_peer_fails_full_audit', pname, fl[0].strip() if fl else 'exit %s' % code, {'exit': code, 'fail_lines': fl[:4], 'connections': len(srv.log)}, 'no failure-level finding (exit 0 or 2)')
    # … and the same peers when one host-key probe connection is dropped just when its reply is due (a reset by the network, MaxStartups):
    # a key that could not be read is not a failure of the configuration (seed C17-11: "0-bit modulus")
    seen = set()
    for pname, p in BUILTIN_POLICIES.items():
        if not p['server_policy'] or (only is not None and pname != only):
            continue
        keyset = tuple((p['host_keys'] or []) + (p['optional_host_keys'] or []))
        if keyset in seen and only is None:
            continue
        seen.add(keyset)
        for victim in keyset:
            srv = policy_server(p)
            srv.hostkeys = dict(srv.hostkeys)
            srv.hostkeys[victim] = ('close',)
            code, out = fn.run_main(['-n', '--skip-rate-test', '10.17.0.1'], fn.FakeNet({'10.17.0.1': srv}))
            n += 1
            cov.add(('audit-e2e-dropped-probe', pname, victim), True, tags=['policy-peer-audit-dropped-probe'])
            fl = [l for l in out.split('\n') if '[fail]' in l]
            if code == 3 or fl or code not in (0, 2):
                bad += 1
                fail('policy_peer_fails_full_audit', pname, fl[0].strip() if fl else 'exit %s' % code,
                     {'exit': code, 'fail_lines': fl[:4], 'probe_connection_dropped_for': victim}, 'no failure-level finding (exit 0 or 2)')
    fn.reset_dbs()
    return n, bad


def replay(obj):
    import json
    f = obj.get('failure', obj)
    print(json.dumps(f, indent=1)[:1500])
    if f.get('sig', {}).get('kind') == 'policy_peer_fails_full_audit':
        res = []
        n, bad = audit_policy_peers_e2e(Coverage('replay'), lambda *a: res.append(a), only=f['sig']['where'])
        print('policy %r: %s' % (f['sig']['where'], 'a failure-level finding is reported: %r' % (res[0][3],) if bad else 'no failure-level finding'))
        return 1 if bad else 0
    import sys
    from common import rerun_for_signature
    return rerun_for_signature(sys.modules[__name__], f)

TECHNIQUE = 'Lean 4 kernel proof (decide +kernel) over tables regenerated from the source by a translator on every run'
LEVEL_TEXT = ('Every clause is a finite statement about the rating databases, built-in policies and probe/attack tables; the translator '
              'regenerates those tables as Lean literals from the live modules on every run and the Lean kernel re-proves each clause over '
              'every entry (no sampling), so a table edit that breaks a clause breaks a proof; the same predicates evaluated on the live '
              'Python tables name the offending entry as the replay.')
LEVEL_NOTE = ('Trusted: Lean kernel; translate.py (validated by the dump-tables round trip each run); Python import machinery. The '
              'clause "a peer configured per a built-in policy shows no failure" is proved at table level (no failing name, sizes at/above '
              'thresholds) and exercised on the real output() for all 47 policies. D22 (SSH-1 3des/blowfish/idea not failed) is a recorded known finding; its negation is a theorem.')
