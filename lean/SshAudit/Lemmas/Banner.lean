/-
  Helper lemmas for C16 (Model/Banner).
-/
import SshAudit.Model.Banner
namespace SshAudit.Banner

/-! ### generic list facts -/

theorem takeWhile_append_all {α} (p : α → Bool) (m rem : List α) (hm : ∀ x ∈ m, p x = true) :
    (m ++ rem).takeWhile p = m ++ rem.takeWhile p := by
  induction m with
  | nil => rfl
  | cons a m ih =>
    have ha : p a = true := hm a (by simp)
    simp only [List.cons_append, List.takeWhile_cons, ha, if_true]
    rw [ih (fun x hx => hm x (by simp [hx]))]

theorem dropWhile_append_all {α} (p : α → Bool) (m rem : List α) (hm : ∀ x ∈ m, p x = true) :
    (m ++ rem).dropWhile p = rem.dropWhile p := by
  induction m with
  | nil => rfl
  | cons a m ih =>
    have ha : p a = true := hm a (by simp)
    simp only [List.cons_append, List.dropWhile_cons, ha, if_true]
    exact ih (fun x hx => hm x (by simp [hx]))

theorem mem_of_mem_dropWhile {α} (p : α → Bool) (l : List α) (x : α) (h : x ∈ l.dropWhile p) : x ∈ l :=
  (List.dropWhile_sublist p).subset h

theorem mem_of_mem_takeWhile {α} (p : α → Bool) (l : List α) (x : α) (h : x ∈ l.takeWhile p) : x ∈ l :=
  (List.takeWhile_sublist p).subset h

theorem takeWhile_all {α} (p : α → Bool) (l : List α) : ∀ x ∈ l.takeWhile p, p x = true := by
  induction l with
  | nil => simp
  | cons a l ih =>
    intro x hx
    rw [List.takeWhile_cons] at hx
    split at hx
    · rcases List.mem_cons.mp hx with h | h
      · subst h; assumption
      · exact ih x h
    · simp at hx

theorem dropWhile_head {α} (p : α → Bool) (l : List α) : ∀ a r, l.dropWhile p = a :: r → p a = false := by
  induction l with
  | nil => simp
  | cons b l ih =>
    intro a r h
    rw [List.dropWhile_cons] at h
    split at h
    · exact ih a r h
    · next hb =>
      injection h with h1 h2
      subst h1
      simpa using hb

theorem dropWhile_id_of_head {α} (p : α → Bool) (l : List α) (h : ∀ a r, l = a :: r → p a = false) : l.dropWhile p = l := by
  cases l with
  | nil => rfl
  | cons a r => simp [h a r rfl]

/-! ### sanitising -/

/-- what `to_print_ascii` does to one character -/
def san (c : Char) : Char := if isPrint c then c else '?'

theorem toPrint_eq_map (s : Str) : toPrintAscii s = s.map san := by
  induction s with
  | nil => rfl
  | cons c s ih =>
    unfold toPrintAscii toAsciiBy at *
    simp only [List.filterMap_cons, List.map_cons]
    by_cases h : isPrintCode c.toNat = true
    · simp [filterChar, h, san, isPrint, ih]
    · simp [filterChar, h, san, isPrint, ih]

theorem isPrintAscii_eq_all (s : Str) : isPrintAscii s = s.all isPrint := rfl

theorem isPrint_san (c : Char) : isPrint (san c) = true := by
  unfold san
  split
  · assumption
  · decide

theorem san_of_print (c : Char) (h : isPrint c = true) : san c = c := by simp [san, h]

theorem toPrint_append (a b : Str) : toPrintAscii (a ++ b) = toPrintAscii a ++ toPrintAscii b := by
  simp [toPrint_eq_map]

theorem toPrint_cons (c : Char) (s : Str) : toPrintAscii (c :: s) = san c :: toPrintAscii s := by
  simp [toPrint_eq_map]

theorem isPrintAscii_append (a b : Str) : isPrintAscii (a ++ b) = (isPrintAscii a && isPrintAscii b) := by
  simp [isPrintAscii_eq_all]

theorem isPrintAscii_cons (c : Char) (s : Str) : isPrintAscii (c :: s) = (isPrint c && isPrintAscii s) := by
  simp [isPrintAscii_eq_all]

theorem toPrint_of_print (s : Str) (h : isPrintAscii s = true) : toPrintAscii s = s := by
  rw [toPrint_eq_map]
  rw [isPrintAscii_eq_all, List.all_eq_true] at h
  induction s with
  | nil => rfl
  | cons c s ih =>
    simp only [List.map_cons]
    rw [san_of_print c (h c (by simp)), ih (fun x hx => h x (by simp [hx]))]

theorem isPrintAscii_toPrint (s : Str) : isPrintAscii (toPrintAscii s) = true := by
  rw [toPrint_eq_map, isPrintAscii_eq_all, List.all_eq_true]
  intro x hx
  obtain ⟨c, _, rfl⟩ := List.mem_map.mp hx
  exact isPrint_san c

theorem toPrint_idem (s : Str) : toPrintAscii (toPrintAscii s) = toPrintAscii s :=
  toPrint_of_print _ (isPrintAscii_toPrint s)

theorem isDigit_isPrint (c : Char) (h : c.isDigit = true) : isPrint c = true := by
  simp only [Char.isDigit, Bool.and_eq_true, decide_eq_true_eq] at h
  have h1 : 48 ≤ c.toNat := by
    have := h.1; exact UInt32.le_iff_toNat_le.mp this
  have h2 : c.toNat ≤ 57 := by
    have := h.2; exact UInt32.le_iff_toNat_le.mp this
  simp only [isPrint, isPrintCode, Bool.and_eq_true, decide_eq_true_eq]
  omega

theorem isDigit_toNat (c : Char) (h : c.isDigit = true) : 48 ≤ c.toNat ∧ c.toNat ≤ 57 := by
  simp only [Char.isDigit, Bool.and_eq_true, decide_eq_true_eq] at h
  exact ⟨UInt32.le_iff_toNat_le.mp h.1, UInt32.le_iff_toNat_le.mp h.2⟩

theorem digits_print (m : Str) (h : ∀ x ∈ m, x.isDigit = true) : isPrintAscii m = true := by
  rw [isPrintAscii_eq_all, List.all_eq_true]
  exact fun x hx => isDigit_isPrint x (h x hx)


/-! ### the recogniser -/

/-- the text `SSH-` -/
@[reducible] def sshDash : Str := ['S', 'S', 'H', '-']

def WfPair (p : Pair) : Prop := p.1.isDigit = true ∧ p.2 ≠ [] ∧ ∀ x ∈ p.2, x.isDigit = true

/-- the text of one `SSH-d.m` item -/
def protoStr (p : Pair) : Str := 'S' :: 'S' :: 'H' :: '-' :: p.1 :: '.' :: p.2

theorem okRem_cases (rem : Str) (h : okRem rem = true) : rem = [] ∨ ∃ r, rem = '-' :: r := by
  cases rem with
  | nil => exact Or.inl rfl
  | cons c r =>
    right
    simp only [okRem, beq_iff_eq] at h
    exact ⟨r, by rw [h]⟩

theorem okRem_no_digit (rem : Str) (h : okRem rem = true) :
    rem.takeWhile Char.isDigit = [] ∧ rem.dropWhile Char.isDigit = rem := by
  rcases okRem_cases rem h with rfl | ⟨r, rfl⟩
  · exact ⟨rfl, rfl⟩
  · have : Char.isDigit '-' = false := by decide
    simp [this]

theorem digit_not_blank (c : Char) (h : c.isDigit = true) : isBlank c = false := by
  have := isDigit_toNat c h
  simp only [isBlank, beq_eq_false_iff_ne, ne_eq]
  intro hc
  subst hc
  simp at this

/-- `P` followed by something that is not a digit is matched as a whole -/
theorem matchProto_protoStr (p : Pair) (rem : Str) (hp : WfPair p) (hrem : okRem rem = true) :
    matchProto (protoStr p ++ rem) = some (p, rem) := by
  obtain ⟨hd, hne, hds⟩ := hp
  obtain ⟨d, m⟩ := p
  simp only at hd hne hds
  cases m with
  | nil => exact absurd rfl hne
  | cons a m =>
    have ha : a.isDigit = true := hds a (by simp)
    have hab : isBlank a = false := digit_not_blank a ha
    obtain ⟨h1, h2⟩ := okRem_no_digit rem hrem
    simp only [protoStr, List.cons_append, matchProto, hd, if_true]
    have hdw : List.dropWhile isBlank (a :: (m ++ rem)) = a :: (m ++ rem) := by
      simp [hab]
    rw [hdw]
    have htw : List.takeWhile Char.isDigit (a :: (m ++ rem)) = a :: m := by
      have := takeWhile_append_all Char.isDigit (a :: m) rem hds
      simpa [h1] using this
    have hdw2 : List.dropWhile Char.isDigit (a :: (m ++ rem)) = rem := by
      have := dropWhile_append_all Char.isDigit (a :: m) rem hds
      simpa [h2] using this
    rw [htw, hdw2]
    simp

theorem matchProto_not_prefix (s : Str) (h : sshDash.isPrefixOf s = false) : matchProto s = none := by
  unfold matchProto
  split
  · simp [List.isPrefixOf] at h
  · rfl

theorem prefix_of_append_blank (pat t u : Str) (hpat : ∀ x ∈ pat, isBlank x = false)
    (hu : ∀ c r, u = c :: r → isBlank c = true) (h : pat.isPrefixOf (t ++ u) = true) : pat.isPrefixOf t = true := by
  induction pat generalizing t with
  | nil => simp [List.isPrefixOf]
  | cons x pat ih =>
    cases t with
    | nil =>
      cases u with
      | nil => simp at h
      | cons c r =>
        simp only [List.nil_append, List.isPrefixOf, Bool.and_eq_true, beq_iff_eq] at h
        have hb := hu c r rfl
        have hx := hpat x (by simp)
        rw [h.1] at hx
        rw [hx] at hb
        exact absurd hb (by simp)
    | cons a t =>
      simp only [List.cons_append, List.isPrefixOf, Bool.and_eq_true] at h ⊢
      exact ⟨h.1, ih t (fun y hy => hpat y (by simp [hy])) h.2⟩

/-- a non-empty token without blanks that does not start with `SSH-`, followed by the end or
    a blank, is not a protocol item -/
theorem matchProto_token (t u : Str) (hu : ∀ c r, u = c :: r → isBlank c = true)
    (hts : sshDash.isPrefixOf t = false) : matchProto (t ++ u) = none := by
  apply matchProto_not_prefix
  cases hp : sshDash.isPrefixOf (t ++ u) with
  | false => rfl
  | true =>
    have := prefix_of_append_blank sshDash t u (by decide) hu hp
    rw [this] at hts
    exact absurd hts (by simp)

theorem matchMore_nil (n : Nat) : matchMore n [] = [] := by
  cases n <;> rfl

theorem matchMore_stop (n : Nat) (r : Str) (h : matchProto r = none) : matchMore n ('-' :: r) = [] := by
  cases n with
  | zero => rfl
  | succ n => simp [matchMore, h]

/-- one item and nothing that continues the repetition -/
theorem rxBanner_single (p : Pair) (rem : Str) (hp : WfPair p) (hrem : okRem rem = true)
    (hstop : ∀ r, rem = '-' :: r → matchProto r = none) :
    rxBanner (protoStr p ++ rem) = some (parseTail [p] rem) := by
  unfold rxBanner
  rw [matchProto_protoStr p rem hp hrem]
  have hm : matchMore rem.length rem = [] := by
    rcases okRem_cases rem hrem with rfl | ⟨r, rfl⟩
    · rfl
    · exact matchMore_stop _ r (hstop r rfl)
  simp [hm, pick, hrem]


/-! ### strip / collapse / normalised comments -/

theorem isBlank_eq (c : Char) (h : isBlank c = true) : c = ' ' := by simpa [isBlank] using h

def headOk : Str → Bool
  | [] => true
  | c :: _ => !isBlank c

def lastOk : Str → Bool
  | [] => true
  | [c] => !isBlank c
  | _ :: c' :: cs => lastOk (c' :: cs)

/-- no two adjacent blanks -/
def noDouble : Str → Bool
  | c :: c' :: cs => !(isBlank c && isBlank c') && noDouble (c' :: cs)
  | _ => true

/-- the shape of a normalised comment: non-empty, no blank at either end, single blanks only -/
def normal (c : Str) : Bool := !c.isEmpty && headOk c && lastOk c && noDouble c

theorem rstrip_cons (c : Char) (cs : Str) :
    rstrip (c :: cs) = if rstrip cs = [] then (if isBlank c then [] else [c]) else c :: rstrip cs := by
  simp only [rstrip]
  split <;> simp_all

theorem rstrip_of_lastOk (s : Str) (h : lastOk s = true) : rstrip s = s := by
  induction s with
  | nil => rfl
  | cons c cs ih =>
    cases cs with
    | nil =>
      simp only [lastOk, Bool.not_eq_true'] at h
      simp [rstrip, h]
    | cons c' cs' =>
      simp only [lastOk] at h
      rw [rstrip_cons, ih h]
      simp

theorem lastOk_rstrip (s : Str) : lastOk (rstrip s) = true := by
  induction s with
  | nil => rfl
  | cons c cs ih =>
    rw [rstrip_cons]
    split
    · split
      · rfl
      · next hb => simp [lastOk, hb]
    · next hne =>
      cases hr : rstrip cs with
      | nil => exact absurd hr hne
      | cons a r => rw [hr] at ih; simpa [lastOk] using ih

theorem mem_rstrip (s : Str) : ∀ x ∈ rstrip s, x ∈ s := by
  induction s with
  | nil => simp [rstrip]
  | cons c cs ih =>
    intro x hx
    rw [rstrip_cons] at hx
    split at hx
    · split at hx
      · simp at hx
      · simp at hx; simp [hx]
    · rcases List.mem_cons.mp hx with h | h
      · simp [h]
      · exact List.mem_cons_of_mem _ (ih x h)

theorem headOk_rstrip (s : Str) (h : headOk s = true) : headOk (rstrip s) = true := by
  cases s with
  | nil => rfl
  | cons c cs =>
    simp only [headOk, Bool.not_eq_true'] at h
    rw [rstrip_cons]
    split
    · simp [h, headOk]
    · simp [headOk, h]

theorem rstrip_ne_nil (c : Char) (cs : Str) (h : isBlank c = false) : rstrip (c :: cs) ≠ [] := by
  rw [rstrip_cons]
  split <;> simp [h]

theorem headOk_dropWhile (s : Str) : headOk (s.dropWhile isBlank) = true := by
  cases h : s.dropWhile isBlank with
  | nil => rfl
  | cons a r => simp [headOk, dropWhile_head isBlank s a r h]

theorem dropWhile_of_headOk (s : Str) (h : headOk s = true) : s.dropWhile isBlank = s := by
  apply dropWhile_id_of_head
  intro a r hs
  subst hs
  simpa [headOk] using h

theorem strip_of_ok (s : Str) (h1 : headOk s = true) (h2 : lastOk s = true) : strip s = s := by
  unfold strip
  rw [dropWhile_of_headOk s h1, rstrip_of_lastOk s h2]

theorem headOk_strip (s : Str) : headOk (strip s) = true := headOk_rstrip _ (headOk_dropWhile s)
theorem lastOk_strip (s : Str) : lastOk (strip s) = true := lastOk_rstrip _

theorem strip_dropWhile (s : Str) : strip (s.dropWhile isBlank) = strip s := by
  unfold strip
  rw [dropWhile_of_headOk _ (headOk_dropWhile s)]

theorem mem_strip (s : Str) : ∀ x ∈ strip s, x ∈ s :=
  fun x hx => mem_of_mem_dropWhile _ _ _ (mem_rstrip _ x hx)

theorem strip_noblank (t : Str) (h : ∀ x ∈ t, isBlank x = false) : strip t = t := by
  apply strip_of_ok
  · cases t with
    | nil => rfl
    | cons c cs => simp [headOk, h c (by simp)]
  · induction t with
    | nil => rfl
    | cons c cs ih =>
      cases cs with
      | nil => simp [lastOk, h c (by simp)]
      | cons c' cs' => simp only [lastOk]; exact ih (fun x hx => h x (by simp [hx]))

theorem collapse_cons_nonblank (c : Char) (cs : Str) (h : isBlank c = false) : collapse (c :: cs) = c :: collapse cs := by
  cases cs with
  | nil => simp [collapse, h]
  | cons c' cs' => simp [collapse, h]

theorem collapse_ne_nil (y : Str) (h : y ≠ []) : collapse y ≠ [] := by
  fun_induction collapse y with
  | case1 => exact absurd rfl h
  | case2 c => simp
  | case3 c c' cs hb hb' ih => exact ih (by simp)
  | case4 c c' cs hb hb' ih => simp
  | case5 c c' cs hb ih => simp

theorem mem_collapse (y : Str) : ∀ x ∈ collapse y, x ∈ y := by
  fun_induction collapse y with
  | case1 => simp
  | case2 c =>
    intro x hx
    by_cases hb : isBlank c = true
    · simp [hb] at hx; simp [hx, isBlank_eq c hb]
    · simp [hb] at hx; simp [hx]
  | case3 c c' cs hb hb' ih => exact fun x hx => List.mem_cons_of_mem _ (ih x hx)
  | case4 c c' cs hb hb' ih =>
    intro x hx
    rcases List.mem_cons.mp hx with h | h
    · simp [h, isBlank_eq c hb]
    · exact List.mem_cons_of_mem _ (ih x h)
  | case5 c c' cs hb ih =>
    intro x hx
    rcases List.mem_cons.mp hx with h | h
    · simp [h]
    · exact List.mem_cons_of_mem _ (ih x h)

theorem headOk_collapse (y : Str) (h : headOk y = true) : headOk (collapse y) = true := by
  cases y with
  | nil => rfl
  | cons c cs =>
    have hb : isBlank c = false := by simpa [headOk] using h
    rw [collapse_cons_nonblank c cs hb]
    simp [headOk, hb]

theorem lastOk_cons (c : Char) (x : Str) (hx : x ≠ []) : lastOk (c :: x) = lastOk x := by
  cases x with
  | nil => exact absurd rfl hx
  | cons a r => rfl

theorem lastOk_collapse (y : Str) (h : lastOk y = true) : lastOk (collapse y) = true := by
  fun_induction collapse y with
  | case1 => rfl
  | case2 c =>
    have hb : isBlank c = false := by simpa [lastOk] using h
    simp [lastOk, hb]
  | case3 c c' cs hb hb' ih => exact ih (by simpa [lastOk] using h)
  | case4 c c' cs hb hb' ih =>
    rw [lastOk_cons _ _ (collapse_ne_nil _ (by simp))]
    exact ih (by simpa [lastOk] using h)
  | case5 c c' cs hb ih =>
    rw [lastOk_cons _ _ (collapse_ne_nil _ (by simp))]
    exact ih (by simpa [lastOk] using h)

theorem noDouble_cons_nonblank (c : Char) (x : Str) (h : isBlank c = false) : noDouble (c :: x) = noDouble x := by
  cases x with
  | nil => rfl
  | cons a r => simp [noDouble, h]

theorem noDouble_collapse (y : Str) : noDouble (collapse y) = true := by
  fun_induction collapse y with
  | case1 => rfl
  | case2 c => rfl
  | case3 c c' cs hb hb' ih => exact ih
  | case4 c c' cs hb hb' ih =>
    have hb'' : isBlank c' = false := by simpa using hb'
    rw [collapse_cons_nonblank c' cs hb''] at ih ⊢
    simp [noDouble, hb'', ih]
  | case5 c c' cs hb ih =>
    have hb' : isBlank c = false := by simpa using hb
    rw [noDouble_cons_nonblank _ _ hb']
    exact ih

theorem collapse_of_noDouble (y : Str) (h : noDouble y = true) : collapse y = y := by
  fun_induction collapse y with
  | case1 => rfl
  | case2 c =>
    by_cases hb : isBlank c = true
    · simp [isBlank_eq c hb]
    · simp [hb]
  | case3 c c' cs hb hb' ih => simp [noDouble, hb, hb'] at h
  | case4 c c' cs hb hb' ih =>
    simp only [noDouble, Bool.and_eq_true] at h
    rw [ih h.2, isBlank_eq c hb]
  | case5 c c' cs hb ih =>
    have hb' : isBlank c = false := by simpa using hb
    rw [noDouble_cons_nonblank _ _ hb'] at h
    rw [ih h]

theorem normComments_normal (x c : Str) (h : normComments x = some c) : normal c = true := by
  unfold normComments orNone at h
  split at h
  · simp at h
  · next hne =>
    simp only [Option.map_some, Option.some.injEq] at h
    subst h
    have hne' : strip x ≠ [] := by simpa using hne
    have h1 := collapse_ne_nil _ hne'
    simp only [normal, Bool.and_eq_true, Bool.not_eq_true', List.isEmpty_eq_false_iff]
    exact ⟨⟨⟨h1, headOk_collapse _ (headOk_strip x)⟩, lastOk_collapse _ (lastOk_strip x)⟩, noDouble_collapse _⟩

theorem normComments_of_normal (c : Str) (h : normal c = true) : normComments c = some c := by
  simp only [normal, Bool.and_eq_true, Bool.not_eq_true', List.isEmpty_eq_false_iff] at h
  obtain ⟨⟨⟨h0, h1⟩, h2⟩, h3⟩ := h
  unfold normComments orNone
  rw [strip_of_ok c h1 h2]
  have : c.isEmpty = false := by simpa using h0
  simp [this, collapse_of_noDouble c h3]

theorem normComments_dropWhile (c : Str) : normComments (c.dropWhile isBlank) = normComments c := by
  unfold normComments
  rw [strip_dropWhile]

theorem mem_normComments (x c : Str) (h : normComments x = some c) : ∀ a ∈ c, a ∈ x := by
  unfold normComments orNone at h
  split at h
  · simp at h
  · simp only [Option.map_some, Option.some.injEq] at h
    subst h
    exact fun a ha => mem_strip x a (mem_collapse _ a ha)

theorem normComments_nil : normComments [] = none := rfl


/-! ### the tail and the fields -/

theorem nonblank_not (t : Str) (h : ∀ x ∈ t, isBlank x = false) : ∀ x ∈ t, (fun y => !isBlank y) x = true := by
  intro x hx; simp [h x hx]

theorem parseTail_token (pairs : List Pair) (t c : Str) (ht : ∀ x ∈ t, isBlank x = false) (hne : t ≠ []) :
    parseTail pairs ('-' :: t ++ ' ' :: c)
      = { pairs, g2 := some ('-' :: t ++ ' ' :: c), g3 := some t, g4 := some (c.dropWhile isBlank) } := by
  have hd : (t ++ ' ' :: c).dropWhile isBlank = t ++ ' ' :: c := by
    apply dropWhile_id_of_head
    intro a r h
    cases t with
    | nil => exact absurd rfl hne
    | cons b t' =>
      simp only [List.cons_append, List.cons.injEq] at h
      rw [← h.1]; exact ht b (by simp)
  have htw : (t ++ ' ' :: c).takeWhile (fun y => !isBlank y) = t := by
    rw [takeWhile_append_all _ t _ (nonblank_not t ht)]
    simp [isBlank]
  have hdw : (t ++ ' ' :: c).dropWhile (fun y => !isBlank y) = ' ' :: c := by
    rw [dropWhile_append_all _ t _ (nonblank_not t ht)]
    simp [isBlank]
  simp only [parseTail, List.cons_append, hd, htw, hdw]
  simp [isBlank]

theorem parseTail_token_end (pairs : List Pair) (t : Str) (ht : ∀ x ∈ t, isBlank x = false) :
    parseTail pairs ('-' :: t) = { pairs, g2 := some ('-' :: t), g3 := some t, g4 := none } := by
  have hd : t.dropWhile isBlank = t := by
    apply dropWhile_id_of_head
    intro a r h
    subst h
    exact ht a (by simp)
  have htw : t.takeWhile (fun y => !isBlank y) = t := by
    have := takeWhile_append_all _ t [] (nonblank_not t ht)
    simpa using this
  have hdw : t.dropWhile (fun y => !isBlank y) = [] := by
    have := dropWhile_append_all _ t [] (nonblank_not t ht)
    simpa using this
  simp only [parseTail, hd, htw, hdw]

theorem softwareOf_token (g2 : Option Str) (t : Str) (ht : ∀ x ∈ t, isBlank x = false) (hne : t ≠ []) :
    softwareOf g2 (some t) = some t := by
  have : t.isEmpty = false := by simpa using hne
  simp [softwareOf, strip_noblank t ht, orNone, this]

theorem softwareOf_empty (r : Str) : softwareOf (some ('-' :: r)) (some []) = some [] := by
  simp [softwareOf, strip, rstrip, orNone, Text.startsWith, List.isPrefixOf]

theorem protoStr_print (p : Pair) (hp : WfPair p) : isPrintAscii (protoStr p) = true := by
  obtain ⟨hd, _, hds⟩ := hp
  have h1 := isDigit_isPrint _ hd
  have h2 := digits_print _ hds
  simp only [protoStr, isPrintAscii_cons, h1, h2]
  decide

/-- `parse` of one item followed by an admissible remainder -/
theorem parse_one (p : Pair) (rem : Str) (hp : WfPair p)
    (hrem : okRem (toPrintAscii rem) = true) (hstop : ∀ r, toPrintAscii rem = '-' :: r → matchProto r = none) :
    parse (protoStr p ++ rem) = some (ofGroups (parseTail [p] (toPrintAscii rem)) (isPrintAscii rem)) := by
  unfold parse
  simp only [toPrint_append, toPrint_of_print _ (protoStr_print p hp), isPrintAscii_append, protoStr_print p hp, Bool.true_and]
  rw [rxBanner_single p _ hp hrem hstop]

theorem intOfDigits_eq (ds : Str) : intOfDigits ds = Nat.ofDigitChars 10 ds 0 := rfl

theorem natToStr_eq (n : Nat) : Text.natToStr n = Nat.toDigits 10 n := by
  simp [Text.natToStr]

theorem intOfDigits_natToStr (n : Nat) : intOfDigits (Text.natToStr n) = n := by
  rw [natToStr_eq, intOfDigits_eq, Nat.ofDigitChars_ten_toDigits]

theorem natToStr_digits (n : Nat) : ∀ x ∈ Text.natToStr n, x.isDigit = true := by
  intro x hx
  rw [natToStr_eq] at hx
  exact Nat.isDigit_of_mem_toDigits (by decide) (by decide) hx

theorem natToStr_ne_nil (n : Nat) : Text.natToStr n ≠ [] := by
  rw [natToStr_eq]; exact Nat.toDigits_ne_nil

theorem natToStr_lt_ten (n : Nat) (h : n < 10) : Text.natToStr n = [n.digitChar] := by
  rw [natToStr_eq, Nat.toDigits_of_lt_base h]


/-! ### several protocol items (`SSH-1.99-SSH-2.0-…`) -/

/-- `-P-P…-P` followed by `rem` -/
def chain : List Pair → Str → Str
  | [], rem => rem
  | p :: ps, rem => '-' :: (protoStr p ++ chain ps rem)

/-- every repetition with the text that follows it -/
def annotate : List Pair → Str → List (Pair × Str)
  | [], _ => []
  | p :: ps, rem => (p, chain ps rem) :: annotate ps rem

theorem okRem_chain (ps : List Pair) (rem : Str) (h : okRem rem = true) : okRem (chain ps rem) = true := by
  cases ps with
  | nil => exact h
  | cons p ps => rfl

theorem length_le_chain (ps : List Pair) (rem : Str) : ps.length ≤ (chain ps rem).length := by
  induction ps with
  | nil => simp
  | cons p ps ih => simp only [chain, List.length_cons, List.length_append]; omega

theorem matchMore_chain (ps : List Pair) (rem : Str) (n : Nat) (hn : ps.length ≤ n) (hps : ∀ q ∈ ps, WfPair q)
    (hrem : okRem rem = true) (hstop : ∀ r, rem = '-' :: r → matchProto r = none) :
    matchMore n (chain ps rem) = annotate ps rem := by
  induction ps generalizing n with
  | nil =>
    rcases okRem_cases rem hrem with rfl | ⟨r, rfl⟩
    · exact matchMore_nil n
    · exact matchMore_stop n r (hstop r rfl)
  | cons p ps ih =>
    cases n with
    | zero => simp at hn
    | succ n =>
      have hm := matchProto_protoStr p (chain ps rem) (hps p (by simp)) (okRem_chain ps rem hrem)
      simp only [chain, annotate, matchMore, hm]
      rw [ih n (by simpa using hn) (fun q hq => hps q (by simp [hq]))]

theorem annotate_fst (ps : List Pair) (rem : Str) : (annotate ps rem).map Prod.fst = ps := by
  induction ps with
  | nil => rfl
  | cons p ps ih => simp [annotate, ih]

theorem annotate_last (p : Pair) (ps : List Pair) (rem : Str) :
    ∃ q e, ((p, chain ps rem) :: annotate ps rem).reverse = (q, rem) :: e := by
  induction ps generalizing p with
  | nil => exact ⟨p, [], rfl⟩
  | cons p' ps ih =>
    obtain ⟨q, e, h⟩ := ih p'
    refine ⟨q, e ++ [(p, chain (p' :: ps) rem)], ?_⟩
    simp only [annotate, List.reverse_cons] at h ⊢
    rw [h]; rfl

theorem pick_ok (l : List (Pair × Str)) (q : Pair) (r : Str) (e : List (Pair × Str)) (hl : l = (q, r) :: e)
    (h : okRem r = true) : pick l = some (l.reverse.map Prod.fst, r) := by
  subst hl
  simp [pick, h]

theorem rxBanner_chain (p : Pair) (ps : List Pair) (rem : Str) (hp : ∀ q ∈ p :: ps, WfPair q) (hrem : okRem rem = true)
    (hstop : ∀ r, rem = '-' :: r → matchProto r = none) :
    rxBanner (protoStr p ++ chain ps rem) = some (parseTail (p :: ps) rem) := by
  unfold rxBanner
  rw [matchProto_protoStr p _ (hp p (by simp)) (okRem_chain ps rem hrem)]
  simp only
  rw [matchMore_chain ps rem _ (length_le_chain ps rem) (fun q hq => hp q (by simp [hq])) hrem hstop]
  obtain ⟨q, e, h⟩ := annotate_last p ps rem
  rw [pick_ok _ q rem e h hrem]
  simp [annotate_fst]

theorem chain_print (ps : List Pair) (rem : Str) (hps : ∀ q ∈ ps, WfPair q) :
    toPrintAscii (chain ps rem) = chain ps (toPrintAscii rem) ∧ isPrintAscii (chain ps rem) = isPrintAscii rem := by
  induction ps with
  | nil => exact ⟨rfl, rfl⟩
  | cons p ps ih =>
    obtain ⟨h1, h2⟩ := ih (fun q hq => hps q (by simp [hq]))
    have hpp := protoStr_print p (hps p (by simp))
    have hd : san '-' = '-' := by decide
    have hd' : isPrint '-' = true := by decide
    constructor
    · simp only [chain, toPrint_cons, toPrint_append, toPrint_of_print _ hpp, h1, hd]
    · simp only [chain, isPrintAscii_cons, isPrintAscii_append, hpp, h2, hd', Bool.true_and]

/-- `parse` of one or more items followed by an admissible remainder -/
theorem parse_chain (p : Pair) (ps : List Pair) (rem : Str) (hp : ∀ q ∈ p :: ps, WfPair q)
    (hrem : okRem (toPrintAscii rem) = true) (hstop : ∀ r, toPrintAscii rem = '-' :: r → matchProto r = none) :
    parse (protoStr p ++ chain ps rem)
      = some (ofGroups (parseTail (p :: ps) (toPrintAscii rem)) (isPrintAscii rem)) := by
  have hpp := protoStr_print p (hp p (by simp))
  obtain ⟨h1, h2⟩ := chain_print ps rem (fun q hq => hp q (by simp [hq]))
  unfold parse
  simp only [toPrint_append, toPrint_of_print _ hpp, isPrintAscii_append, hpp, Bool.true_and, h1, h2]
  rw [rxBanner_chain p ps _ hp hrem hstop]


/-! ### what every successful match looks like (invariants of `rxBanner` / `parse`) -/

theorem matchProto_some (s : Str) (p : Pair) (r : Str) (h : matchProto s = some (p, r)) :
    WfPair p ∧ ∀ x ∈ r, x ∈ s := by
  unfold matchProto at h
  split at h
  · next d r0 =>
    split at h
    · next hd =>
      simp only at h
      split at h
      · simp at h
      · next hne =>
        simp only [Option.some.injEq, Prod.mk.injEq] at h
        obtain ⟨hp, hr⟩ := h
        subst hp hr
        refine ⟨⟨hd, by simpa using hne, takeWhile_all _ _⟩, ?_⟩
        intro x hx
        have := mem_of_mem_dropWhile _ _ _ (mem_of_mem_dropWhile _ _ _ hx)
        simp [this]
    · simp at h
  · simp at h

theorem matchMore_mem (n : Nat) (s : Str) : ∀ e ∈ matchMore n s, WfPair e.1 ∧ ∀ x ∈ e.2, x ∈ s := by
  induction n generalizing s with
  | zero => simp [matchMore]
  | succ n ih =>
    intro e he
    unfold matchMore at he
    split at he
    · next r =>
      split at he
      · next p r' hm =>
        obtain ⟨hw, hsub⟩ := matchProto_some r p r' hm
        rcases List.mem_cons.mp he with h | h
        · subst h
          exact ⟨hw, fun x hx => List.mem_cons_of_mem _ (hsub x hx)⟩
        · obtain ⟨h1, h2⟩ := ih r' e h
          exact ⟨h1, fun x hx => List.mem_cons_of_mem _ (hsub x (h2 x hx))⟩
      · simp at he
    · simp at he

theorem pick_some (l : List (Pair × Str)) (pairs : List Pair) (rem : Str) (h : pick l = some (pairs, rem)) :
    pairs ≠ [] ∧ (∀ q ∈ pairs, ∃ r, (q, r) ∈ l) ∧ (∃ q, (q, rem) ∈ l) ∧ okRem rem = true := by
  induction l with
  | nil => simp [pick] at h
  | cons e l ih =>
    obtain ⟨p, r⟩ := e
    unfold pick at h
    split at h
    · next hok =>
      simp only [Option.some.injEq, Prod.mk.injEq] at h
      obtain ⟨h1, h2⟩ := h
      subst h1 h2
      refine ⟨by simp, ?_, ⟨p, by simp⟩, hok⟩
      intro q hq
      obtain ⟨e, he, hfst⟩ := List.mem_map.mp hq
      exact ⟨e.2, by rw [← hfst]; exact List.mem_reverse.mp he⟩
    · obtain ⟨h1, h2, ⟨q, h3⟩, h4⟩ := ih h
      exact ⟨h1, fun q hq => (h2 q hq).elim fun r hr => ⟨r, List.mem_cons_of_mem _ hr⟩, ⟨q, List.mem_cons_of_mem _ h3⟩, h4⟩

theorem rxBanner_some (s : Str) (g : Groups) (h : rxBanner s = some g) :
    ∃ pairs rem, g = parseTail pairs rem ∧ okRem rem = true ∧ (∀ x ∈ rem, x ∈ s) ∧ pairs ≠ [] ∧ ∀ q ∈ pairs, WfPair q := by
  unfold rxBanner at h
  split at h
  · simp at h
  · next p r hm =>
    split at h
    · simp at h
    · next pairs rem hpick =>
      simp only [Option.some.injEq] at h
      obtain ⟨hw, hsub⟩ := matchProto_some s p r hm
      obtain ⟨h1, h2, ⟨q, h3⟩, h4⟩ := pick_some _ pairs rem hpick
      have hall : ∀ e ∈ ((p, r) :: matchMore r.length r).reverse, WfPair e.1 ∧ ∀ x ∈ e.2, x ∈ s := by
        intro e he
        rcases List.mem_cons.mp (List.mem_reverse.mp he) with he | he
        · subst he; exact ⟨hw, hsub⟩
        · obtain ⟨a, b⟩ := matchMore_mem _ _ e he
          exact ⟨a, fun x hx => hsub x (b x hx)⟩
      refine ⟨pairs, rem, h.symm, h4, (hall _ h3).2, h1, ?_⟩
      intro q hq
      obtain ⟨r', hr'⟩ := h2 q hq
      exact (hall _ hr').1

theorem parseTail_pairs (pairs : List Pair) (rem : Str) : (parseTail pairs rem).pairs = pairs := by
  unfold parseTail
  split
  · rfl
  · simp only
    split <;> rfl

/-- what `parse` reports for the tail, whatever it is -/
theorem ofGroups_tail_wf (pairs : List Pair) (rem : Str) (v : Bool) (hok : okRem rem = true) :
    (∀ s, (ofGroups (parseTail pairs rem) v).software = some s → ∀ x ∈ s, x ∈ rem ∧ isBlank x = false) ∧
    (∀ c, (ofGroups (parseTail pairs rem) v).comments = some c → normal c = true ∧ ∀ x ∈ c, x ∈ rem) ∧
    ((ofGroups (parseTail pairs rem) v).software = none → (ofGroups (parseTail pairs rem) v).comments = none) ∧
    ((ofGroups (parseTail pairs rem) v).software = some [] → (ofGroups (parseTail pairs rem) v).comments = none) := by
  rcases okRem_cases rem hok with rfl | ⟨r, rfl⟩
  · simp [parseTail, ofGroups, softwareOf, strip, rstrip, orNone, Text.startsWith, normComments]
  · have htokb : ∀ x ∈ (r.dropWhile isBlank).takeWhile (fun y => !isBlank y), isBlank x = false := by
      intro x hx
      simpa using takeWhile_all _ _ x hx
    have htokm : ∀ x ∈ (r.dropWhile isBlank).takeWhile (fun y => !isBlank y), x ∈ '-' :: r := by
      intro x hx
      exact List.mem_cons_of_mem _ (mem_of_mem_dropWhile _ _ _ (mem_of_mem_takeWhile _ _ _ hx))
    generalize htok : (r.dropWhile isBlank).takeWhile (fun y => !isBlank y) = tok at htokb htokm
    have hsw : ∀ g2r, softwareOf (some ('-' :: g2r)) (some tok) = if tok.isEmpty then some [] else some tok := by
      intro g2r
      simp only [softwareOf, Option.getD_some, strip_noblank tok htokb, orNone]
      cases he : tok.isEmpty <;> simp [Text.startsWith, List.isPrefixOf]
    cases hr2 : (r.dropWhile isBlank).dropWhile (fun y => !isBlank y) with
    | nil =>
      have hg : parseTail pairs ('-' :: r) = { pairs, g2 := some ('-' :: r), g3 := some tok, g4 := none } := by
        simp only [parseTail, hr2, htok]
      rw [hg]
      simp only [ofGroups, hsw, Option.getD_none, normComments_nil]
      refine ⟨?_, by simp, by simp, by simp⟩
      intro s hs x hx
      split at hs
      · simp only [Option.some.injEq] at hs; subst hs; simp at hx
      · simp only [Option.some.injEq] at hs; subst hs; exact ⟨htokm x hx, htokb x hx⟩
    | cons a r2 =>
      have hg : parseTail pairs ('-' :: r)
          = { pairs, g2 := some ('-' :: r), g3 := some tok, g4 := some ((a :: r2).dropWhile isBlank) } := by
        simp only [parseTail, hr2, htok]
      have hane : tok ≠ [] := by
        intro he
        have hsplit := List.takeWhile_append_dropWhile (p := fun y => !isBlank y) (l := r.dropWhile isBlank)
        rw [htok, he, hr2] at hsplit
        have h1 := dropWhile_head (fun y => !isBlank y) _ a r2 hr2
        have h2 := dropWhile_head isBlank r a r2 hsplit.symm
        simp [h2] at h1
      have hemp : tok.isEmpty = false := by simpa using hane
      rw [hg]
      simp only [ofGroups, hsw, hemp, Option.getD_some]
      refine ⟨?_, ?_, by simp, ?_⟩
      · intro s hs x hx
        simp only [Bool.false_eq_true, if_false, Option.some.injEq] at hs; subst hs
        exact ⟨htokm x hx, htokb x hx⟩
      · intro c hc
        refine ⟨normComments_normal _ c hc, ?_⟩
        intro x hx
        have h1 := mem_normComments _ c hc x hx
        have h2 := mem_of_mem_dropWhile _ _ _ h1
        rw [← hr2] at h2
        exact List.mem_cons_of_mem _ (mem_of_mem_dropWhile _ _ _ (mem_of_mem_dropWhile _ _ _ h2))
      · intro hs
        simp only [Bool.false_eq_true, if_false, Option.some.injEq] at hs
        exact absurd hs hane

theorem minPair_mem (p : Pair) (ps : List Pair) : minPair p ps ∈ p :: ps := by
  induction ps generalizing p with
  | nil => simp [minPair]
  | cons q qs ih =>
    simp only [minPair]
    have := ih (if ltPair q p = true then q else p)
    split at this
    · rcases List.mem_cons.mp this with h | h
      · rw [if_pos (by assumption), h]; simp
      · rw [if_pos (by assumption)]; simp [h]
    · rcases List.mem_cons.mp this with h | h
      · rw [if_neg (by assumption), h]; simp
      · rw [if_neg (by assumption)]; simp [h]

theorem protocolOf_major (pairs : List Pair) (hne : pairs ≠ []) (hw : ∀ q ∈ pairs, WfPair q) :
    (protocolOf pairs).1 < 10 := by
  cases pairs with
  | nil => exact absurd rfl hne
  | cons p ps =>
    have hm := minPair_mem p ps
    have := isDigit_toNat _ (hw _ hm).1
    simp only [protocolOf]
    have h48 : '0'.toNat = 48 := by decide
    omega


/-! ### lines of a received chunk -/

theorem splitLines_line (r rest : Bytes) (h : (0x0a : UInt8) ∉ r) :
    splitLines (r ++ 0x0a :: rest) = (r ++ [0x0a]) :: splitLines rest := by
  induction r with
  | nil => simp [splitLines]
  | cons b r ih =>
    have hb : b ≠ 0x0a := by intro hb; apply h; simp [hb]
    have hr : (0x0a : UInt8) ∉ r := by intro hr; apply h; simp [hr]
    simp only [List.cons_append, splitLines, hb, if_false]
    rw [ih hr]

theorem flatten_splitLines (b : Bytes) : (splitLines b).flatten = b := by
  induction b with
  | nil => rfl
  | cons x xs ih =>
    simp only [splitLines]
    split
    · simp [ih]
    · split
      · next hnil => rw [hnil] at ih; simp at ih; simp [← ih]
      · next l ls hcons => rw [hcons] at ih; simp at ih; simp [← ih]

theorem rstripBytes_cons (c : UInt8) (cs : Bytes) :
    rstripBytes (c :: cs) = if rstripBytes cs = [] then (if isSpaceByte c then [] else [c]) else c :: rstripBytes cs := by
  simp only [rstripBytes]
  split <;> simp_all

theorem rstripBytes_spaces (w : Bytes) (hw : ∀ x ∈ w, isSpaceByte x = true) : rstripBytes w = [] := by
  induction w with
  | nil => rfl
  | cons c cs ih =>
    rw [rstripBytes_cons, ih (fun x hx => hw x (by simp [hx]))]
    simp [hw c (by simp)]

theorem rstripBytes_append_spaces (r w : Bytes) (hw : ∀ x ∈ w, isSpaceByte x = true) :
    rstripBytes (r ++ w) = rstripBytes r := by
  induction r with
  | nil => simpa [rstripBytes] using rstripBytes_spaces w hw
  | cons c cs ih => rw [List.cons_append, rstripBytes_cons, rstripBytes_cons, ih]

/-- LF and CR LF endings give the same line text -/
theorem lineText_lf (r : Bytes) : lineText (r ++ [0x0a]) = lineText r := by
  unfold lineText
  rw [rstripBytes_append_spaces r [0x0a] (by decide)]

theorem lineText_crlf (r : Bytes) : lineText (r ++ [0x0d, 0x0a]) = lineText r := by
  unfold lineText
  rw [rstripBytes_append_spaces r [0x0d, 0x0a] (by decide)]

/-- whole lines on the wire: each followed by LF -/
def wire (ls : List Bytes) : Bytes := (ls.map (· ++ [0x0a])).flatten

theorem splitLines_wire (ls : List Bytes) (tail : Bytes) (h : ∀ r ∈ ls, (0x0a : UInt8) ∉ r) :
    splitLines (wire ls ++ tail) = ls.map (· ++ [0x0a]) ++ splitLines tail := by
  induction ls with
  | nil => simp [wire]
  | cons r ls ih =>
    have : wire (r :: ls) ++ tail = r ++ 0x0a :: (wire ls ++ tail) := by simp [wire]
    rw [this, splitLines_line r _ (h r (by simp)), ih (fun x hx => h x (by simp [hx]))]
    simp

theorem wire_ne_nil (ls : List Bytes) (h : ls ≠ []) : (wire ls).isEmpty = false := by
  cases ls with
  | nil => exact absurd rfl h
  | cons r ls => cases r <;> simp [wire]

/-- the header text of raw lines: the non-blank ones, decoded -/
def shown (raws : List Bytes) : List Str := (raws.map lineText).filter (fun t => !isBlankLine t)

theorem shown_append (a b : List Bytes) : shown (a ++ b) = shown a ++ shown b := by
  simp [shown]

theorem shown_lf (ls : List Bytes) : shown (ls.map (· ++ [0x0a])) = shown ls := by
  simp [shown, List.map_map, Function.comp_def, lineText_lf]

/-- lines that are not banners are passed over and (unless blank) collected -/
theorem scan_pass (h0 : List Str) (raws more : List Bytes) (hnb : ∀ r ∈ raws, parse (lineText r) = none) :
    scan h0 (raws ++ more) = scan (h0 ++ shown raws) more := by
  induction raws generalizing h0 with
  | nil => simp [shown]
  | cons r raws ih =>
    have hr := hnb r (by simp)
    have ih' := fun h0 => ih h0 (fun x hx => hnb x (by simp [hx]))
    simp only [List.cons_append, scan]
    by_cases hb : isBlankLine (lineText r) = true
    · simp only [hb, if_true]
      rw [ih']
      simp [shown, hb]
    · have e : shown (r :: raws) = lineText r :: shown raws := by simp [shown, hb]
      simp only [hb, hr]
      rw [e, ih' (h0 ++ [lineText r])]
      simp


/-! ### complete lines, the buffered fragment, and the whole stream -/

theorem cutLines_cons_lf (bs : Bytes) :
    cutLines (0x0a :: bs) = ([0x0a] :: (cutLines bs).1, (cutLines bs).2) := by
  simp [cutLines]

/-- cutting the complete lines off a prefix and going on with the fragment is the same as
    cutting the whole -/
theorem splitLines_append (x r : Bytes) :
    splitLines (x ++ r) = (cutLines x).1 ++ splitLines ((cutLines x).2 ++ r) := by
  induction x with
  | nil => simp [cutLines]
  | cons b x ih =>
    by_cases hb : b = 0x0a
    · subst hb
      rw [cutLines_cons_lf]
      simp [splitLines, ih]
    · simp only [List.cons_append, splitLines, hb, if_false, cutLines]
      rw [ih]
      cases hc : (cutLines x).1 with
      | nil => simp [splitLines, hb]
      | cons l ls => simp

theorem splitLines_nolf (l : Bytes) (hne : l ≠ []) (h : (0x0a : UInt8) ∉ l) : splitLines l = [l] := by
  induction l with
  | nil => exact absurd rfl hne
  | cons b l ih =>
    have hb : b ≠ 0x0a := by intro hb; apply h; simp [hb]
    have hl : (0x0a : UInt8) ∉ l := by intro hl; apply h; simp [hl]
    simp only [splitLines, hb, if_false]
    cases l with
    | nil => simp [splitLines]
    | cons c l' => rw [ih (by simp) hl]

theorem scan_append_some (h0 : List Str) (a c : List Bytes) (b : Banner) (h : List Str) (rest : List Bytes)
    (hs : scan h0 a = (some b, h, rest)) : scan h0 (a ++ c) = (some b, h, rest ++ c) := by
  induction a generalizing h0 with
  | nil => simp [scan] at hs
  | cons r a ih =>
    simp only [List.cons_append, scan] at hs ⊢
    split
    · next hb => simp only [hb, if_true] at hs; exact ih h0 hs
    · next hb =>
      simp only [hb] at hs
      split
      · next b' hp =>
        simp only [hp, Bool.false_eq_true, if_false] at hs
        simp only [Prod.mk.injEq] at hs ⊢
        exact ⟨hs.1, hs.2.1, by rw [hs.2.2]⟩
      · next hp =>
        simp only [hp, Bool.false_eq_true, if_false] at hs
        exact ih _ hs

theorem scan_append_none (h0 : List Str) (a c : List Bytes) (h : List Str) (rest : List Bytes)
    (hs : scan h0 a = (none, h, rest)) : scan h0 (a ++ c) = scan h c := by
  induction a generalizing h0 with
  | nil => simp only [scan, Prod.mk.injEq] at hs; simp [hs.2.1]
  | cons r a ih =>
    simp only [List.cons_append, scan] at hs ⊢
    split
    · next hb => simp only [hb, if_true] at hs; exact ih h0 hs
    · next hb =>
      simp only [hb] at hs
      split
      · next b' hp => simp [hp] at hs
      · next hp =>
        simp only [hp, Bool.false_eq_true, if_false] at hs
        exact ih _ hs

/-! ### the order on protocol items (Python's `<` on tuples of strings) -/

theorem ltStr_cons (x y : Char) (xs ys : Str) :
    Text.ltStr (x :: xs) (y :: ys) = if x < y then true else if y < x then false else Text.ltStr xs ys := by
  simp [Text.ltStr]

theorem char_eq_of_not_lt (x y : Char) (h1 : ¬ x < y) (h2 : ¬ y < x) : x = y :=
  Char.le_antisymm (Char.not_lt.mp h2) (Char.not_lt.mp h1)

theorem ltStr_irrefl (a : Str) : Text.ltStr a a = false := by
  induction a with
  | nil => rfl
  | cons x xs ih => rw [ltStr_cons]; simp [ih]

theorem ltStr_trans (a b c : Str) (h1 : Text.ltStr a b = true) (h2 : Text.ltStr b c = true) : Text.ltStr a c = true := by
  induction a generalizing b c with
  | nil =>
    cases b with
    | nil => simp [Text.ltStr] at h1
    | cons y ys =>
      cases c with
      | nil => simp [Text.ltStr] at h2
      | cons z zs => rfl
  | cons x xs ih =>
    cases b with
    | nil => simp [Text.ltStr] at h1
    | cons y ys =>
      cases c with
      | nil => simp [Text.ltStr] at h2
      | cons z zs =>
        rw [ltStr_cons] at h1 h2 ⊢
        by_cases hxy : x < y
        · by_cases hyz : y < z
          · simp [Char.lt_trans hxy hyz]
          · by_cases hzy : z < y
            · simp [hyz, hzy] at h2
            · have := char_eq_of_not_lt y z hyz hzy
              subst this
              simp [hxy]
        · by_cases hyx : y < x
          · simp [hxy, hyx] at h1
          · have hxy' := char_eq_of_not_lt x y hxy hyx
            subst hxy'
            simp only [hxy, if_false] at h1
            by_cases hyz : x < z
            · simp [hyz]
            · by_cases hzy : z < x
              · simp [hyz, hzy] at h2
              · simp only [hyz, hzy, if_false] at h2 ⊢
                exact ih ys zs h1 h2

theorem ltPair_irrefl (a : Pair) : ltPair a a = false := by
  simp [ltPair, ltStr_irrefl]

theorem ltPair_trans (a b c : Pair) (h1 : ltPair a b = true) (h2 : ltPair b c = true) : ltPair a c = true := by
  unfold ltPair at *
  by_cases hab : a.1 = b.1
  · by_cases hbc : b.1 = c.1
    · have hac : a.1 = c.1 := hab.trans hbc
      simp only [hab, hbc, if_true] at h1 h2
      simp only [hac, if_true]
      exact ltStr_trans _ _ _ h1 h2
    · simp only [hab, if_true] at h1
      simp only [hbc, if_false, decide_eq_true_eq] at h2
      have hac : ¬ a.1 = c.1 := by rw [hab]; exact hbc
      simp only [hac, if_false, decide_eq_true_eq]
      rw [hab]; exact h2
  · simp only [hab, if_false, decide_eq_true_eq] at h1
    by_cases hbc : b.1 = c.1
    · have hac : ¬ a.1 = c.1 := by rw [← hbc]; exact hab
      simp only [hac, if_false, decide_eq_true_eq]
      rw [← hbc]; exact h1
    · simp only [hbc, if_false, decide_eq_true_eq] at h2
      have hlt := Char.lt_trans h1 h2
      have hac : ¬ a.1 = c.1 := by
        intro h; rw [h] at hlt; exact Char.lt_irrefl _ hlt
      simp only [hac, if_false, decide_eq_true_eq]
      exact hlt

/-- `min(...)` returns an element below which there is none -/
theorem minPair_le (p : Pair) (ps : List Pair) : ∀ q ∈ p :: ps, ltPair q (minPair p ps) = false := by
  suffices h : ∀ (ps : List Pair) (best : Pair) (seen : List Pair), (∀ q ∈ seen, ltPair q best = false) →
      ∀ q ∈ seen ++ ps, ltPair q (minPair best ps) = false by
    intro q hq
    have := h ps p [p] (by intro q hq; simp at hq; subst hq; exact ltPair_irrefl _) q (by simpa using hq)
    exact this
  intro ps
  induction ps with
  | nil => intro best seen hs q hq; simp only [minPair]; exact hs q (by simpa using hq)
  | cons x xs ih =>
    intro best seen hs q hq
    simp only [minPair]
    have hq' : q ∈ (seen ++ [x]) ++ xs := by simpa using hq
    by_cases hx : ltPair x best = true
    · simp only [hx, if_true]
      apply ih x (seen ++ [x]) _ q hq'
      intro q hq
      rcases List.mem_append.mp hq with h | h
      · cases hqx : ltPair q x with
        | false => rfl
        | true =>
          have := ltPair_trans q x best hqx hx
          rw [hs q h] at this
          exact absurd this (by simp)
      · simp at h; subst h; exact ltPair_irrefl _
    · simp only [hx]
      apply ih best (seen ++ [x]) _ q hq'
      intro q hq
      rcases List.mem_append.mp hq with h | h
      · exact hs q h
      · simp at h; subst h; simpa using hx

/-! ### comments as words -/

theorem rstrip_append_blanks (x : Str) (k : Nat) : rstrip (x ++ List.replicate k ' ') = rstrip x := by
  have hb : ∀ k, rstrip (List.replicate k ' ') = [] := by
    intro k
    induction k with
    | zero => rfl
    | succ k ih => rw [List.replicate_succ, rstrip_cons, ih]; simp [isBlank]
  induction x with
  | nil => simpa [rstrip] using hb k
  | cons c cs ih => rw [List.cons_append, rstrip_cons, rstrip_cons, ih]

theorem collapse_append_nonblank (w y : Str) (hw : ∀ x ∈ w, isBlank x = false) : collapse (w ++ y) = w ++ collapse y := by
  induction w with
  | nil => rfl
  | cons c cs ih =>
    rw [List.cons_append, collapse_cons_nonblank c _ (hw c (by simp)), ih (fun x hx => hw x (by simp [hx]))]
    rfl

theorem collapse_blanks (k : Nat) (c : Char) (y : Str) (hc : isBlank c = false) :
    collapse (List.replicate (k + 1) ' ' ++ c :: y) = ' ' :: collapse (c :: y) := by
  induction k with
  | zero => simp [collapse, isBlank] at hc ⊢; simp [hc]
  | succ k ih =>
    have e : List.replicate (k + 1 + 1) ' ' ++ c :: y = ' ' :: ' ' :: (List.replicate k ' ' ++ c :: y) := by
      simp [List.replicate_succ]
    have e' : List.replicate (k + 1) ' ' ++ c :: y = ' ' :: (List.replicate k ' ' ++ c :: y) := by
      simp [List.replicate_succ]
    rw [e]
    rw [e'] at ih
    have hb : isBlank ' ' = true := rfl
    rw [collapse, if_pos hb, if_pos hb]
    exact ih

end SshAudit.Banner
