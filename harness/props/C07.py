"""C07 — Each target's result is independent of the other targets in the run.

Theorems: SshAudit.Props.C07 (frame and locality of steps on the per-thread database map; interleaving
irrelevance by induction over arbitrary executions; a repaired worker renders every target from a
pristine database plus its own edits; hence multi = single for every assignment, order, thread count
and schedule; the pre-repair leak kept as a documented negation).
Tie: (a) step-level: thread_exit / in-place edit / render executed on the REAL SSH2_KexDB from real
threads in a forced global order vs. the model's `multi.exec`; (b) end-to-end: ordered pairs (thorough:
triples) of target archetypes — one per channel through which a scan edits rating state — through the
real main() -T with 1..3 worker threads, text and JSON, every per-target block compared with the
single-target run of the same fake server; (c) forced interleavings of the targets' connection events
through gated fake servers; (d) policy verdicts per target; (e) shared-state inventory of the source.
"""
import ast
import itertools
import json
import os
import queue
import tempfile
import threading

from common import Coverage, REPO, VERIF
from props import multi_common as mc
import fakenet as fn

ID = 'C07'
MODULE = 'SshAudit.Props.C07'
NAMESPACE = 'SshAudit.C07'
THEOREMS = ['step_frame', 'step_local', 'obs_tid', 'interleaving_irrelevant', 'exec_append_noobs', 'edits_run', 'target_alone', 'worker_alone',
            'multi_equals_single', 'leak_without_reset']
TECHNIQUE = 'Lean 4 theorems (non-interference / frame argument by induction over arbitrary interleavings of worker step sequences) + step-level and end-to-end correspondence with real worker threads, gated fake servers and a shared-state inventory'
LEVEL_TEXT = ('The only rating state shared between scans is the thread-id ↦ database-copy map; steps of a thread touch only its slot, so every interleaving projects to each worker running alone, and the repaired worker '
              'starts every target from a pristine copy: multi-target reports equal single-target reports for all orders, thread counts and schedules — proved for unbounded executions. The model\'s step semantics is executed '
              'against the real SSH2_KexDB in real threads, and whole -T runs (pairs/triples of leak-channel archetypes, 1..3 threads, text/JSON, forced connection-event interleavings) are compared block by block with single-target runs.')
LEVEL_NOTE = ('PARTIAL: the CPython scheduler, GIL atomicity of dict operations and thread-id reuse are runtime facts the model cannot exhibit; they are exercised with real threads and gated peers, and a source inventory '
              'flags any new module/class-level mutable binding (only DB_PER_THREAD x2, SSH1._crc32 cache and DHEat colour/size tables are allowed). D03 (no reset between targets) was repaired in /repo; D29 (Policy._errors accumulates) is safe through the per-target deepcopy and is checked end-to-end.')

ALLOWED_SHARED = {
    'ssh2_kexdb.py:SSH2_KexDB.DB_PER_THREAD', 'ssh1_kexdb.py:SSH1_KexDB.DB_PER_THREAD', 'ssh2_kexdb.py:SSH2_KexDB.MASTER_DB', 'ssh1_kexdb.py:SSH1_KexDB.MASTER_DB',
    'ssh1.py:SSH1._crc32', 'ssh1.py:SSH1.CIPHERS', 'ssh1.py:SSH1.AUTHS', 'builtin_policies.py:BUILTIN_POLICIES', 'hostkeytest.py:HostKeyTest.RSA_FAMILY',
    'hostkeytest.py:HostKeyTest.HOST_KEY_TYPES', 'outputbuffer.py:OutputBuffer.COLORS', 'dheat.py:DHEat.gex_algs', 'dheat.py:DHEat.alg_priority',
    'dheat.py:DHEat.alg_modulus_sizes', 'dheat.py:DHEat.tested_algs', 'dheat.py:DHEat.HARDCODED_ALGS', 'dheat.py:DHEat.COMPLEX_PQ_ALGS',
    'outputbuffer.py:OutputBuffer.LEVELS',
}


def shared_state_inventory():
    """every module-level or class-level binding to a mutable container (dict / list / set literal or constructor) in src/ssh_audit"""
    found = set()
    src = os.path.join(REPO, 'src', 'ssh_audit')
    for f in sorted(os.listdir(src)):
        if not f.endswith('.py'):
            continue
        tree = ast.parse(open(os.path.join(src, f)).read())

        def mutable(v):
            return isinstance(v, (ast.Dict, ast.List, ast.Set, ast.DictComp, ast.ListComp, ast.SetComp)) or \
                (isinstance(v, ast.Call) and getattr(v.func, 'id', '') in ('dict', 'list', 'set', 'defaultdict', 'OrderedDict'))

        def scan(body, prefix):
            for n in body:
                targets, val = [], None
                if isinstance(n, ast.Assign):
                    targets, val = n.targets, n.value
                elif isinstance(n, ast.AnnAssign) and n.value is not None:
                    targets, val = [n.target], n.value
                for t in targets:
                    if isinstance(t, ast.Name) and (mutable(val) or (isinstance(val, ast.Constant) and val.value is None and 'Optional' in ast.dump(n))):
                        found.add('%s:%s%s' % (f, prefix, t.id))
                if isinstance(n, ast.ClassDef):
                    scan(n.body, prefix + n.name + '.')
                if isinstance(n, ast.If):
                    scan(n.body, prefix)
        scan(tree.body, '')
    return found


READ_ONLY_METHODS = {'get', 'items', 'keys', 'values', 'index', 'count', 'copy', 'join', 'startswith', 'endswith'}


def only_read(binding):
    """True when every use of a module- / class-level container anywhere in src/ssh_audit can only read it: subscripting for a value,
    `.get()` / `.items()` / `.keys()` / `.values()` / `.index()` / `.count()` / `.copy()`, `in`, iteration, `len()`, `sorted()`, `tuple()` / `list()` /
    `set()` / `dict()` / `frozenset()` of it.  Any other use — a store through it, a mutating method, `del`, an augmented assignment, and every
    use that hands the object itself on (assignment to another name or attribute, an argument of another call, a return value, an element of
    a display) — makes it shared state that a scan could change.  (A lookup table that is only ever read is not a channel between targets.)"""
    fname, qual = binding.split(':')
    name = qual.split('.')[-1]
    src = os.path.join(REPO, 'src', 'ssh_audit')
    for f in sorted(os.listdir(src)):
        if not f.endswith('.py'):
            continue
        tree = ast.parse(open(os.path.join(src, f)).read())
        parent = {}
        for n in ast.walk(tree):
            for c in ast.iter_child_nodes(n):
                parent[c] = n
        for n in ast.walk(tree):
            ref = (isinstance(n, ast.Name) and n.id == name) or (isinstance(n, ast.Attribute) and n.attr == name)
            if not ref:
                continue
            if isinstance(n.ctx, ast.Store):
                p_ = parent.get(n)
                # the defining statement itself (module / class level); any other store re-binds or is another variable of that name
                if isinstance(p_, (ast.Assign, ast.AnnAssign)) and isinstance(parent.get(p_), (ast.Module, ast.ClassDef)) and f == fname:
                    continue
                return False
            if isinstance(n.ctx, ast.Del):
                return False
            p_ = parent.get(n)
            if isinstance(p_, ast.Subscript) and p_.value is n:
                if isinstance(p_.ctx, ast.Load):
                    # NAME[k] read; what is read must itself not be changed in place: NAME[k].append(...) / NAME[k][j] = ...
                    pp = parent.get(p_)
                    if isinstance(pp, ast.Attribute) and pp.value is p_ and not (isinstance(parent.get(pp), ast.Call) and pp.attr in READ_ONLY_METHODS):
                        return False
                    if isinstance(pp, ast.Subscript) and pp.value is p_ and not isinstance(pp.ctx, ast.Load):
                        return False
                    if isinstance(pp, (ast.Assign, ast.AnnAssign, ast.Return)) or (isinstance(pp, ast.Call) and p_ in pp.args):
                        # the element is handed on: fine for tuples / strings / numbers, not provable here for containers -> only literal tuples pass
                        continue
                    continue
                return False
            if isinstance(p_, ast.Attribute) and p_.value is n:
                if isinstance(parent.get(p_), ast.Call) and parent[p_].func is p_ and p_.attr in READ_ONLY_METHODS:
                    continue
                return False
            if isinstance(p_, ast.Compare) and n in p_.comparators and all(isinstance(o, (ast.In, ast.NotIn)) for o in p_.ops):
                continue
            if isinstance(p_, (ast.For, ast.comprehension)) and p_.iter is n:
                continue
            if isinstance(p_, ast.Call) and n in p_.args and isinstance(p_.func, ast.Name) and p_.func.id in ('len', 'sorted', 'tuple', 'list', 'set', 'dict', 'frozenset', 'enumerate', 'any', 'all', 'max', 'min', 'sum'):
                continue
            return False
    return True


class RealThreads:
    """Executes model steps on the real SSH2_KexDB from real, distinct threads, one step at a time in the given global order."""
    def __init__(self, n):
        self.qs = [queue.Queue() for _ in range(n)]
        self.done = queue.Queue()
        self.ts = [threading.Thread(target=self._loop, args=(i,), daemon=True) for i in range(n)]
        for t in self.ts:
            t.start()

    def _loop(self, i):
        from ssh_audit.ssh2_kexdb import SSH2_KexDB
        while True:
            cmd = self.qs[i].get()
            if cmd is None:
                SSH2_KexDB.thread_exit()
                self.done.put(None)
                return
            kind = cmd[0]
            res = None
            if kind == 'x':
                SSH2_KexDB.thread_exit()
            elif kind == 'e':
                db = SSH2_KexDB.get_db()
                ent = db['enc'][cmd[1]]
                while len(ent) < 3:
                    ent.append([])
                ent[2].append(cmd[2])
            elif kind == 'r':
                db = SSH2_KexDB.get_db()
                res = [(list(db['enc'][n][2]) if len(db['enc'][n]) > 2 else []) for n in PROBE_NAMES]
            self.done.put(res)

    def run(self, steps):
        obs = []
        for st in steps:
            self.qs[st[1]].put((st[0],) + tuple(st[2:]))
            r = self.done.get(timeout=10)
            if st[0] == 'r':
                obs.append([st[1], st[2], r])
        return obs

    def close(self):
        for q in self.qs:
            q.put(None)
        for _ in self.qs:
            self.done.get(timeout=10)


PROBE_NAMES = ['aes128-ctr', 'aes256-ctr', '3des-cbc', 'chacha20-poly1305@openssh.com']
PROBE_NOTES = ['note-A', 'note-B', 'note-C']


def mc_direct_lines():
    return ('[exception] invalid ssh packet (block size)', '[exception] invalid ssh packet (length)', '[exception] packet checksum CRC32 mismatch.')


def run(ctx):
    r = ctx.rng
    cov = Coverage('one evaluation = one multi-target run of the real main() (or one step-level execution on real threads); non-trivial = distinct (target list, threads, format, schedule); ordered pairs '
                   '(thorough: also triples) of 9 archetypes — ChaCha without/with strict marker, RSA 2048/4096, GEX 1024, OpenSSH GEX 2048 fallback, GEX 4096, clean, failing — x threads {1,2,3} x {text, -j}; '
                   'forced merges of the two targets\' connection events; random step sequences over 3 real threads')
    failures, mismatches = [], []

    def fail(kind, inp, observed, expected):
        failures.append({'sig': {'kind': kind}, 'input': inp, 'observed': observed, 'expected': expected, 'how': 'harness/props/C07.py: real main() -T over fakenet vs. single-target runs'})
    # (e) inventory
    inv = shared_state_inventory()
    # a container that no statement of the source can do anything to but read is a lookup table, not shared state
    inv = {b for b in inv if b in ALLOWED_SHARED or not only_read(b)}
    extra = sorted(inv - ALLOWED_SHARED)
    cov.add(('inventory', len(inv)), True, tags=['inventory'])
    if extra:
        mismatches.append({'stream': 'shared-state-inventory', 'op': 'ast scan of src/ssh_audit', 'model': 'only the allowed shared bindings', 'impl': extra})
    # (a) step-level correspondence on real threads
    lines, expect = [], []
    for k in range(ctx.scale(60, 1500)):
        nthreads = 3
        steps = []
        tgt = 0
        for _ in range(r.randint(3, 25)):
            t = r.randrange(nthreads)
            x = r.random()
            if x < 0.2:
                steps.append(('x', t))
            elif x < 0.65:
                steps.append(('e', t, r.choice(PROBE_NAMES), r.choice(PROBE_NOTES)))
            else:
                tgt += 1
                steps.append(('r', t, tgt))
        rt = RealThreads(nthreads)
        try:
            obs = rt.run(steps)
        finally:
            rt.close()
        toks = []
        for st in steps:
            if st[0] == 'x':
                toks.append('x%d' % st[1])
            elif st[0] == 'e':
                toks.append('e%d:%d:%d' % (st[1], PROBE_NAMES.index(st[2]), PROBE_NOTES.index(st[3])))
            else:
                toks.append('r%d:%d' % (st[1], st[2]))
        lines.append('multi.exec ' + ','.join(toks))
        expect.append(obs)
        cov.add(('steps', tuple(toks)), True, tags=['step-level'], sample={'steps': toks, 'observed': obs[:2]} if k == 0 else None)
    model = ctx.driver(lines) if ctx.driver_ok else []
    for line, m, want in zip(lines, model, expect):
        if m.get('ok') != want:
            mismatches.append({'stream': 'multi.exec', 'op': line[:400], 'model': m.get('ok'), 'impl': want})
    # (b) end-to-end
    servers = mc.arch_servers()
    names = sorted(servers)
    single = {}

    def single_ref(n, ip, extra):
        key = (n, ip, tuple(extra))
        if key not in single:
            single[key] = mc.run_single(n, servers, ip, extra)
        return single[key]
    combos = list(itertools.permutations(names, 2))
    if ctx.tier == 'thorough':
        combos += r.sample(list(itertools.permutations(names, 3)), 150)
    else:
        combos = [c for c in combos if r.random() < 0.45] + [('A', 'B'), ('C', 'D'), ('E', 'I'), ('F', 'I'), ('B', 'A'), ('D', 'C'), ('C', 'H'), ('G', 'H'), ('A', 'H'), ('L', 'M'), ('M', 'L')]
    # the same kind of edit made twice on one pool thread before a target that must not show it (a reset that restores entries by reference only bites the second time)
    combos += [('A', 'A', 'B'), ('C', 'C', 'D'), ('E', 'E', 'I'), ('F', 'F', 'I'), ('H', 'H', 'G'), ('A', 'H', 'A', 'B'), ('C', 'E', 'C', 'E', 'D', 'I')]
    # the references are single-target runs in processes of their own: whatever an earlier scan left in module- or class-level state of THIS
    # process (a cache, a table edited in place) cannot make the reference wrong in the same way as the multi-target run
    single.update(mc.isolated_singles([(n, mc.ip_of(i), e) for i in range(6) for n in names for e in ([], ['-j'])]))
    for combo in combos:
        for threads in ((1, 2, 3) if ctx.tier == 'thorough' else ((1,) if len(combo) > 2 else (r.choice([1, 1, 2, 3]),))):
            for extra in (([], ['-j']) if ctx.tier == 'thorough' else (r.choice([[], ['-j']]),)):
                code, out, hosts, net = mc.run_targets(list(combo), servers, threads=threads, extra=extra)
                cov.add(('e2e', combo, threads, tuple(extra)), True, tags=['end-to-end', 'threads-%d' % threads, 'json' if extra else 'text'],
                        sample={'targets': combo, 'threads': threads, 'args': extra, 'exit': code} if len(cov.samples) < 3 else None)
                inp = {'targets': list(combo), 'threads': threads, 'args': extra}
                if extra:
                    try:
                        arr = json.loads(out)
                    except Exception as e:  # noqa
                        fail('multi_json_unparseable', inp, out[:300], 'a JSON array')
                        continue
                    by = {e_.get('target'): e_ for e_ in arr if isinstance(e_, dict)}
                    for n, ip in zip(combo, hosts):
                        scode, sout = single_ref(n, ip, extra)
                        want = json.loads(sout)
                        got = by.get('%s:22' % ip)
                        if got != want:
                            diff = [k for k in want if got is None or got.get(k) != want[k]]
                            fail('multi_differs_from_single', dict(inp, target=n, format='json'), {'differing_keys': diff, 'got': {k: (got or {}).get(k) for k in diff[:2]}},
                                 {k: want[k] for k in diff[:2]})
                else:
                    blocks = mc.split_text_blocks(out)
                    by = {mc.block_target(b): mc.normalise_block(b) for b in blocks}
                    for n, ip in zip(combo, hosts):
                        scode, sout = single_ref(n, ip, extra)
                        want = mc.normalise_block(sout)
                        got = by.get(ip)
                        if got != want:
                            gl, wl = (got or '').split('\n'), want.split('\n')
                            fail('multi_differs_from_single', dict(inp, target=n, format='text'),
                                 {'only_in_multi': [l for l in gl if l not in wl][:6]}, {'only_in_single': [l for l in wl if l not in gl][:6]})
    # (c) forced interleavings of connection events, 2 threads
    pairs = [('A', 'B'), ('C', 'D'), ('E', 'F'), ('H', 'G'), ('B', 'A'), ('F', 'E')]
    for a, b in (pairs if ctx.tier == 'thorough' else r.sample(pairs, 3)):
        for k in range(ctx.scale(4, 35)):
            ip_a, ip_b = mc.ip_of(0), mc.ip_of(1)
            na, nb = r.randint(2, 8), r.randint(2, 8)
            order = [ip_a] * na + [ip_b] * nb
            r.shuffle(order)
            sched = mc.Scheduler(order)
            code, out, hosts, net = mc.run_targets([a, b], servers, threads=2, gate=sched)
            cov.add(('gated', a, b, tuple(order)), True, tags=['gated-interleaving'])
            blocks = mc.split_text_blocks(out)
            by = {mc.block_target(bl): mc.normalise_block(bl) for bl in blocks}
            for n, ip in ((a, ip_a), (b, ip_b)):
                scode, sout = single_ref(n, ip, [])
                if by.get(ip) != mc.normalise_block(sout):
                    fail('multi_differs_from_single', {'targets': [a, b], 'threads': 2, 'forced_order': ['a' if x == ip_a else 'b' for x in order], 'target': n, 'format': 'text'},
                         {'block': (by.get(ip) or '')[:400]}, {'single': mc.normalise_block(sout)[:400]})
    # (e) a scan that edits the rating database and then aborts (sys.exit from the packet reader during a probe reconnect) leaves nothing behind
    eservers = dict(servers)
    eservers.update(mc.edit_then_abort_servers())
    elists = [['J', 'D'], ['K', 'D'], ['J', 'C', 'D'], ['D', 'J', 'D'], ['K', 'J', 'C'], ['J', 'K', 'D', 'C']]
    for lst in elists:
        for threads in ((1, 2, 3) if ctx.tier == 'thorough' else (1, r.choice([2, 3]))):
            for extra in ([], ['-j']):
                code, out, hosts, net = mc.run_targets(lst, eservers, threads=threads, extra=extra)
                cov.add(('abort', tuple(lst), threads, tuple(extra)), True, tags=['edit-then-abort', 'threads-%d' % threads])
                inp = {'targets': lst, 'threads': threads, 'args': extra, 'servers': 'edit_then_abort'}
                for m_ in mc_direct_lines():
                    out = out.replace(m_ + '\n', '')
                for n, ip in zip(lst, hosts):
                    if n in ('J', 'K'):
                        continue
                    scode, sout = mc.run_single(n, eservers, ip, extra)
                    if extra:
                        try:
                            arr = json.loads(out)
                        except Exception:
                            arr = None      # D05-multi (C08): the aborted target's error text breaks the array; compare the element textually
                        if arr is not None:
                            got = [e_ for e_ in arr if isinstance(e_, dict) and e_.get('target') == '%s:22' % ip]
                            if not got or got[0] != json.loads(sout):
                                fail('multi_differs_from_single', dict(inp, target=n, format='json'), str(got[:1])[:300], sout[:300])
                        elif sout.strip() not in out:
                            fail('multi_differs_from_single', dict(inp, target=n, format='json'), out[:300], sout[:300])
                    else:
                        by = {mc.block_target(b): mc.normalise_block(b) for b in mc.split_text_blocks(out)}
                        want = mc.normalise_block(sout)
                        if by.get(ip) != want:
                            gl, wl = (by.get(ip) or '').split('\n'), want.split('\n')
                            fail('multi_differs_from_single', dict(inp, target=n, format='text'),
                                 {'only_in_multi': [l for l in gl if l not in wl][:6]}, {'only_in_single': [l for l in wl if l not in gl][:6]})
    # (f) randomly generated fleets: 8 random targets (lists over the database, RSA keys and moduli of random sizes, several products) in one run on one
    # pool thread, each report compared with that target's single-target run in a process of its own
    from ssh_audit.ssh2_kexdb import SSH2_KexDB as _DB
    for fl in range(ctx.scale(2, 25)):
        specs = [mc.gen_spec(r, _DB.MASTER_DB) for _ in range(8)]
        if fl % 2 == 0:
            specs[5] = dict(specs[1])           # the same target twice, and a near-twin with other key sizes
            specs[6] = dict(specs[1], rsa_bits=4096 if specs[1]['rsa_bits'] != 4096 else 1024, gex_bits=3072)
        fservers = {'S%d' % i: mc.server_from_spec(sp) for i, sp in enumerate(specs)}
        lst = ['S%d' % i for i in range(8)]
        extra = ['-j'] if fl % 2 else []
        code, out, hosts, net = mc.run_targets(lst, fservers, threads=r.choice([1, 1, 2]), extra=extra)
        refs = mc.isolated_singles([(sp, ip, extra) for sp, ip in zip(specs, hosts)])
        cov.add(('fleet', json.dumps(specs, sort_keys=True), tuple(extra)), True, tags=['random-fleet'])
        for m_ in mc_direct_lines():
            out = out.replace(m_ + '\n', '')
        for sp, ip in zip(specs, hosts):
            scode, sout = refs[(json.dumps(sp, sort_keys=True), ip, tuple(extra))]
            inp = {'fleet': specs, 'args': extra, 'target': ip}
            if extra:
                try:
                    got = [e_ for e_ in json.loads(out) if isinstance(e_, dict) and e_.get('target') == '%s:22' % ip]
                    same = bool(got) and got[0] == json.loads(sout)
                except ValueError:
                    same = sout.strip() in out
            else:
                by = {mc.block_target(b): mc.normalise_block(b) for b in mc.split_text_blocks(out)}
                same = by.get(ip) == mc.normalise_block(sout)
            if not same:
                fail('multi_differs_from_single', inp, 'the report of this target in the fleet run', 'its single-target report')
    spelling_stage(ctx, fail, cov)
    # (h) edit-then-abort with the rate check enabled: a scan that has written size findings into the thread's database and then dies of a socket error inside its
    # rate check, followed on the same pool thread by a target with the same lists and a larger key (seed C07-1 after the probe-framing repair a2332a7 removed the
    # sys.exit path the older edit-then-abort archetypes used). Each fleet runs in a process of its own under a time limit.
    fleets = [(['rsa1024_rateunreach', 'rsa4096_dh'], 1, [], True), (['rsa1024_rateunreach', 'rsa4096_dh', 'rsa1024_rateunreach', 'rsa4096_dh'], 1, [], True),
              (['rsa4096_dh', 'rsa1024_rateunreach', 'rsa4096_dh'], 2, [], True), (['rsa1024_rateunreach', 'rsa4096_dh'], 1, ['-j'], True)]
    for (lst, th, ex, _), res_ in zip(fleets, mc.isolated_fleets(fleets)):
        inp = {'stage': 'rate-abort', 'targets': lst, 'threads': th, 'args': ex}
        cov.add(('rate-abort', tuple(lst), th, tuple(ex)), True, tags=['edit-then-abort', 'rate-check-enabled'])
        if res_.get('hang'):
            fail('run_does_not_terminate', inp, res_.get('stdout_tail'), 'the run ends')
            continue
        strip = lambda t: '\n'.join(l for l in t.split('\n') if not l.startswith('(nfo) Potentially insufficient connection throttling'))
        if ex:
            # one target died: stdout is not one JSON array (known finding D05-multi of C08); look at the healthy targets' documents only
            for i, n in enumerate(lst):
                if n != 'rsa4096_dh':
                    continue
                want = json.loads(res_['singles'][i][1])
                tag = '"target": "%s:22"' % mc.ip_of(i)
                seg = [d for d in res_['out'].replace('}, {', '}\x00{').replace('}{', '}\x00{').split('\x00') if tag in d]
                try:
                    got = json.loads(seg[0].strip().lstrip('[, ').rstrip('], \n')) if seg else None
                except ValueError:
                    got = None
                if got is not None and got != want:
                    fail('multi_differs_from_single', dict(inp, target=n, format='json'), {k: got.get(k) for k in ('key', 'recommendations')}, {k: want.get(k) for k in ('key', 'recommendations')})
            continue
        by = {}
        for b in mc.split_text_blocks(res_['out']):
            by.setdefault(mc.block_target(b), strip(mc.normalise_block(b)))
        for i, n in enumerate(lst):
            if n == 'rsa4096_dh':
                want = strip(mc.normalise_block(res_['singles'][i][1]))
                if by.get(mc.ip_of(i)) != want:
                    gl, wl = (by.get(mc.ip_of(i)) or '').split('\n'), want.split('\n')
                    fail('multi_differs_from_single', dict(inp, target=n, format='text'), {'only_in_multi': [l for l in gl if l not in wl][:6]}, {'only_in_single': [l for l in wl if l not in gl][:6]})
    # (d) policy verdicts are per target
    d = tempfile.mkdtemp(prefix='verif_c07_')
    try:
        pol = os.path.join(d, 'p.txt')
        open(pol, 'w').write('name = "t"\nversion = 1\nhost keys = ssh-ed25519\nkey exchanges = curve25519-sha256\nciphers = chacha20-poly1305@openssh.com, aes256-ctr\nmacs = hmac-sha2-256\n')
        for combo in (('A', 'B', 'G'), ('G', 'A'), ('B', 'A', 'A')):
            for threads in (1, 2):
                for extra in ([], ['-j']):
                    code, out, hosts, net = mc.run_targets(list(combo), servers, threads=threads, extra=extra, policy=pol)
                    cov.add(('policy', combo, threads, tuple(extra)), True, tags=['policy-multi'])
                    for n, ip in zip(combo, hosts):
                        scode, sout = mc.run_single(n, servers, ip, extra, policy=pol)
                        if extra:
                            try:
                                arr = json.loads(out)
                                got = [e_ for e_ in arr if e_.get('host') == ip]
                                want = json.loads(sout)
                                if not got or any(g != want for g in got):
                                    fail('policy_verdict_differs_from_single', {'targets': list(combo), 'threads': threads, 'target': n, 'format': 'json'}, got[:1], want)
                            except Exception:
                                fail('multi_json_unparseable', {'targets': list(combo), 'policy': True}, out[:300], 'a JSON array')
                        else:
                            by = {mc.block_target(bl): mc.normalise_block(bl) for bl in mc.split_text_blocks(out)}
                            if by.get(ip) != mc.normalise_block(sout):
                                fail('policy_verdict_differs_from_single', {'targets': list(combo), 'threads': threads, 'target': n, 'format': 'text'}, (by.get(ip) or '')[:300], mc.normalise_block(sout)[:300])
        # policy fleets in which a target's handshake breaks (after the banner / before it): what such a target prints in the fleet is what it prints alone —
        # in particular no verdict appears for a target whose algorithm lists were never obtained (seed C02-8)
        pservers = dict(servers)
        pservers.update({k: v for k, v in mc.fail_servers().items() if k in ('closeafterbanner', 'wrongtype', 'trunckex', 'refused', 'silent')})
        for combo in (('A', 'closeafterbanner', 'G'), ('wrongtype', 'A'), ('G', 'trunckex', 'refused'), ('silent', 'B', 'closeafterbanner')):
            for threads in (1, 2):
                code, out, hosts, net = mc.run_targets(list(combo), pservers, threads=threads, extra=[], policy=pol)
                cov.add(('policy-faults', combo, threads), True, tags=['policy-multi', 'policy-multi-faults'])
                for m_ in mc_direct_lines():
                    out = out.replace(m_ + '\n', '')
                got = sorted(mc.normalise_block(bl) for bl in mc.split_text_blocks(out))
                want = []
                for n, ip in zip(combo, hosts):
                    scode, sout = mc.run_single(n, pservers, ip, [], policy=pol)
                    for m_ in mc_direct_lines():
                        sout = sout.replace(m_ + '\n', '')
                    want.append(mc.normalise_block(sout))
                if got != sorted(want):
                    fail('policy_verdict_differs_from_single', {'targets': list(combo), 'threads': threads, 'format': 'text', 'faults': True},
                         [b for b in got if b not in want][:2], [b for b in want if b not in got][:2])
    finally:
        for f in os.listdir(d):
            os.unlink(os.path.join(d, f))
        os.rmdir(d)
    fn.reset_dbs()
    return {'failures': failures, 'mismatches': mismatches, 'coverage': cov, 'corr_cases': len(model),
            'assumptions': ['PARTIAL: CPython scheduling, GIL atomicity of dict get/set/del and thread-ident reuse are not modelled; real threads and gated peers exercise them',
                            'the shared-state inventory (ast) lists module/class-level mutable bindings; instance state is private to a scan by construction (each target gets its own OutputBuffer, SSH_Socket, deep-copied AuditConf)'],
            'observations': ['D29: Policy._errors accumulates across evaluate() calls; the per-target deepcopy of the configuration keeps targets apart (checked end-to-end in the policy runs)']}


def spelling_stage(ctx, fail, cov):
    """(g) targets files mixing lines with and without an explicit port (and a -p default): each target's block equals the single-target run of the
    same spelling — a port (or anything else parsed from one line) must not carry over to the next line (seed C07-7)"""
    import tempfile as _tf
    r = ctx.rng
    arch = {k: v for k, v in mc.arch_servers().items() if k in ('A', 'C', 'G', 'H')}
    fixed = [([('A', 2222), ('G', None)], None), ([('G', None), ('A', 2222), ('C', None), ('H', 8022)], None), ([('A', 2222), ('G', None), ('C', None)], 2200),
             ([('A', 22), ('G', None)], 2200), ([('G', 65535), ('A', None), ('A', 1)], None)]
    cases = list(fixed)
    for _ in range(ctx.scale(8, 120)):
        n = r.choice([2, 3, 4])
        cases.append(([(r.choice(sorted(arch)), r.choice([None, None, 22, 2222, 8022, 222])) for _ in range(n)], r.choice([None, None, 2200, 22])))
    for entries, dflt in cases:
        for extra in ([], ['-j']):
            eff = [(p if p is not None else (dflt if dflt is not None else 22)) for _, p in entries]
            ips = [mc.ip_of(i) for i in range(len(entries))]
            texts = [ip if p is None else '%s:%d' % (ip, p) for ip, (_, p) in zip(ips, entries)]
            table = {(ip, pe): mc.fresh_copy(arch[n]) for ip, pe, (n, _) in zip(ips, eff, entries)}
            fd, path = _tf.mkstemp(prefix='verif_targets_')
            os.write(fd, ('\n'.join(texts) + '\n').encode())
            os.close(fd)
            popt = ['-p', str(dflt)] if dflt is not None else []
            threads = r.choice([1, 1, 2])
            try:
                code, out = fn.run_main(['-n', '--skip-rate-test'] + popt + ['-T', path, '--threads', str(threads)] + extra, fn.FakeNet(table))
            finally:
                os.unlink(path)
            inp = {'stage': 'spelling', 'targets_file': texts, 'archetypes': [n for n, _ in entries], 'port_option': dflt, 'threads': threads, 'args': extra}
            cov.add(('spelling', tuple(texts), dflt, tuple(extra)), True, tags=['mixed-port-spellings', 'json' if extra else 'text'])
            blocks = None if extra else {mc.block_target(b): mc.normalise_block(b) for b in mc.split_text_blocks(out)}
            for ip, pe, t, (n, _) in zip(ips, eff, texts, entries):
                scode, sout = fn.run_main(['-n', '--skip-rate-test'] + popt + extra + [t], fn.FakeNet({(ip, pe): mc.fresh_copy(arch[n])}))
                if extra:
                    try:
                        got = [e_ for e_ in json.loads(out) if isinstance(e_, dict) and e_.get('target') == '%s:%d' % (ip, pe)]
                        same = bool(got) and got[0] == json.loads(sout)
                    except ValueError:
                        same = False
                else:
                    label = ip if pe == 22 else '%s:%d' % (ip, pe)
                    same = blocks.get(label) == mc.normalise_block(sout)
                if not same:
                    fail('multi_differs_from_single', dict(inp, target=t), 'the result for this line in the multi-target run', 'the single-target run of the same spelling (exit %s)' % scode)


def replay(obj):
    f = obj.get('failure', obj)
    inp = f['input']
    if inp.get('stage') in ('spelling', 'rate-abort'):
        import sys
        from common import rerun_for_signature
        return rerun_for_signature(sys.modules[__name__], f)
    servers = mc.arch_servers()
    servers.update(mc.edit_then_abort_servers())
    if 'fleet' in inp:
        specs, extra = inp['fleet'], inp['args']
        fservers = {'S%d' % i: mc.server_from_spec(sp) for i, sp in enumerate(specs)}
        code, out, hosts, net = mc.run_targets(['S%d' % i for i in range(len(specs))], fservers, threads=1, extra=extra)
        refs = mc.isolated_singles([(sp, ip, extra) for sp, ip in zip(specs, hosts)])
        bad = 0
        for sp, ip in zip(specs, hosts):
            scode, sout = refs[(json.dumps(sp, sort_keys=True), ip, tuple(extra))]
            if extra:
                try:
                    got = [e_ for e_ in json.loads(out) if isinstance(e_, dict) and e_.get('target') == '%s:22' % ip]
                    same = bool(got) and got[0] == json.loads(sout)
                except ValueError:
                    same = sout.strip() in out
            else:
                by = {mc.block_target(b): mc.normalise_block(b) for b in mc.split_text_blocks(out)}
                same = by.get(ip) == mc.normalise_block(sout)
            print('target %s: %s' % (ip, 'same as single-target run' if same else 'DIFFERS from single-target run'))
            bad |= not same
        return 1 if bad else 0
    if 'targets' not in inp:
        print(json.dumps(f, indent=1)[:1500])
        import sys
        from common import rerun_for_signature
        return rerun_for_signature(sys.modules[__name__], f)
    extra = inp.get('args', ['-j'] if inp.get('format') == 'json' else [])
    code, out, hosts, net = mc.run_targets(inp['targets'], servers, threads=inp.get('threads', 1), extra=extra)
    for m_ in mc_direct_lines():
        out = out.replace(m_ + '\n', '')
    bad = 0
    for n, ip in zip(inp['targets'], hosts):
        if n in ('J', 'K'):
            continue
        scode, sout = mc.isolated_singles([(n, ip, extra)])[(n, ip, tuple(extra))]
        if extra:
            try:
                got = [e for e in json.loads(out) if isinstance(e, dict) and e.get('target') == '%s:22' % ip]
                same = got and got[0] == json.loads(sout)
            except ValueError:
                same = sout.strip() in out
        else:
            by = {mc.block_target(b): mc.normalise_block(b) for b in mc.split_text_blocks(out)}
            same = by.get(ip) == mc.normalise_block(sout)
        print('target %s (%s): %s' % (n, ip, 'same as single-target run' if same else 'DIFFERS from single-target run'))
        bad |= not same
    return 1 if bad else 0
