/-
  The connection footprint of a standard / policy audit: which connections `audit()` opens
  (`HostKeyTest.perform_test`, `GEXTest.run`, `DHEat.dh_rate_test` in its non-interactive form), which
  SSH messages it sends on each, and whether each is closed.  The server is an arbitrary state machine
  deciding how every connection goes.  Import-free.
-/
import SshAudit.Model.Gex
namespace SshAudit
namespace Footprint

inductive Phase where
  | handshake | hostKey | gex | rate
deriving Repr, DecidableEq

/-- one connection attempt as the target sees it -/
structure Conn where
  phase : Phase
  connected : Bool            -- the TCP connection was established
  sent : List Nat             -- SSH message types sent on it, in order (20 = KEXINIT, 30 = KEXDH_INIT, 34 = GEX_REQUEST, 32 = GEX_INIT)
  closed : Bool               -- closed by the tool before the audit returns
deriving Repr, DecidableEq

/-- how a probe connection goes, as far as the message flow is concerned -/
inductive ProbeOutcome where
  | connectFail          -- connect() failed: no connection
  | bannerFail           -- no banner: closed at once
  | kexFail              -- KEXINIT reply unreadable
  | groupFail            -- (group-exchange only) no usable GEX_GROUP: GEX_INIT never sent
  | exchanged            -- the *_INIT message went out; whatever came back (reply, garbage, stall, close)
deriving Repr, DecidableEq

def msgKexinit : Nat := 20
def msgKexdhInit : Nat := 30
def msgGexRequest : Nat := 34
def msgGexInit : Nat := 32

/-- messages sent on a probe connection -/
def probeSent (viaGex : Bool) : ProbeOutcome → List Nat
  | .connectFail => []
  | .bannerFail => []
  | .kexFail => [msgKexinit]
  | .groupFail => if viaGex then [msgKexinit, msgGexRequest] else [msgKexinit, msgKexdhInit]
  | .exchanged => if viaGex then [msgKexinit, msgGexRequest, msgGexInit] else [msgKexinit, msgKexdhInit]

def probeConn (ph : Phase) (viaGex : Bool) (o : ProbeOutcome) : Conn :=
  { phase := ph, connected := o ≠ .connectFail, sent := probeSent viaGex o,
    -- every path closes the socket (explicit close / `finally`), the unreadable-KEXINIT path of the host-key probe
    -- through `GEXTest.run`'s initial `s.close()` (always called in a standard audit)
    closed := o ≠ .connectFail }

/-! ### host-key probing (`HostKeyTest.perform_test`) -/

structure HkSt (σ : Type) where
  srv : σ
  parsed : List Str
  conns : List Conn
  halted : Bool

/-- does the probe end the whole loop (`return`)? -/
def hkStops : ProbeOutcome → Bool
  | .connectFail => true | .bannerFail => true | .kexFail => true | _ => false

def hkStep {σ : Type} (rsaFamily : List Str) (viaGex : Bool) (srv : σ → Str → ProbeOutcome × Bool × σ) (keys : List Str)
    (st : HkSt σ) (t : Str) : HkSt σ :=
  if st.halted then st
  else if st.parsed.contains t then st
  else if !keys.contains t then st
  else
    let (o, gotKey, s') := srv st.srv t
    let c := probeConn .hostKey viaGex o
    if hkStops o then { st with srv := s', conns := st.conns ++ [c], halted := true }
    else if gotKey ∧ o = .exchanged then
      { st with srv := s', conns := st.conns ++ [c], parsed := st.parsed ++ (if rsaFamily.contains t then rsaFamily else [t]) }
    else { st with srv := s', conns := st.conns ++ [c] }

/-- `HostKeyTest.run`: no probing unless one of the peer's key exchanges is one the tool can start -/
def hostKeyPhase {σ : Type} (types rsaFamily startable : List Str) (gexNames : List Str) (srv : σ → Str → ProbeOutcome × Bool × σ) (s0 : σ)
    (kex keys : List Str) : HkSt σ :=
  match kex.find? (fun k => startable.contains k) with
  | none => { srv := s0, parsed := [], conns := [], halted := false }
  | some k => types.foldl (hkStep rsaFamily (gexNames.contains k) srv keys) { srv := s0, parsed := [], conns := [], halted := false }

/-! ### group-exchange probing (`GEXTest.run`): one connection per probe of `Gex.run` -/

/-- what `_send_init` learns from how the probe connection went (`Gex.Resp`) -/
def respOf (o : ProbeOutcome) (size : Option Nat) : Gex.Resp :=
  match o with
  | .connectFail => .noReconnect
  | .bannerFail => .noReconnect
  | .kexFail => .noReconnect
  | .groupFail => .failed
  | .exchanged => match size with | some n => .size n | none => .failed

/-- a footprint-level server (decides how each probe connection goes, and the modulus it hands out) seen as a
    `Gex.run` server that also records the connection made for every probe -/
def gexServer {σ : Type} (fsrv : σ → Gex.Probe → (ProbeOutcome × Option Nat) × σ) : (σ × List Conn) → Gex.Probe → Gex.Resp × (σ × List Conn) :=
  fun st p =>
    let r := fsrv st.1 p
    (respOf r.1.1 r.1.2, (r.2, st.2 ++ [probeConn .gex true r.1.1]))

/-- the connections `GEXTest.run` makes for one offered group-exchange algorithm -/
def gexPhase {σ : Type} (fsrv : σ → Gex.Probe → (ProbeOutcome × Option Nat) × σ) (s0 : σ) (isOpenSSH : Bool) : Gex.Result (σ × List Conn) :=
  Gex.run (gexServer fsrv) (s0, []) isOpenSSH

/-! ### the probe phases of one standard audit -/

/-- a scripted environment: the plan says how successive probe connections go (exhausted = everything works);
    `sizeOf` is the modulus the server hands out for a group-exchange request -/
structure Env where
  plan : List (ProbeOutcome × Bool)       -- (how the connection goes, does a host-key reply parse)
  sizeOf : Gex.Probe → Option Nat

def Env.next (e : Env) : (ProbeOutcome × Bool) × Env :=
  match e.plan with
  | [] => ((.exchanged, true), e)
  | x :: rest => (x, { e with plan := rest })

/-- a server that has no group for the request closes after GEX_REQUEST: the exchange stops there -/
def noGroup (e : Env) (p : Gex.Probe) (o : ProbeOutcome) : ProbeOutcome :=
  if o = .exchanged ∧ e.sizeOf p = none then .groupFail else o

/-- the request `KexGroupExchange.send_init` makes when a host-key probe runs over a group-exchange algorithm -/
def defaultGexProbe : Gex.Probe := (1024, 2048, 8192)

def hkServer (viaGex : Bool) (e : Env) (_t : Str) : ProbeOutcome × Bool × Env :=
  let r := e.next
  ((if viaGex then noGroup e defaultGexProbe r.1.1 else r.1.1), r.1.2, r.2)
def gexFServer (e : Env) (p : Gex.Probe) : (ProbeOutcome × Option Nat) × Env :=
  let r := e.next
  let o := noGroup e p r.1.1
  ((o, if o = .exchanged ∧ r.1.2 then e.sizeOf p else none), r.2)

/-- group-exchange probing over the offered algorithms in table order, stopping after a failed reconnect -/
def gexAll (gexAlgs kex : List Str) (isOpenSSH : Bool) : List Str → Env → List Conn → List Conn × Env
  | [], e, acc => (acc, e)
  | a :: rest, e, acc =>
    if kex.contains a then
      let r := gexPhase gexFServer e isOpenSSH
      if r.stop then (acc ++ r.srvSt.2, r.srvSt.1) else gexAll gexAlgs kex isOpenSSH rest r.srvSt.1 (acc ++ r.srvSt.2)
    else gexAll gexAlgs kex isOpenSSH rest e acc

/-- does the host-key probe run over a group-exchange algorithm (the first startable key exchange of the peer)? -/
def viaGexOf (startable gexAlgs kex : List Str) : Bool :=
  match kex.find? (fun k => startable.contains k) with | some k => gexAlgs.contains k | none => false

/-- every connection of a server audit's probe phases (rate check aside), in order: the handshake connection, the
    host-key probes, the group-exchange probes -/
def auditFootprint (types rsaFamily startable gexAlgs : List Str) (kex keys : List Str) (isOpenSSH : Bool) (e : Env) : List Conn :=
  let hs : Conn := { phase := .handshake, connected := true, sent := [msgKexinit], closed := true }
  let hk := hostKeyPhase types rsaFamily startable gexAlgs (hkServer (viaGexOf startable gexAlgs kex)) e kex keys
  let gx := gexAll gexAlgs kex isOpenSSH gexAlgs hk.srv []
  hs :: hk.conns ++ gx.1

/-! ### the initial handshake, including the one retry as SSH-1 -/

/-- how the first connection goes: the audit proceeds to the probes, or the peer answers "Protocol major versions differ."
    (then, if SSH-1 is enabled, the audit is repeated once as SSH-1 on a second connection and no probe follows) or it ends -/
inductive HsOutcome where
  | proceeds
  | versionsDiffer (ssh1Enabled : Bool) (retryBanner : Bool)   -- does the second connection get as far as sending its KEXINIT?
  | ends
deriving Repr, DecidableEq

def hsConn : Conn := { phase := .handshake, connected := true, sent := [msgKexinit], closed := true }

/-- every connection of a server audit (rate check aside) -/
def auditFootprintH (h : HsOutcome) (types rsaFamily startable gexAlgs : List Str) (kex keys : List Str) (isOpenSSH : Bool) (e : Env) : List Conn :=
  match h with
  | .proceeds => auditFootprint types rsaFamily startable gexAlgs kex keys isOpenSSH e
  | .versionsDiffer true rb => [hsConn, { hsConn with sent := if rb then [msgKexinit] else [] }]
  | .versionsDiffer false _ => [hsConn]
  | .ends => [hsConn]

/-! ### the connection-rate check (`DHEat._dh_rate_test`, non-interactive) -/

/-- what happens in one pass of the rate loop: is time up, which connects succeed, which open sockets become
    readable (with a banner or not) or exceptional -/
structure RateIter where
  timeUp : Bool
  connectOk : List Bool            -- outcome of successive `connect_ex` calls in this pass (missing = success)
  readable : List (Nat × Bool)     -- (index into the open-socket list, data starts with "SSH-")
  exceptional : List Nat

structure RateSt where
  attempted : Nat
  opened : Nat
  openSocks : Nat                  -- sockets currently in `socket_dict`
  maxConcurrent : Nat
  closedSocks : Nat

/-- the inner `while` that opens sockets -/
def rateOpen (maxConn conc : Nat) : Nat → List Bool → RateSt → RateSt
  | 0, _, st => st
  | fuel + 1, oks, st =>
    if st.openSocks < conc ∧ st.openSocks + st.opened < maxConn ∧ st.attempted < maxConn then
      let ok := oks.headD true
      let st' := { st with attempted := st.attempted + 1, openSocks := if ok then st.openSocks + 1 else st.openSocks }
      rateOpen maxConn conc fuel oks.tail { st' with maxConcurrent := max st'.maxConcurrent st'.openSocks }
    else st

def rateLoop (maxConn conc : Nat) : List RateIter → RateSt → RateSt
  | [], st => { st with closedSocks := st.closedSocks + st.openSocks, openSocks := 0 }
  | it :: rest, st =>
    if it.timeUp ∨ st.opened ≥ maxConn then { st with closedSocks := st.closedSocks + st.openSocks, openSocks := 0 }
    else
      let st1 := rateOpen maxConn conc (maxConn + 1) it.connectOk st
      -- readable sockets are read once and closed; exceptional ones are closed
      let nRead := min it.readable.length st1.openSocks
      let banners := ((it.readable.take nRead).filter (·.2)).length
      let nExc := min it.exceptional.length (st1.openSocks - nRead)
      let st2 := { st1 with opened := st1.opened + banners, openSocks := st1.openSocks - nRead - nExc, closedSocks := st1.closedSocks + nRead + nExc }
      rateLoop maxConn conc rest st2

def rateInit : RateSt := { attempted := 0, opened := 0, openSocks := 0, maxConcurrent := 0, closedSocks := 0 }

/-- the rate check runs only for a server audit that was not told to skip it and whose peer offers a DH key exchange -/
def rateRuns (skipRateTest clientAudit : Bool) (kex dhNames : List Str) : Bool :=
  !skipRateTest && !clientAudit && kex.any (fun k => dhNames.contains k)

/-! ### which optional (intrusive) features `audit()` enters -/

structure Requested where
  dheat : Bool            -- `--dheat` given
  connRateTest : Bool     -- `--conn-rate-test` given
deriving Repr, DecidableEq

inductive AfterKex where
  | dheatAttack | interactiveRateTest | standardProbes
deriving Repr, DecidableEq

/-- the dispatch right after the KEXINIT was parsed -/
def afterKex (r : Requested) : AfterKex :=
  if r.dheat then .dheatAttack else if r.connRateTest then .interactiveRateTest else .standardProbes

end Footprint
end SshAudit
