/-
  `audit()` in ssh_audit.py as decision logic: how an audit ends, given how the initial
  handshake went.  (The byte-level session model — receive loops, packet reader, probe
  connections — builds on this in later sections.)  Import-free.
-/
import SshAudit.Model.Types
namespace SshAudit
namespace Session

/-- how the first connection's handshake ended -/
inductive Handshake where
  | connectFailed       -- resolve / connect error (`s.connect()` returned an error string)
  | noBanner            -- no banner line (closed, timed out, only header text)
  | readError           -- `read_packet` returned −1 (closed / timed out before a whole packet)
  | badFraming          -- block-size or length check of `read_packet` failed (`sys.exit(CONNECTION_ERROR)`)
  | wrongPacketType     -- first packet is not KEXINIT / SMSG_PUBLIC_KEY
  | parseFailed         -- `SSH2_Kex.parse` / `SSH1_PublicKeyMessage.parse` raised
  | ok                  -- algorithm lists obtained and parsed
deriving Repr, DecidableEq

inductive Mode where
  | standard | policy | makePolicy
deriving Repr, DecidableEq

structure AuditCfg where
  mode : Mode := .standard
  multiTarget : Bool := false     -- `len(aconf.target_list) > 0`
deriving Repr, DecidableEq

/-- what the later phases computed (only read when the handshake was ok) -/
structure AuditResult where
  reportStatus : Nat      -- `output()`'s return value
  policyPassed : Bool     -- `evaluate_policy()`'s return value
deriving Repr, DecidableEq

structure AuditEnd where
  status : Nat            -- value returned by `audit()` or passed to `sys.exit`
  algReport : Bool        -- an algorithm report (or policy verdict) was produced
  viaSysExit : Bool       -- ended through `sys.exit` rather than `return`
deriving Repr, DecidableEq

/-- `exitcodes.CONNECTION_ERROR` -/
def connectionError : Nat := 1

def auditEnd (cfg : AuditCfg) (h : Handshake) (res : AuditResult) : AuditEnd :=
  match h with
  | .connectFailed => { status := connectionError, algReport := false, viaSysExit := !cfg.multiTarget }
  | .noBanner => { status := connectionError, algReport := false, viaSysExit := false }
  | .readError => { status := connectionError, algReport := false, viaSysExit := false }
  | .badFraming => { status := connectionError, algReport := false, viaSysExit := true }
  | .wrongPacketType => { status := connectionError, algReport := false, viaSysExit := false }
  | .parseFailed => { status := connectionError, algReport := false, viaSysExit := false }
  | .ok =>
    match cfg.mode with
    | .standard => { status := res.reportStatus, algReport := true, viaSysExit := false }
    | .policy => { status := if res.policyPassed then 0 else 3, algReport := true, viaSysExit := false }
    | .makePolicy => { status := 0, algReport := true, viaSysExit := false }

end Session
end SshAudit
