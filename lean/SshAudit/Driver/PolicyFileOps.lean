import SshAudit.Driver.PolicyOps
import SshAudit.Model.PolicyFile
namespace SshAudit.Driver
open SshAudit SshAudit.Pol SshAudit.PolicyFile

/-- `{"err": kind, "detail": [texts of the message]}` -/
def pfJerr : PFErr → J
  | .noEq l => .obj [("err", .str "noeq".toList), ("detail", J.ofStrs [l])]
  | .badField l => .obj [("err", .str "badfield".toList), ("detail", J.ofStrs [l])]
  | .unquoted k v => .obj [("err", .str "unquoted".toList), ("detail", J.ofStrs [k, v])]
  | .badInt v => .obj [("err", .str "badint".toList), ("detail", J.ofStrs [v])]
  | .badJson => .obj [("err", .str "json".toList), ("detail", .arr [])]
  | .typeError => .obj [("err", .str "type".toList), ("detail", .arr [])]
  | .unbound => .obj [("err", .str "unbound".toList), ("detail", .arr [])]
  | .noName => .obj [("err", .str "noname".toList), ("detail", .arr [])]
  | .noVersion => .obj [("err", .str "noversion".toList), ("detail", .arr [])]
  | .outOfModel => .obj [("err", .str "out-of-model".toList), ("detail", .arr [])]

def pfJrec (r : Rec) : J := .obj [
  ("name", .str r.name), ("version", .str r.version), ("server", .bool r.serverPolicy), ("warnings", .nat r.warnings),
  ("policy", jpol r.pol)]

instance pfInhabitedJ : Inhabited J := ⟨.null⟩

/-- a JSON value as the harness canonicalises it: dicts as lists of pairs in dict order, floats as the text "float" -/
partial def pfJjv : Json.JV → J
  | .null => .null
  | .bool b => .bool b
  | .int i => .num i
  | .float => .str "float".toList
  | .str v => .arr [.str "s".toList, .str v]
  | .arr xs => .arr (.str "a".toList :: xs.map pfJjv)
  | .obj kvs => .arr (.str "o".toList :: (Json.dictOf kvs).map (fun kv => .arr [.str kv.1, pfJjv kv.2]))

def policyFileOp (op : String) (args : List String) : Option J :=
  match op, args with
  | "policyfile.parse", [t] => do
    let t ← decStr t
    pure (match parse t with
      | .ok r => jok (pfJrec r)
      | .error e => pfJerr e)
  | "policyfile.create", src :: today :: ca :: peerToks => do
    let src ← decStr src; let today ← decStr today; let ca ← decBool ca
    let peer ← decPeer peerToks
    pure (jok (.str (create src today peer ca)))
  | "policyfile.loads", [t] => do
    let t ← decStr t
    pure (match Json.loads t with
      | .ok v => jok (pfJjv v)
      | .error .invalid => .obj [("err", .str "json".toList)]
      | .error .outOfModel => .obj [("err", .str "out-of-model".toList)])
  | "policyfile.dumpstr", [t] => do
    let t ← decStr t
    pure (jok (.str (Json.dumpStr t)))
  | "policyfile.pyint", [t] => do
    let t ← decStr t
    pure (match pyInt t with
      | some i => jok (.num i)
      | none => .obj [("err", .str "badint".toList)])
  | "policyfile.unquote", [t] => do
    let t ← decStr t
    pure (jok (.str (unquote t)))
  | _, _ => none

end SshAudit.Driver
