import SshAudit.Driver.WireOps
import SshAudit.Driver.PolicyOps
import SshAudit.Driver.OutputOps
import SshAudit.Model.PolicyAudit
import SshAudit.Gen.Policies
namespace SshAudit.Driver
open SshAudit SshAudit.PolicyAudit

def jwrites (o : List (List Str)) : J := .arr (o.map J.ofStrs)

def decConf : List String → Option Conf
  | [h, p, cl, ch, w] => do
    let host ← decStr h; let port ← decInt p; let clientAudit ← decBool cl; let clientHost ← decStr ch; let windows ← decBool w
    pure { host, port, clientAudit, clientHost, windows }
  | _ => none

def decFileState (tok : String) : Option FileState :=
  if tok = "absent" then some .absent else if tok = "present" then some .present
  else match tok.splitOn ":" with
    | ["denied", m] => (decStr m).map .denied
    | _ => none

def jdocPA (d : Doc) : J := .obj [
  ("host", .str d.host), ("port", .num d.port), ("policy", .str d.policy), ("passed", .bool d.passed),
  ("errors", jerrs d.errors), ("warnings", J.ofStrs d.warnings)]

/-- `policyaudit.run <cfg,cfg,…> <vmsgs> <host> <port> <client> <clientHost> <windows> <nameAndVersion> <outdated> <policy: 11 tokens> <peer: 9 tokens>`:
      the policy audit of a completed handshake under every listed option set (status, verdict, error records, the error text, the JSON document
      as a value and as text, the buffer entries of `evaluate_policy`, their closed form, everything written to stdout).
    `policyaudit.norm <strs>`: `_normalize_error_field` as printed.
    `policyaudit.errstr <subset> <n> <field req opt act>…`: `error_str` of `_get_errors` for the given records.
    `policyaudit.builtin <name>`: `load_builtin_policy` over the regenerated table.
    `policyaudit.list <verbose> <colors>`: `list_builtin_policies` (change logs left empty) and the buffer entries / status of `-L`.
    `policyaudit.make <host> <port> <client> <clientHost> <windows> <path> <today> <absent|present|denied:msg> <peer: 9 tokens>`: `make_policy`.
    `policyaudit.fail <cfg> <vmsgs> <connect|parse> <text>`: the two endings without a banner report. -/
def policyAuditOp (op : String) (args : List String) : Option J :=
  match op with
  | "policyaudit.run" =>
    match args with
    | cfgs :: vm :: h :: p :: cl :: ch :: w :: nv :: od :: rest => do
      let cfgs ← (cfgs.splitOn ",").mapM decCfg
      let vmsgs ← decStrs vm
      let c ← decConf [h, p, cl, ch, w]
      let nv ← decStr nv; let od ← decBool od
      let pol ← decPolicy (rest.take 11)
      let peer ← decPeer (rest.drop 11)
      let pi : PolicyInfo := { policy := pol, nameAndVersion := nv, outdated := od }
      let res := verdictOf pi peer
      pure (jok (.obj [
        ("passed", .bool res.1), ("errors", jerrs res.2),
        ("errstr", .str (errorStr pol.allowSubset res.2)),
        ("doc", jdocPA (docOf c pi res)),
        ("runs", .arr (cfgs.map fun cfg =>
          let r := policyAudit cfg vmsgs c pi (.completed peer)
          .obj [("status", .nat r.status), ("stdout", jwrites r.stdout), ("text", .str (Output.outText r.stdout)),
                ("entries", J.ofStrs (evalEntries cfg c pi peer)), ("closed", J.ofStrs (closedEntriesOf cfg c pi res)),
                ("doctext", .str (docText cfg (docOf c pi res)))]))]))
    | _ => none
  | "policyaudit.norm" =>
    match args with
    | [l] => do let l ← decStrs l; pure (jok (.str (normField l)))
    | _ => none
  | "policyaudit.errstr" =>
    match args with
    | sub :: _n :: rest => do
      let sub ← decBool sub
      let rec go : List String → Option (List Pol.PErr)
        | [] => some []
        | f :: r :: o :: a :: more => do
          let f ← decStr f; let r ← decStrs r; let o ← decStrs o; let a ← decStrs a
          let tl ← go more
          pure ({ field := f, expectedRequired := r, expectedOptional := o, actual := a } :: tl)
        | _ => none
      let errs ← go rest
      pure (jok (.obj [("errstr", .str (errorStr sub errs)), ("blocks", J.ofStrs (errorBlocks sub errs)),
                       ("json", .str (Text.join (Pol.s ", ") (errs.map dumpErr)))]))
    | _ => none
  | "policyaudit.builtin" =>
    match args with
    | [n] => do
      let n ← decStr n
      pure (match loadBuiltin Gen.builtinPolicies n with
        | none => jok .null
        | some (.error e) => jerr e
        | some (.ok l) => jok (.obj [("name_and_version", .str l.info.nameAndVersion), ("outdated", .bool l.info.outdated), ("name", .str l.name),
                                     ("version", .str l.version), ("server", .bool l.server), ("policy", jpol l.info.policy)]))
    | _ => none
  | "policyaudit.list" =>
    match args with
    | [v, co] => do
      let v ← decBool v; let co ← decBool co
      pure (match listBuiltin Gen.builtinPolicies v (fun _ => []) with
        | .error e => jerr e
        | .ok (sv, cl) =>
          -- `-L` runs inside process_commandline: only -n and -v have reached the buffer (level info, not batch, not JSON)
          let cfg : Output.Cfg := { colors := co, verbose := v }
          let b := Output.exec cfg (listOps sv cl) {}
          jok (.obj [("server", J.ofStrs sv), ("client", J.ofStrs cl), ("stdout", jwrites b.out), ("text", .str (Output.outText b.out)),
                     ("status", .nat (listStatus sv cl))]))
    | _ => none
  | "policyaudit.make" =>
    match args with
    | h :: p :: cl :: ch :: w :: path :: today :: fs :: rest => do
      let c ← decConf [h, p, cl, ch, w]
      let path ← decStr path; let today ← decStr today; let fs ← decFileState fs
      let peer ← decPeer rest
      let r := makePolicy c path today peer fs
      pure (jok (.obj [("written", J.ofOpt .str r.written), ("printed", .str r.printed), ("status", .nat r.status)]))
    | _ => none
  | "policyaudit.fail" =>
    match args with
    | [cfg, vm, kind, t] => do
      let cfg ← decCfg cfg; let vmsgs ← decStrs vm; let t ← decStr t
      let pi : PolicyInfo := { policy := {}, nameAndVersion := [] }
      let e ← (if kind = "connect" then some (Ending.connectFailed t) else if kind = "parse" then some (Ending.parseFailed t) else none)
      let r := policyAudit cfg vmsgs {} pi e
      pure (jok (.obj [("status", .nat r.status), ("stdout", jwrites r.stdout), ("text", .str (Output.outText r.stdout))]))
    | _ => none
  | _ => none

end SshAudit.Driver
