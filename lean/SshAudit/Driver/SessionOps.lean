import SshAudit.Driver.WireOps
import SshAudit.Model.Session
namespace SshAudit.Driver
open SshAudit SshAudit.Session

def decHandshake : String → Option Handshake
  | "connectFailed" => some .connectFailed | "noBanner" => some .noBanner | "readError" => some .readError
  | "badFraming" => some .badFraming | "wrongPacketType" => some .wrongPacketType | "parseFailed" => some .parseFailed
  | "ok" => some .ok | _ => none

def decMode : String → Option Mode
  | "standard" => some .standard | "policy" => some .policy | "makePolicy" => some .makePolicy | _ => none

def decEvent (tok : String) : Option RecvEvent :=
  if tok = "t" then some .timeout else if tok = "e" then some .error
  else if tok = "d" then some (.data []) else if tok.startsWith "d" then (decBytes (String.ofList (tok.toList.drop 1))).map RecvEvent.data else none

def handshakeName : Handshake → String
  | .connectFailed => "connectFailed" | .noBanner => "noBanner" | .readError => "readError" | .badFraming => "badFraming"
  | .wrongPacketType => "wrongPacketType" | .parseFailed => "parseFailed" | .ok => "ok"

/-- line-protocol operations of the Session model -/
def sessionOp (op : String) (args : List String) : Option J :=
  match op, args with
  | "audit.end", [h, m, multi, st, passed] => do
    let h ← decHandshake h; let m ← decMode m; let multi ← decBool multi; let st ← decNat st; let passed ← decBool passed
    let e := auditEnd { mode := m, multiTarget := multi } h { reportStatus := st, policyPassed := passed }
    pure (jok (.obj [("status", .nat e.status), ("algReport", .bool e.algReport), ("viaSysExit", .bool e.viaSysExit)]))
  | "session.handshake", [evs] => do
    let evs ← if evs = "_" then some [] else (evs.splitOn ",").mapM decEvent
    let (h, k, s') := handshakeS { events := evs }
    pure (jok (.obj [("class", .str (handshakeName h).toList), ("recvs", .nat s'.recvs), ("stalls", .nat s'.stalls),
                     ("events_left", .nat s'.events.length),
                     ("kex", J.ofOpt (fun (k : Wire.Kex) => .arr [jbl k.kex, jbl k.key, jbl k.encS, jbl k.macS]) k)]))
  | _, _ => none

end SshAudit.Driver
