"""In-process scripted peers for ssh-audit: replaces the `socket`/`select` names inside
ssh_audit.ssh_socket and ssh_audit.dheat (monkey-patched from outside; /repo is not changed).

A `Server` is a reactive script (banner -> KEXINIT -> KEXDH_REPLY with a chosen host-key blob /
GEX_GROUP with a chosen modulus / raw bytes / close / stall).  Every connection is logged:
endpoint, bytes received from the tool, message types, close events.  `FakeNet` routes
connects by (ip, port) and logs getaddrinfo/connect calls.
"""
import contextlib
import io
import socket as real_socket
import struct
import sys
import threading
import types


def repo_imports():
    from ssh_audit.writebuf import WriteBuf
    return WriteBuf


def pkt(payload, pad=None, plen=None):
    padding = -(len(payload) + 5) % 8
    if padding < 4:
        padding += 8
    if pad is not None:
        padding = pad
    L = len(payload) + padding + 1 if plen is None else plen
    return struct.pack('>IB', L, padding) + payload + b'\x00' * padding


def sstr(b):
    if isinstance(b, str):
        b = b.encode()
    return struct.pack('>I', len(b)) + b


def mpint(n):
    if n == 0:
        return sstr(b'')
    L = 1
    while not (-(1 << (8 * L - 1)) <= n < (1 << (8 * L - 1))):
        L += 1
    return sstr((n % (1 << (8 * L))).to_bytes(L, 'big'))


def kexinit(kex, key, enc, mac, comp=('none',), lang=('',), enc_c=None, mac_c=None, cookie=b'\x11' * 16, follows=False, raw_lists=None):
    """KEXINIT payload including the message-type byte.  Names may be str or bytes."""
    def nl(l):
        return sstr(b','.join(x if isinstance(x, bytes) else x.encode() for x in l))
    lists = [kex, key, enc_c if enc_c is not None else enc, enc, mac_c if mac_c is not None else mac, mac, comp, comp, lang, lang]
    body = b''.join(nl(l) for l in lists) if raw_lists is None else raw_lists
    return b'\x14' + cookie + body + (b'\x01' if follows else b'\x00') + b'\x00\x00\x00\x00'


def rsa_blob(bits, e=65537, name='ssh-rsa', n=None):
    if n is None:
        n = (1 << (bits - 1)) | 1
    return sstr(name) + mpint(e) + mpint(n)


def ed25519_blob(pub=b'\x42' * 32):
    return sstr('ssh-ed25519') + sstr(pub)


def ed448_blob(pub=b'\x43' * 57):
    return sstr('ssh-ed448') + sstr(pub)


def ecdsa_blob(curve='nistp256', qlen=65):
    return sstr('ecdsa-sha2-' + curve) + sstr(curve) + sstr(b'\x04' + b'\x07' * (qlen - 1))


def dss_blob(bits=1024):
    return sstr('ssh-dss') + mpint((1 << (bits - 1)) | 0x65) + mpint((1 << 159) | 1) + mpint(2) + mpint((1 << (bits - 2)) | 3)


def cert_blob(kind, host_pub_fields, ca_blob, key_id=b'host', principals=b'', crit=b'', ext=b'', cert_type=2, serial=1):
    """OpenSSH certificate (PROTOCOL.certkeys): kind e.g. 'ssh-rsa-cert-v01@openssh.com'.
    host_pub_fields: the public-key fields of the certified key (already encoded)."""
    return (sstr(kind) + sstr(b'N' * 32) + host_pub_fields + struct.pack('>Q', serial) + struct.pack('>I', cert_type) + sstr(key_id)
            + sstr(principals) + struct.pack('>Q', 0) + struct.pack('>Q', 0xffffffffffffffff) + sstr(crit) + sstr(ext) + sstr(b'')
            + sstr(ca_blob) + sstr(b'signature'))


class HarnessHang(BaseException):
    """raised out of a fake socket when one run has made an absurd number of recv calls: the code under test is spinning (a BaseException, so that
    neither `except Exception` nor `except (Exception, SystemExit)` in the tool swallows it)"""


class Server:
    """Scripted SSH-2 server.
    hostkeys: {host-key type requested by the tool: blob | ('raw', bytes) | None (close) | callable(conn)}
    gex: callable(min, pref, max) -> bits | None (close) | ('raw', bytes) | ('p', int)
    script: optional callable(conn, event) overriding everything (event = ('connect',) | ('msg', type, payload))"""
    def __init__(self, banner=b'SSH-2.0-OpenSSH_8.0', kexinit_payload=None, hostkeys=None, gex=None, pre_banner=b'',
                 raw_after_banner=None, banner_eol=b'\r\n', segment=None, stall_after_banner=False, refuse=False,
                 close_on_connect=False, silent=False, probe_kexinit=None, rate_banner=True, close_after_send=False, rate_fault=None, sock_fault=None):
        self.banner = banner
        self.kexinit_payload = kexinit_payload
        self.hostkeys = hostkeys or {}
        self.gex = gex
        self.pre_banner = pre_banner
        self.raw_after_banner = raw_after_banner
        self.banner_eol = banner_eol
        self.segment = segment            # None | int (chunk size) | list of cut offsets
        self.stall_after_banner = stall_after_banner
        self.refuse = refuse
        self.close_on_connect = close_on_connect
        self.silent = silent
        self.probe_kexinit = probe_kexinit  # KEXINIT used on probe connections (default: same)
        self.rate_banner = rate_banner
        self.close_after_send = close_after_send   # the peer closes right after its banner / scripted bytes
        self.rate_fault = rate_fault      # socket-level fault on the non-blocking (rate check) connections: ('recv', errno) | ('connect', errno)
        self.sock_fault = sock_fault      # socket-level fault on blocking connection number k: ('recv', errno, k)
        self.log = []
        self.gexlog = []
        self.lock = threading.Lock()

    def new_conn(self, addr):
        with self.lock:
            c = Conn(self, addr, len(self.log))
            self.log.append(c)
        return c


class StagedServer(Server):
    """n-th connection is served by stages[min(n, last)]: e.g. a healthy handshake and first probe, then a fault"""
    def __init__(self, stages):
        super().__init__()
        self.stages = list(stages)

    def new_conn(self, addr):
        with self.lock:
            st = self.stages[min(len(self.log), len(self.stages) - 1)]
            c = Conn(st, addr, len(self.log))
            self.log.append(c)
        return c


class Conn:
    def __init__(self, srv, addr, index):
        self.srv = srv
        self.addr = addr
        self.index = index
        self.out = []
        self.inbuf = b''
        self.received = b''
        self.got_banner = False
        self.closed = False          # server closed its side
        self.client_closed = False
        self.msgs = []
        self.client_kex = None
        if srv.close_on_connect:
            self.closed = True
            return
        if srv.silent:
            return
        first = srv.pre_banner + srv.banner + srv.banner_eol
        rest = b''
        if srv.raw_after_banner is not None:
            rest = srv.raw_after_banner
        elif srv.kexinit_payload is not None and not srv.stall_after_banner:
            k = srv.kexinit_payload if (index == 0 or srv.probe_kexinit is None) else srv.probe_kexinit
            rest = pkt(k)
        self.push(first, rest)
        if getattr(srv, 'close_after_send', False):
            self.closed = True

    def push(self, *chunks):
        seg = self.srv.segment
        for data in chunks:
            if not data:
                continue
            if seg is None:
                self.out.append(data)
            elif isinstance(seg, int):
                self.out.extend(data[i:i + seg] for i in range(0, len(data), seg))
            else:
                cuts = [0] + [c for c in seg if 0 < c < len(data)] + [len(data)]
                self.out.extend(data[a:b] for a, b in zip(cuts, cuts[1:]) if b > a)

    def feed(self, data, dead=False):
        if dead:
            self.dead_buf = getattr(self, 'dead_buf', b'') + data
            if not self.got_banner:
                i = self.dead_buf.find(b'\n')
                if i < 0:
                    return
                self.got_banner = True
                self.dead_buf = self.dead_buf[i + 1:]
            while len(self.dead_buf) >= 5:
                plen, pad = struct.unpack('>IB', self.dead_buf[:5])
                if len(self.dead_buf) < 4 + plen:
                    return
                payload = self.dead_buf[5:4 + plen - pad]
                self.dead_buf = self.dead_buf[4 + plen:]
                if payload:
                    self.msgs.append(payload[0])
            return
        self.received += data
        self.inbuf += data
        if not self.got_banner:
            i = self.inbuf.find(b'\n')
            if i < 0:
                return
            self.got_banner = True
            self.inbuf = self.inbuf[i + 1:]
        while len(self.inbuf) >= 5:
            plen, pad = struct.unpack('>IB', self.inbuf[:5])
            if len(self.inbuf) < 4 + plen:
                return
            payload = self.inbuf[5:4 + plen - pad]
            self.inbuf = self.inbuf[4 + plen:]
            self.handle(payload)

    def handle(self, p):
        t = p[0]
        self.msgs.append(t)
        srv = self.srv
        if t == 20:
            from ssh_audit.ssh2_kex import SSH2_Kex
            try:
                self.client_kex = SSH2_Kex.parse(None, p[1:])
            except Exception:
                self.client_kex = None
        elif t == 30:
            hk = self.client_kex.key_algorithms[0] if self.client_kex else None
            blob = srv.hostkeys.get(hk)
            if callable(blob):
                blob = blob(self)
            if blob is None:
                self.closed = True
                return
            if isinstance(blob, tuple) and blob[0] == 'raw':
                self.push(blob[1])
                return
            if isinstance(blob, tuple) and blob[0] == 'stall':
                return
            if isinstance(blob, tuple) and blob[0] == 'close':
                self.closed = True
                return
            self.push(pkt(bytes([31]) + sstr(blob) + mpint(12345) + sstr(b'sig')))
        elif t == 34:
            mn, pf, mx = struct.unpack('>III', p[1:13])
            srv.gexlog.append((mn, pf, mx))
            g = srv.gex
            if isinstance(g, dict):     # a group policy of its own per group-exchange algorithm (the one the client's KEXINIT names first)
                g = g.get(self.client_kex.kex_algorithms[0] if self.client_kex and self.client_kex.kex_algorithms else None)
            bits = g(mn, pf, mx) if g else None
            if bits is None:
                self.closed = True
                return
            if isinstance(bits, tuple) and bits[0] == 'raw':
                self.push(bits[1])
                return
            if isinstance(bits, tuple) and bits[0] == 'stall':
                return
            pnum = bits[1] if isinstance(bits, tuple) else ((1 << (bits - 1)) | (0x17 if bits > 5 else 1))
            self.push(pkt(bytes([31]) + mpint(pnum) + mpint(2)))
        elif t == 32:
            hk = self.client_kex.key_algorithms[0] if self.client_kex else None
            blob = srv.hostkeys.get(hk) or ed25519_blob()
            if callable(blob):
                blob = blob(self)
            if isinstance(blob, tuple):
                if blob[0] == 'raw':
                    self.push(blob[1])
                if blob[0] == 'close':
                    self.closed = True
                return
            self.push(pkt(bytes([33]) + sstr(blob) + mpint(777) + sstr(b'sig')))


class FakeSock:
    def __init__(self, net, af):
        self.net = net
        self.af = af
        self.conn = None
        self.timeout = None
        self.closed = False
        self.peer = None

    def settimeout(self, t):
        self.timeout = t

    def setblocking(self, b):
        self.timeout = None if b else 0.0

    def setsockopt(self, *a):
        pass

    def connect(self, addr):
        with self.net.lock:
            self.net.connects.append(addr)
            self.net.open_socks.append(self)
        gate = self.net.gate
        if gate is not None:
            gate(('connect', addr))
        srv = self.net.route(addr)
        if srv is None or srv.refuse:
            raise ConnectionRefusedError(111, 'Connection refused')
        self.conn = srv.new_conn(addr)
        with self.net.lock:
            self.net.cur_open += 1
            self.net.max_open = max(self.net.max_open, self.net.cur_open)

    def connect_ex(self, addr):
        self.via_ex = True
        try:
            self.connect(addr)
        except OSError as e:
            return e.errno
        rf = getattr(self.conn.srv, 'rate_fault', None)
        if rf and rf[0] == 'connect':
            self.conn = None
            with self.net.lock:
                self.net.cur_open -= 1
            return rf[1]
        return 0

    def pending_error(self):
        """a socket-level error the next recv() raises (select reports such a socket as readable)"""
        if self.conn is None:
            return None
        if getattr(self, 'via_ex', False):
            rf = getattr(self.conn.srv, 'rate_fault', None)
            return rf[1] if rf and rf[0] == 'recv' else None
        sf = getattr(self.conn.srv, 'sock_fault', None)
        return sf[1] if sf and sf[0] == 'recv' and sf[2] == self.conn.index else None

    def send(self, data):
        if self.conn is None:
            raise BrokenPipeError(32, 'Broken pipe')
        if self.conn.closed:
            # the peer is gone: what the tool tried to send is still logged (message types only), nothing is answered
            self.conn.feed(bytes(data), dead=True)
            raise BrokenPipeError(32, 'Broken pipe')
        self.conn.feed(bytes(data))
        return len(data)

    def recv(self, n):
        if self.conn is None:
            raise OSError(107, 'Transport endpoint is not connected')
        gate = self.net.gate
        if gate is not None:
            gate(('recv', self.conn.addr))
        self.net.recv_calls += 1
        if self.net.recv_calls > self.net.max_recv_calls:
            raise HarnessHang('more than %d recv calls in one run' % self.net.max_recv_calls)
        pe = self.pending_error()
        if pe is not None:
            import os as _os
            raise OSError(pe, _os.strerror(pe))
        if self.conn.out:
            d = self.conn.out.pop(0)
            if len(d) > n:
                self.conn.out.insert(0, d[n:])
                d = d[:n]
            return d
        if self.conn.closed:
            return b''
        if self.timeout is None:
            # a blocking socket on which no timeout was ever set: against a peer that has gone quiet this read never returns (seed C09-8)
            raise HarnessHang('recv() on a socket without a timeout while the peer is silent: the read would block for ever')
        self.net.timeouts += 1
        raise real_socket.timeout('timed out')

    def shutdown(self, how):
        if self.conn is None:
            raise OSError(107, 'Transport endpoint is not connected')

    def close(self):
        if self.conn is not None and not self.closed:
            with self.net.lock:
                self.net.cur_open -= 1
        self.closed = True
        if self.conn:
            self.conn.client_closed = True

    def fileno(self):
        return id(self) % 100000

    def bind(self, addr):
        with self.net.lock:
            self.net.binds.append((int(self.af), addr))
        self.bound = addr

    def listen(self, *a):
        self.listening = True
        with self.net.lock:
            self.net.listeners.append(self)

    def accept(self):
        """a scripted client (net.clients: Server-like objects that speak first) connects to the listening socket"""
        if not getattr(self, 'listening', False):
            raise OSError('not a listening socket')
        with self.net.lock:
            if not self.net.clients:
                raise BlockingIOError(11, 'no client is connecting')
            peer, addr = self.net.clients.pop(0)
        c = FakeSock(self.net, self.af)
        c.conn = peer.new_conn(addr)
        with self.net.lock:
            self.net.accepted.append(addr)
            self.net.open_socks.append(c)
            self.net.cur_open += 1
            self.net.max_open = max(self.net.max_open, self.net.cur_open)
        return c, addr


class FakeNet:
    def __init__(self, servers, resolver=None):
        """servers: {(ip, port): Server} or {ip: Server};  resolver: callable(host, port, family) -> addrinfo list"""
        self.servers = servers
        self.connects = []
        self.resolves = []
        self.resolver = resolver
        self.open_socks = []
        self.recv_calls = 0
        self.max_recv_calls = 400000
        self.timeouts = 0
        self.gate = None
        self.binds, self.listeners, self.accepted = [], [], []
        self.clients = []            # [(Server-like peer, (ip, port))]: clients that will connect to a listening socket (client audits, -c)
        self.select_calls = 0
        self.cur_open = 0
        self.max_open = 0
        self.lock = threading.Lock()

    def route(self, addr):
        return self.servers.get((addr[0], addr[1])) or self.servers.get(addr[0])

    def module(self):
        m = types.ModuleType('fakesocket')
        for k in dir(real_socket):
            if k.isupper() or k in ('error', 'timeout', 'gaierror', 'herror'):
                setattr(m, k, getattr(real_socket, k))
        m.socket = lambda af=real_socket.AF_INET, st=real_socket.SOCK_STREAM, *a: FakeSock(self, af)

        def gai(host, port, family=0, stype=0, *a):
            with self.lock:
                self.resolves.append((host, port, int(family)))
            if self.resolver:
                return self.resolver(host, port, family)
            try:
                import ipaddress
                ip = ipaddress.ip_address(host)
                af = real_socket.AF_INET6 if ip.version == 6 else real_socket.AF_INET
                if family not in (0, af):
                    raise real_socket.gaierror(-9, 'Address family for hostname not supported')
                return [(af, real_socket.SOCK_STREAM, 6, '', (host, port) if af == real_socket.AF_INET else (host, port, 0, 0))]
            except ValueError:
                pass
            raise real_socket.gaierror(-2, 'Name or service not known')
        m.getaddrinfo = gai
        return m

    def unclosed(self):
        return [s for s in self.open_socks if s.conn is not None and not s.closed]


class DetRandom:
    """Deterministic stand-in for random.SystemRandom in ssh_audit.kexdh (small exponents: fast)."""
    def randrange(self, a, b=None):
        if b is None:
            a, b = 0, a
        if b <= a:
            raise ValueError('empty range for randrange() (%d, %d, %d)' % (a, b, b - a))
        return a + 1 if a + 1 < b else a


@contextlib.contextmanager
def patched(net, fake_time=True):
    import ssh_audit.ssh_socket as ss
    import ssh_audit.dheat as dh
    import ssh_audit.kexdh as kd
    m = net.module()
    old = (ss.socket, dh.socket, dh.select, kd.random, dh.time)
    old_ss_select = ss.select
    ss.socket = m
    lsel = types.ModuleType('fakeselect_listen')

    def lselect(r, w, x, t=None):
        # listen_and_accept() waits on the file numbers of its listening sockets: one of them becomes readable when a scripted client is waiting
        net.select_calls += 1
        if net.select_calls > 20000:
            raise HarnessHang('more than 20000 select() calls while waiting for a client')
        if net.clients:
            fds = [f for f in r if any(l.fileno() == f for l in net.listeners)]
            return fds[:1], [], []
        return [], [], []
    lsel.select = lselect
    ss.select = lsel
    dh.socket = m
    sel = types.ModuleType('fakeselect')

    def select(r, w, x, t=None):
        rl = [s for s in r if s.conn and (s.conn.out or s.conn.closed or s.pending_error() is not None)]
        return rl, [], []
    sel.select = select
    dh.select = sel
    rnd = types.ModuleType('fakerandom')
    rnd.SystemRandom = DetRandom
    kd.random = rnd
    if fake_time:
        # a clock that advances 10 ms per reading: the 1.5 s rate test ends after a bounded number of iterations
        clk = types.ModuleType('faketime')
        state = {'t': 1000.0}

        def now():
            state['t'] += 0.01
            return state['t']
        clk.time = now
        clk.sleep = lambda s: None
        dh.time = clk
    try:
        yield
    finally:
        ss.socket, dh.socket, dh.select, kd.random, dh.time = old
        ss.select = old_ss_select


def reset_dbs():
    """Drop this thread's private database copies (what a fresh process would start with)."""
    from ssh_audit.ssh2_kexdb import SSH2_KexDB
    from ssh_audit.ssh1_kexdb import SSH1_KexDB
    SSH2_KexDB.thread_exit()
    SSH1_KexDB.thread_exit()


class StrictStdout(io.StringIO):
    """stdout as a user's UTF-8 terminal or pipe has it: text that cannot be encoded (a lone surrogate, as `surrogateescape` decoding of
    peer bytes produces) raises UnicodeEncodeError in write(), as `print` to a real stream would — a StringIO accepts anything"""
    def write(self, s):
        s.encode('utf-8')
        return super().write(s)


def run_main(argv, net, fresh=True, fake_time=True):
    """Run ssh-audit's main() the way the wrapper script ssh-audit.py does; returns (exit_code, stdout)."""
    from ssh_audit import ssh_audit as sa, exitcodes
    import traceback
    if fresh:
        reset_dbs()
        from ssh_audit.ssh2_kexdb import SSH2_KexDB
        from ssh_audit.ssh1_kexdb import SSH1_KexDB
        SSH2_KexDB.DB_PER_THREAD.clear()
        SSH1_KexDB.DB_PER_THREAD.clear()
    buf = StrictStdout()
    old = sys.stdout, sys.argv
    sys.stdout = buf
    sys.argv = ['ssh-audit.py'] + list(argv)
    try:
        with patched(net, fake_time=fake_time):
            try:
                try:
                    code = sa.main()
                except Exception:
                    code = exitcodes.UNKNOWN_ERROR
                    print(traceback.format_exc())
            except SystemExit as e:
                code = e.code
            except HarnessHang as e:
                code = 'HANG'
                print('\nHARNESS: run aborted, the code under test does not terminate (%s)' % e)
    finally:
        sys.stdout, sys.argv = old
    return code, buf.getvalue()


def simple_server(kex=('curve25519-sha256',), key=('ssh-ed25519',), enc=('aes256-ctr',), mac=('hmac-sha2-256',),
                  banner=b'SSH-2.0-OpenSSH_8.0', hostkeys=None, gex=None, **kw):
    if hostkeys is None:
        hostkeys = {}
        for k in key:
            if k == 'ssh-ed25519':
                hostkeys[k] = ed25519_blob()
            elif k in ('ssh-rsa', 'rsa-sha2-256', 'rsa-sha2-512'):
                hostkeys[k] = rsa_blob(3072)
    return Server(banner=banner, kexinit_payload=kexinit(kex, key, enc, mac), hostkeys=hostkeys, gex=gex, **kw)
