/- Helper lemmas for the host-key model (C11).  Core Lean only. -/
import SshAudit.Model.HostKey
import SshAudit.Lemmas.Mpint
import SshAudit.Lemmas.Report
namespace SshAudit.HostKey
open SshAudit SshAudit.Wire

/-! ### `__get_bytes` against the spec-side `string` encoder -/

theorem u32_length (v : Nat) : (Spec.u32 v).length = 4 := by simp [Spec.u32]
theorem u64_length (v : Nat) : (Spec.u64 v).length = 8 := by simp [Spec.u64]

theorem getBytes_sstr (b rest : Bytes) (h : b.length < 2 ^ 32) :
    getBytes (Spec.sstr b ++ rest) = .ok (b, b.length, rest) := by
  unfold getBytes Spec.sstr
  have hl : (Spec.u32 b.length).length = 4 := u32_length _
  have hnl : ¬ ((Spec.u32 b.length ++ b ++ rest).length < 4) := by simp [hl]
  rw [if_neg hnl]
  simp only [List.append_assoc]
  rw [List.take_left' hl, List.drop_left' hl]
  have hv : ofBE (natsOf (Spec.u32 b.length)) = b.length := by
    unfold Spec.u32
    rw [natsOf_bytesOf _ (toBE_lt _ 4), ofBE_toBE]
    exact Nat.mod_eq_of_lt (by simpa using h)
  rw [hv, List.take_left' rfl, List.drop_left' rfl]

theorem getBytes_sstr_nil (b : Bytes) (h : b.length < 2 ^ 32) : getBytes (Spec.sstr b) = .ok (b, b.length, []) := by
  have := getBytes_sstr b [] h
  rwa [List.append_nil] at this

theorem drop_u64 (v : Nat) (rest : Bytes) : (Spec.u64 v ++ rest).drop 8 = rest := List.drop_left' (u64_length v)
theorem drop_u64_u64 (v w : Nat) (rest : Bytes) : (Spec.u64 v ++ (Spec.u64 w ++ rest)).drop 16 = rest := by
  have : (Spec.u64 v ++ (Spec.u64 w ++ rest)) = (Spec.u64 v ++ Spec.u64 w) ++ rest := by simp
  rw [this]
  exact List.drop_left' (by simp [u64_length])

theorem take_u32 (v : Nat) (rest : Bytes) : (Spec.u32 v ++ rest).take 4 = Spec.u32 v := List.take_left' (u32_length v)
theorem drop_u32 (v : Nat) (rest : Bytes) : (Spec.u32 v ++ rest).drop 4 = rest := List.drop_left' (u32_length v)

theorem hexInt_u32 (v : Nat) (h : v < 2 ^ 32) : hexInt (Spec.u32 v) = .ok v := by
  unfold hexInt
  have hne : (Spec.u32 v).isEmpty = false := by
    cases hq : Spec.u32 v with
    | nil => have := u32_length v; rw [hq] at this; simp at this
    | cons a t => rfl
  rw [hne]
  simp only [Bool.false_eq_true, if_false]
  unfold Spec.u32
  rw [natsOf_bytesOf _ (toBE_lt _ 4), ofBE_toBE, Nat.mod_eq_of_lt (by simpa using h)]

theorem hexInt_of_ne_nil (b : Bytes) (h : b ≠ []) : ∃ v, hexInt b = .ok v := by
  unfold hexInt
  cases b with
  | nil => exact absurd rfl h
  | cons a t => exact ⟨_, rfl⟩

/-! ### `mpint` of a positive number -/

/-- the magnitude bytes of `mpint n` -/
def mpBody (n : Nat) : Bytes := bytesOf (toBE n (bitLen n / 8 + 1))

theorem mpBody_length (n : Nat) : (mpBody n).length = bitLen n / 8 + 1 := by simp [mpBody]

theorem mpBody_ne_nil (n : Nat) : mpBody n ≠ [] := by
  intro h
  have := mpBody_length n
  rw [h] at this
  simp at this

theorem mpint_pos (n : Nat) (h : 0 < n) : Spec.mpint n = Spec.sstr (mpBody n) := by
  unfold Spec.mpint mpBody
  rw [if_neg (by omega)]

theorem lt_pow_of_bitLen (n : Nat) : n < 256 ^ (bitLen n / 8 + 1) := by
  have h1 := lt_two_pow_bitLen n
  have h2 : (2:Nat) ^ bitLen n ≤ 2 ^ (8 * (bitLen n / 8 + 1)) := Nat.pow_le_pow_right (by decide) (by omega)
  rw [Nat.pow_mul, show (2:Nat) ^ 8 = 256 by decide] at h2
  omega

/-- the encoder is value-preserving: the bytes of `mpint n` denote `n` … -/
theorem mpBody_value (n : Nat) : ofBE (natsOf (mpBody n)) = n := by
  unfold mpBody
  rw [natsOf_bytesOf _ (toBE_lt _ _), ofBE_toBE, Nat.mod_eq_of_lt (lt_pow_of_bitLen n)]

/-- … and its first byte has the sign bit clear (a positive two's-complement number) -/
theorem mpBody_head (n : Nat) : ∃ b t, natsOf (mpBody n) = b :: t ∧ b < 128 := by
  unfold mpBody
  rw [natsOf_bytesOf _ (toBE_lt _ _)]
  have hh := toBE_head n (bitLen n / 8)
  cases hq : toBE n (bitLen n / 8 + 1) with
  | nil => rw [hq] at hh; simp at hh
  | cons b t =>
    rw [hq] at hh
    simp only [List.head?_cons, Option.some.injEq] at hh
    refine ⟨b, t, rfl, ?_⟩
    have h1 := lt_two_pow_bitLen n
    have h2 : (2:Nat) ^ bitLen n ≤ 2 ^ (8 * (bitLen n / 8) + 7) := Nat.pow_le_pow_right (by decide) (by omega)
    have h3 : (2:Nat) ^ (8 * (bitLen n / 8) + 7) = 128 * 256 ^ (bitLen n / 8) := by
      rw [Nat.pow_add, Nat.pow_mul, show (2:Nat) ^ 8 = 256 by decide, show (2:Nat) ^ 7 = 128 by decide, Nat.mul_comm]
    have h4 : n / 256 ^ (bitLen n / 8) < 128 := by
      rw [Nat.div_lt_iff_lt_mul (Nat.pow_pos (by decide))]; omega
    rw [hh]
    exact Nat.lt_of_le_of_lt (Nat.mod_le _ _) h4

/-! ### `__adjust_key_size` -/

theorem adjust_even (n : Nat) (h : n % 2 = 0) : adjustKeySize n = n * 8 := by
  unfold adjustKeySize
  simp only
  rw [Nat.mul_div_cancel _ (by decide : 0 < 8)]
  simp [h]

theorem adjust_odd (n : Nat) (h : n % 2 = 1) : adjustKeySize n = n * 8 - 8 := by
  unfold adjustKeySize
  simp only
  rw [Nat.mul_div_cancel _ (by decide : 0 < 8)]
  simp [h]

theorem adjust_shownBits (k : Nat) : adjustKeySize (k / 8 + 1) = Spec.shownBits k := by
  unfold Spec.shownBits
  by_cases h : (k / 8) % 2 = 0
  · rw [if_pos h, adjust_odd _ (by omega)]; omega
  · rw [if_neg h, adjust_even _ (by omega)]; omega

/-! ### certificates -/

/-- the part of `__parse_ca_key` that looks inside the signature key -/
def caInfo (caKey : Bytes) : Except Exn (Str × Nat) := do
  let (tb, _, c) ← getBytes caKey
  let caType ← asciiDecode tb
  if caType = tEd25519 then pure (caType, 32)
  else do
    let (_, _, c) ← getBytes c
    let (n, nLen, _) ← getBytes c
    if Text.startsWith caType pEcdsa ∧ nLen > 0 then
      match n with
      | [] => .error .index
      | b :: _ => if b = 4 then pure (caType, (nLen - 1) / 2) else pure (caType, nLen)
    else pure (caType, nLen)

/-- everything of a certificate after the certified key's own fields -/
def certTail (certType : Nat) (f : Spec.CertFields) (ca : Bytes) : Bytes :=
  Spec.u64 f.serial ++ (Spec.u32 certType ++ (Spec.sstr f.keyId ++ (Spec.sstr f.principals ++
    (Spec.u64 f.validAfter ++ (Spec.u64 f.validBefore ++ (Spec.sstr f.crit ++ (Spec.sstr f.ext ++ (Spec.sstr f.reserved ++ (Spec.sstr ca ++ Spec.sstr f.sig)))))))))

theorem certBlob_eq (kind : Str) (pub : Bytes) (ct : Nat) (f : Spec.CertFields) (ca : Bytes) :
    Spec.certBlob kind pub ct f ca = Spec.sstr (Spec.ascii kind) ++ (Spec.sstr f.nonce ++ (pub ++ certTail ct f ca)) := rfl

theorem parseCaKey_tail (f : Spec.CertFields) (ca : Bytes) (hf : f.fits) (hca : ca.length < 2 ^ 32) :
    parseCaKey (certTail 2 f ca) = caInfo ca := by
  obtain ⟨_, h2, h3, h4, h5, h6⟩ := hf
  unfold parseCaKey certTail caInfo
  simp only [drop_u64, take_u32, drop_u32, hexInt_u32 2 (by decide), bind, Except.bind, if_true,
    getBytes_sstr _ _ h2, getBytes_sstr _ _ h3, drop_u64_u64, getBytes_sstr _ _ h4, getBytes_sstr _ _ h5, getBytes_sstr _ _ h6,
    getBytes_sstr _ _ hca]
  rfl

theorem parseCaKey_tail_other (ct : Nat) (hct : ct ≠ 2) (hlt : ct < 2 ^ 32) (f : Spec.CertFields) (ca : Bytes) :
    parseCaKey (certTail ct f ca) = .ok ([], 0) := by
  unfold parseCaKey certTail
  simp only [drop_u64, take_u32, drop_u32, hexInt_u32 ct hlt, bind, Except.bind, hct, if_false, pure, Except.pure]

theorem ascii_rsa : asciiDecode (Spec.ascii (s "ssh-rsa")) = .ok tRsa := by decide +kernel
theorem len_rsa : (Spec.ascii (s "ssh-rsa")).length < 2 ^ 32 := by decide +kernel
theorem ascii_ed25519 : asciiDecode (Spec.ascii (s "ssh-ed25519")) = .ok tEd25519 := by decide +kernel
theorem len_ed25519 : (Spec.ascii (s "ssh-ed25519")).length < 2 ^ 32 := by decide +kernel
theorem ascii_ed448 : asciiDecode (Spec.ascii (s "ssh-ed448")) = .ok tEd448 := by decide +kernel
theorem len_ed448 : (Spec.ascii (s "ssh-ed448")).length < 2 ^ 32 := by decide +kernel

theorem caInfo_rsa (e n : Nat) (he : 0 < e) (hn : 0 < n) (hel : bitLen e / 8 + 1 < 2 ^ 32) (hnl : bitLen n / 8 + 1 < 2 ^ 32) :
    caInfo (Spec.rsaBlob e n) = .ok (tRsa, bitLen n / 8 + 1) := by
  unfold caInfo Spec.rsaBlob
  rw [mpint_pos e he, mpint_pos n hn]
  have h3 : ¬ (tRsa = tEd25519) := by decide +kernel
  have h5 : Text.startsWith tRsa pEcdsa = false := by decide +kernel
  simp only [List.append_assoc, getBytes_sstr _ _ len_rsa, bind, Except.bind, ascii_rsa, h3, if_false,
    getBytes_sstr _ _ (show (mpBody e).length < 2 ^ 32 by rw [mpBody_length]; exact hel),
    getBytes_sstr_nil _ (show (mpBody n).length < 2 ^ 32 by rw [mpBody_length]; exact hnl), h5, Bool.false_eq_true, false_and,
    pure, Except.pure, mpBody_length]

theorem caInfo_ed25519 (pk : Bytes) : caInfo (Spec.ed25519Blob pk) = .ok (tEd25519, 32) := by
  unfold caInfo Spec.ed25519Blob
  simp only [getBytes_sstr _ _ len_ed25519, bind, Except.bind, ascii_ed25519, if_true, pure, Except.pure]

def curves : List Str := [s "nistp256", s "nistp384", s "nistp521"]

theorem caInfo_ecdsa (curve : Str) (hc : curve ∈ curves) (x y : Bytes) (hl : 1 + (x.length + y.length) < 2 ^ 32) :
    caInfo (Spec.ecdsaBlob curve x y) = .ok (s "ecdsa-sha2-" ++ curve, (x.length + y.length) / 2) := by
  have hfacts : (Spec.ascii (s "ecdsa-sha2-" ++ curve)).length < 2 ^ 32 ∧ (Spec.ascii curve).length < 2 ^ 32 ∧
      asciiDecode (Spec.ascii (s "ecdsa-sha2-" ++ curve)) = .ok (s "ecdsa-sha2-" ++ curve) ∧
      ¬ (s "ecdsa-sha2-" ++ curve = tEd25519) ∧ Text.startsWith (s "ecdsa-sha2-" ++ curve) pEcdsa = true := by
    simp only [curves, List.mem_cons, List.not_mem_nil, or_false] at hc
    rcases hc with rfl | rfl | rfl <;> decide +kernel
  obtain ⟨l1, l2, ha, hne, hp⟩ := hfacts
  unfold caInfo Spec.ecdsaBlob
  have hq : ((4 : UInt8) :: (x ++ y)).length < 2 ^ 32 := by simp only [List.length_cons, List.length_append]; omega
  have hq2 : ((4 : UInt8) :: (x ++ y)).length = x.length + y.length + 1 := by simp
  simp only [List.append_assoc, getBytes_sstr _ _ l1, bind, Except.bind, ha, hne, if_false, getBytes_sstr _ _ l2,
    getBytes_sstr_nil _ hq, hp, true_and, pure, Except.pure]
  rw [hq2]
  simp

/-! ### whole blobs -/

theorem parse_rsa (e n : Nat) (he : 0 < e) (hn : 0 < n) (hel : bitLen e / 8 + 1 < 2 ^ 32) (hnl : bitLen n / 8 + 1 < 2 ^ 32) :
    parseHostKey (Spec.rsaBlob e n) = .ok { keyType := tRsa, nLen := bitLen n / 8 + 1, caType := [], caNLen := 0 } := by
  unfold parseHostKey Spec.rsaBlob
  rw [mpint_pos e he, mpint_pos n hn]
  have h1 : Text.startsWith tRsa pRsaCert = false := by decide +kernel
  have h2 : Text.startsWith tRsa pEdCert = false := by decide +kernel
  have h3 : ¬ (tRsa = tEd25519) := by decide +kernel
  have h4 : ¬ (tRsa = tEd448) := by decide +kernel
  obtain ⟨ve, hve⟩ := hexInt_of_ne_nil _ (mpBody_ne_nil e)
  obtain ⟨vn, hvn⟩ := hexInt_of_ne_nil _ (mpBody_ne_nil n)
  simp only [List.append_assoc, getBytes_sstr _ _ len_rsa, bind, Except.bind, ascii_rsa, h1, h2, h3, h4, if_false, Bool.false_eq_true,
    pure, Except.pure, or_self,
    getBytes_sstr _ _ (show (mpBody e).length < 2 ^ 32 by rw [mpBody_length]; exact hel),
    getBytes_sstr_nil _ (show (mpBody n).length < 2 ^ 32 by rw [mpBody_length]; exact hnl), hve, hvn, mpBody_length]

theorem parse_ed25519 (pk : Bytes) (hne : pk ≠ []) (hl : pk.length < 2 ^ 32) :
    parseHostKey (Spec.ed25519Blob pk) = .ok { keyType := tEd25519, nLen := 32, caType := [], caNLen := 0 } := by
  unfold parseHostKey Spec.ed25519Blob
  have h1 : Text.startsWith tEd25519 pRsaCert = false := by decide +kernel
  have h2 : Text.startsWith tEd25519 pEdCert = false := by decide +kernel
  obtain ⟨v, hv⟩ := hexInt_of_ne_nil _ hne
  simp only [getBytes_sstr _ _ len_ed25519, bind, Except.bind, ascii_ed25519, h1, h2, if_false, if_true, Bool.false_eq_true,
    pure, Except.pure, or_self, getBytes_sstr_nil _ hl, hv]

theorem parse_ed448 (pk : Bytes) (hne : pk ≠ []) (hl : pk.length < 2 ^ 32) :
    parseHostKey (Spec.ed448Blob pk) = .ok { keyType := tEd448, nLen := 57, caType := [], caNLen := 0 } := by
  unfold parseHostKey Spec.ed448Blob
  have h1 : Text.startsWith tEd448 pRsaCert = false := by decide +kernel
  have h2 : Text.startsWith tEd448 pEdCert = false := by decide +kernel
  have h3 : ¬ (tEd448 = tEd25519) := by decide +kernel
  obtain ⟨v, hv⟩ := hexInt_of_ne_nil _ hne
  simp only [getBytes_sstr _ _ len_ed448, bind, Except.bind, ascii_ed448, h1, h2, h3, if_false, if_true, Bool.false_eq_true,
    pure, Except.pure, or_self, getBytes_sstr_nil _ hl, hv]

theorem ascii_rsaCert : asciiDecode (Spec.ascii Spec.rsaCertKind) = .ok Spec.rsaCertKind := by decide +kernel
theorem len_rsaCert : (Spec.ascii Spec.rsaCertKind).length < 2 ^ 32 := by decide +kernel
theorem ascii_edCert : asciiDecode (Spec.ascii Spec.edCertKind) = .ok Spec.edCertKind := by decide +kernel
theorem len_edCert : (Spec.ascii Spec.edCertKind).length < 2 ^ 32 := by decide +kernel

/-- an RSA certificate: the nonce is skipped, `e`, `n` are read, then the CA key is looked up behind the variable-length fields -/
theorem parse_rsaCert (e n ct : Nat) (f : Spec.CertFields) (ca : Bytes) (he : 0 < e) (hn : 0 < n)
    (hel : bitLen e / 8 + 1 < 2 ^ 32) (hnl : bitLen n / 8 + 1 < 2 ^ 32) (hnonce : f.nonce.length < 2 ^ 32) :
    parseHostKey (Spec.rsaCert e n ct f ca) =
      (parseCaKey (certTail ct f ca)).map (fun c => { keyType := Spec.rsaCertKind, nLen := bitLen n / 8 + 1, caType := c.1, caNLen := c.2 }) := by
  unfold Spec.rsaCert
  rw [certBlob_eq, mpint_pos e he, mpint_pos n hn]
  unfold parseHostKey
  have h1 : Text.startsWith Spec.rsaCertKind pRsaCert = true := by decide +kernel
  have h3 : ¬ (Spec.rsaCertKind = tEd25519) := by decide +kernel
  have h4 : ¬ (Spec.rsaCertKind = tEd448) := by decide +kernel
  obtain ⟨ve, hve⟩ := hexInt_of_ne_nil _ (mpBody_ne_nil e)
  obtain ⟨vn, hvn⟩ := hexInt_of_ne_nil _ (mpBody_ne_nil n)
  simp only [List.append_assoc, getBytes_sstr _ _ len_rsaCert, bind, Except.bind, ascii_rsaCert, h1, h3, h4, if_false, if_true,
    pure, Except.pure, true_or, getBytes_sstr _ _ hnonce,
    getBytes_sstr _ _ (show (mpBody e).length < 2 ^ 32 by rw [mpBody_length]; exact hel),
    getBytes_sstr _ _ (show (mpBody n).length < 2 ^ 32 by rw [mpBody_length]; exact hnl), hve, hvn, mpBody_length]
  cases parseCaKey (certTail ct f ca) <;> rfl

/-- an Ed25519 certificate: the nonce is read where an exponent would be, the public key where a modulus would be -/
theorem parse_edCert (pk : Bytes) (ct : Nat) (f : Spec.CertFields) (ca : Bytes) (hpk : pk ≠ []) (hpl : pk.length < 2 ^ 32)
    (hnn : f.nonce ≠ []) (hnonce : f.nonce.length < 2 ^ 32) :
    parseHostKey (Spec.edCert pk ct f ca) =
      (parseCaKey (certTail ct f ca)).map (fun c => { keyType := Spec.edCertKind, nLen := pk.length, caType := c.1, caNLen := c.2 }) := by
  unfold Spec.edCert
  rw [certBlob_eq]
  unfold parseHostKey
  have h1 : Text.startsWith Spec.edCertKind pRsaCert = false := by decide +kernel
  have h2 : Text.startsWith Spec.edCertKind pEdCert = true := by decide +kernel
  have h3 : ¬ (Spec.edCertKind = tEd25519) := by decide +kernel
  have h4 : ¬ (Spec.edCertKind = tEd448) := by decide +kernel
  obtain ⟨ve, hve⟩ := hexInt_of_ne_nil _ hnn
  obtain ⟨vn, hvn⟩ := hexInt_of_ne_nil _ hpk
  simp only [getBytes_sstr _ _ len_edCert, bind, Except.bind, ascii_edCert, h1, h2, h3, h4, if_false, if_true,
    pure, Except.pure, or_true, getBytes_sstr _ _ hnonce, getBytes_sstr _ _ hpl, hve, hvn, Bool.false_eq_true]
  cases parseCaKey (certTail ct f ca) <;> rfl

theorem recvReply_kexReply (blob f sig : Bytes) (hb : blob.length < 2 ^ 32) (hf : f.length < 2 ^ 32) (hs : sig.length < 2 ^ 32) :
    recvReply (Spec.kexReply blob f sig) = (parseHostKey blob).map (fun p => (blob, p)) := by
  unfold recvReply Spec.kexReply
  simp only [getBytes_sstr _ _ hb, getBytes_sstr _ _ hf, getBytes_sstr_nil _ hs, bind, Except.bind, pure, Except.pure]
  cases parseHostKey blob <;> rfl

end SshAudit.HostKey
