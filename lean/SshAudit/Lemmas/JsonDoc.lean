/-
  Helper lemmas for `Props/C15JsonDoc.lean`: the modelled `json.loads` reads back what the modelled `json.dumps` writes, for every
  value and every white-space layout (`Fmt`), re-using the string / number lemmas of `Props/C05File.lean`.
-/
import SshAudit.Props.C05File
import SshAudit.Lemmas.HostKey
import SshAudit.Model.JsonDoc
set_option linter.unusedSimpArgs false
set_option linter.unusedVariables false
namespace SshAudit.JsonDoc
open SshAudit SshAudit.PolicyFile.Json SshAudit.C05File

/-! ### induction over values -/

mutual
theorem Val.ind {P : Val → Prop} (hnull : P .null) (hbool : ∀ b, P (.bool b)) (hint : ∀ i, P (.int i)) (hstr : ∀ v, P (.str v))
    (harr : ∀ xs, (∀ x ∈ xs, P x) → P (.arr xs)) (hobj : ∀ kvs, (∀ kv ∈ kvs, P kv.2) → P (.obj kvs)) : ∀ v, P v
  | .null => hnull
  | .bool b => hbool b
  | .int i => hint i
  | .str v => hstr v
  | .arr xs => harr xs (Val.indL hnull hbool hint hstr harr hobj xs)
  | .obj kvs => hobj kvs (Val.indM hnull hbool hint hstr harr hobj kvs)
theorem Val.indL {P : Val → Prop} (hnull : P .null) (hbool : ∀ b, P (.bool b)) (hint : ∀ i, P (.int i)) (hstr : ∀ v, P (.str v))
    (harr : ∀ xs, (∀ x ∈ xs, P x) → P (.arr xs)) (hobj : ∀ kvs, (∀ kv ∈ kvs, P kv.2) → P (.obj kvs)) : ∀ xs : List Val, ∀ x ∈ xs, P x
  | [], _, h => nomatch h
  | y :: r, x, h => by
    rcases List.mem_cons.mp h with e | e
    · exact e ▸ Val.ind hnull hbool hint hstr harr hobj y
    · exact Val.indL hnull hbool hint hstr harr hobj r x e
theorem Val.indM {P : Val → Prop} (hnull : P .null) (hbool : ∀ b, P (.bool b)) (hint : ∀ i, P (.int i)) (hstr : ∀ v, P (.str v))
    (harr : ∀ xs, (∀ x ∈ xs, P x) → P (.arr xs)) (hobj : ∀ kvs, (∀ kv ∈ kvs, P kv.2) → P (.obj kvs)) :
    ∀ kvs : List (Str × Val), ∀ kv ∈ kvs, P kv.2
  | [], _, h => nomatch h
  | (k, v) :: r, x, h => by
    rcases List.mem_cons.mp h with e | e
    · exact e ▸ Val.ind hnull hbool hint hstr harr hobj v
    · exact Val.indM hnull hbool hint hstr harr hobj r x e
end

/-! ### the list forms of the mutual definitions -/

theorem toJVs_eq (xs : List Val) : toJVs xs = xs.map toJV := by
  induction xs with
  | nil => rfl
  | cons x r ih => simp [toJVs, ih]

theorem toJVm_eq (kvs : List (Str × Val)) : toJVm kvs = kvs.map (fun kv => (kv.1, toJV kv.2)) := by
  induction kvs with
  | nil => rfl
  | cons x r ih => obtain ⟨k, v⟩ := x; simp [toJVm, ih]

theorem sortKeysL_eq (xs : List Val) : sortKeysL xs = xs.map sortKeys := by
  induction xs with
  | nil => rfl
  | cons x r ih => simp [sortKeysL, ih]

theorem sortKeysM_eq (kvs : List (Str × Val)) : sortKeysM kvs = kvs.map (fun kv => (kv.1, sortKeys kv.2)) := by
  induction kvs with
  | nil => rfl
  | cons x r ih => obtain ⟨k, v⟩ := x; simp [sortKeysM, ih]

/-! ### white space -/

def AllWs (w : Str) : Prop := ∀ c ∈ w, isWs c = true

/-- the layout writes nothing but JSON white space between the tokens -/
def Fmt.Ws (fm : Fmt) : Prop := ∀ n, AllWs (fm.opn n) ∧ AllWs (fm.sep n) ∧ AllWs (fm.cls n)

theorem allWs_nil : AllWs [] := fun _ h => nomatch h

theorem allWs_nl (n : Nat) : AllWs (nl n) := by
  intro c hc
  simp only [nl, List.mem_cons, List.mem_replicate] at hc
  rcases hc with rfl | ⟨_, rfl⟩ <;> decide

theorem compact_ws : compact.Ws := fun _ => ⟨allWs_nil, by intro c hc; simp [compact] at hc; subst hc; decide, allWs_nil⟩
theorem indent4_ws : indent4.Ws := fun n => ⟨allWs_nl n, allWs_nl n, allWs_nl (n - 1)⟩

theorem skipWs_ws (w : Str) (c : Char) (t : Str) (hw : AllWs w) (hc : isWs c = false) : skipWs (w ++ c :: t) = c :: t := by
  induction w with
  | nil => exact skipWs_nonws c t hc
  | cons x xs ih =>
    have hx := hw x (by simp)
    have := ih (fun y hy => hw y (List.mem_cons_of_mem _ hy))
    simp only [skipWs] at this ⊢
    simp [List.dropWhile, hx, this]

theorem skipWs_ws_nil (w : Str) (hw : AllWs w) : skipWs w = [] := by
  induction w with
  | nil => rfl
  | cons x xs ih =>
    have hx := hw x (by simp)
    have := ih (fun y hy => hw y (List.mem_cons_of_mem _ hy))
    simp only [skipWs] at this ⊢
    simp [List.dropWhile, hx, this]

/-! ### numbers -/

/-- the text after a number does not continue it -/
def NumEnd (rest : Str) : Prop := ∀ c t, rest = c :: t → Text.isDigit c = false ∧ c ≠ '.' ∧ c ≠ 'e' ∧ c ≠ 'E'

theorem numEnd_nil : NumEnd [] := fun _ _ h => nomatch h

theorem numEnd_cons (c : Char) (t : Str) (h : Text.isDigit c = false ∧ c ≠ '.' ∧ c ≠ 'e' ∧ c ≠ 'E') : NumEnd (c :: t) := by
  intro c' t' e; cases e; exact h

theorem numEnd_ws (w : Str) (c : Char) (t : Str) (hw : AllWs w) (hc : Text.isDigit c = false ∧ c ≠ '.' ∧ c ≠ 'e' ∧ c ≠ 'E') :
    NumEnd (w ++ c :: t) := by
  cases w with
  | nil => exact numEnd_cons c t hc
  | cons x xs =>
    apply numEnd_cons
    have hx := hw x (by simp)
    simp only [isWs, Bool.or_eq_true, decide_eq_true_eq] at hx
    rcases hx with ((h | h) | h) | h <;> subst h <;> decide

theorem takeWhile_digits_end (ds rest : Str) (hds : ∀ x ∈ ds, Text.isDigit x = true) (hr : NumEnd rest) :
    (ds ++ rest).takeWhile Text.isDigit = ds ∧ (ds ++ rest).dropWhile Text.isDigit = rest := by
  cases rest with
  | nil =>
    have h1 := List.takeWhile_append_of_pos (p := Text.isDigit) (l₁ := ds) (l₂ := []) hds
    have h2 := List.dropWhile_append_of_pos (p := Text.isDigit) (l₁ := ds) (l₂ := []) hds
    simpa using And.intro h1 h2
  | cons c t => exact takeWhile_digits ds t c hds (hr c t rfl).1

/-- a non-negative integer followed by text that does not continue it -/
theorem parseNum_nat (neg : Bool) (n : Nat) (rest : Str) (hr : NumEnd rest) :
    parseNum neg (Text.natToStr n ++ rest) = .ok (.int (if neg then - (n : Int) else (n : Int)), rest) := by
  obtain ⟨d, ds, e, h0⟩ := natToStr_shape n
  have hdig := natToStr_digits n
  obtain ⟨h1, h2⟩ := takeWhile_digits_end _ rest hdig hr
  have hv := digitsVal_natToStr n
  unfold parseNum
  simp only [h1, h2]
  rw [e] at hv ⊢
  simp only
  by_cases hd : d = '0'
  · have := h0 hd; subst this; subst hd
    cases rest with
    | nil => simp [hv]
    | cons c t =>
      obtain ⟨_, hcp, hce1, hce2⟩ := hr c t rfl
      cases t with
      | nil => simp [hce1, hce2, hv]
      | cons x xs => simp [hce1, hce2, hcp, hv]
  · cases rest with
    | nil => simp [hd, hv]
    | cons c t =>
      obtain ⟨_, hcp, hce1, hce2⟩ := hr c t rfl
      cases t with
      | nil => simp [hd, hce1, hce2, hv]
      | cons x xs => simp [hd, hce1, hce2, hcp, hv]

theorem parseValue_neg (f : Nat) (d : Char) (rest : Str) (hd : Text.isDigit d = true) :
    parseValue (f + 1) ('-' :: d :: rest) = parseNum true (d :: rest) := by
  have hI : d ≠ 'I' := digit_ne hd (by decide)
  have e1 : (['-', 'I', 'n', 'f', 'i', 'n', 'i', 't', 'y'] : Str).isPrefixOf ('-' :: d :: rest) = false := by
    have : ('I' == d) = false := by simp [Ne.symm hI]
    simp [List.isPrefixOf, this]
  have d1 : ¬ ('-' = '"') := by decide
  have d2 : ¬ ('-' = '{') := by decide
  have d3 : ¬ ('-' = '[') := by decide
  simp only [parseValue, d1, d2, d3, if_false, s_null, s_true, s_false, s_nan, s_inf, s_ninf, e1,
    isPrefixOf_cons_ne _ _ '-' (d :: rest) (by decide : '-' ≠ 'n'),
    isPrefixOf_cons_ne _ _ '-' (d :: rest) (by decide : '-' ≠ 't'),
    isPrefixOf_cons_ne _ _ '-' (d :: rest) (by decide : '-' ≠ 'f'),
    isPrefixOf_cons_ne _ _ '-' (d :: rest) (by decide : '-' ≠ 'N'),
    isPrefixOf_cons_ne _ _ '-' (d :: rest) (by decide : '-' ≠ 'I'), Bool.false_eq_true, if_true]

/-- **an integer written by `int.__repr__` reads back** -/
theorem parseValue_int (f : Nat) (i : Int) (rest : Str) (hr : NumEnd rest) :
    parseValue (f + 1) (dumpInt i ++ rest) = .ok (.int i, rest) := by
  cases i with
  | ofNat n =>
    obtain ⟨d, ds, e, _⟩ := natToStr_shape n
    have hd : Text.isDigit d = true := natToStr_digits n d (by rw [e]; simp)
    have := parseNum_nat false n rest hr
    simp only [dumpInt]
    rw [e] at this ⊢
    rw [List.cons_append, parseValue_digit f d _ hd]
    simpa using this
  | negSucc n =>
    obtain ⟨d, ds, e, _⟩ := natToStr_shape (n + 1)
    have hd : Text.isDigit d = true := natToStr_digits (n + 1) d (by rw [e]; simp)
    have := parseNum_nat true (n + 1) rest hr
    simp only [dumpInt]
    rw [e] at this ⊢
    rw [List.cons_append, List.cons_append, parseValue_neg f d _ hd]
    rw [List.cons_append] at this
    rw [this]
    simp [Int.negSucc_eq]

/-! ### the first character of a rendered value -/

/-- a character a value can start with: not white space, not a closing bracket, not a comma -/
abbrev Starter (c : Char) : Prop := isWs c = false ∧ c ≠ ']' ∧ c ≠ '}' ∧ c ≠ ','

theorem starter_digit {d : Char} (hd : Text.isDigit d = true) : Starter d :=
  ⟨digit_not_ws hd, digit_ne hd (by decide), digit_ne hd (by decide), digit_ne hd (by decide)⟩

theorem render_head (fm : Fmt) (n : Nat) (v : Val) : ∃ c r, render fm n v = c :: r ∧ Starter c := by
  cases v with
  | null => exact ⟨'n', _, by rw [render], by decide⟩
  | bool b => cases b
              · exact ⟨'f', _, by rw [render], by decide⟩
              · exact ⟨'t', _, by rw [render], by decide⟩
  | int i =>
    cases i with
    | ofNat k =>
      obtain ⟨d, ds, e, _⟩ := natToStr_shape k
      exact ⟨d, ds, by rw [render]; simp only [dumpInt]; exact e, starter_digit (natToStr_digits k d (by rw [e]; simp))⟩
    | negSucc k => exact ⟨'-', _, by rw [render]; rfl, by decide⟩
  | str t => exact ⟨'"', _, by rw [render]; rfl, by decide⟩
  | arr xs =>
    cases xs with
    | nil => exact ⟨'[', _, by rw [render], by decide⟩
    | cons x r => exact ⟨'[', _, by rw [render], by decide⟩
  | obj kvs =>
    cases kvs with
    | nil => exact ⟨'{', _, by rw [render], by decide⟩
    | cons kv r => obtain ⟨k, v⟩ := kv; exact ⟨'{', _, by rw [render], by decide⟩

/-! ### fuel -/

mutual
/-- fuel `parseValue` needs on the rendering of a value -/
def fuelV : Val → Nat
  | .arr xs => 1 + fuelL xs
  | .obj kvs => 1 + fuelM kvs
  | .null => 1
  | .bool _ => 1
  | .int _ => 1
  | .str _ => 1
def fuelL : List Val → Nat
  | [] => 0
  | x :: r => 1 + fuelV x + fuelL r
def fuelM : List (Str × Val) → Nat
  | [] => 0
  | (_, v) :: r => 1 + fuelV v + fuelM r
end

theorem fuelV_pos (v : Val) : 1 ≤ fuelV v := by cases v <;> simp [fuelV] <;> omega

/-! ### the parser on rendered containers -/

theorem parseValue_lit (f : Nat) (rest : Str) :
    parseValue (f + 1) (['n', 'u', 'l', 'l'] ++ rest) = .ok (.null, rest) ∧
    parseValue (f + 1) (['t', 'r', 'u', 'e'] ++ rest) = .ok (.bool true, rest) ∧
    parseValue (f + 1) (['f', 'a', 'l', 's', 'e'] ++ rest) = .ok (.bool false, rest) := by
  refine ⟨?_, ?_, ?_⟩ <;> simp [parseValue, s_null, s_true, s_false, List.isPrefixOf]

theorem parseValue_arr_empty (f : Nat) (t r2 : Str) (h : skipWs t = ']' :: r2) : parseValue (f + 1) ('[' :: t) = .ok (.arr [], r2) := by
  have d1 : ¬ ('[' = '"') := by decide
  have d2 : ¬ ('[' = '{') := by decide
  simp only [parseValue, d1, d2, if_false, if_true, h]

theorem parseValue_arr_items (f : Nat) (t : Str) (c2 : Char) (r2 : Str) (h : skipWs t = c2 :: r2) (hc : c2 ≠ ']') :
    parseValue (f + 1) ('[' :: t) = (match parseElems f (c2 :: r2) with
      | .ok (xs, r) => .ok (.arr xs, r)
      | .error e => .error e) := by
  have d1 : ¬ ('[' = '"') := by decide
  have d2 : ¬ ('[' = '{') := by decide
  simp only [parseValue, d1, d2, if_false, if_true, h, hc]
  rfl

theorem parseValue_obj_empty (f : Nat) (t r2 : Str) (h : skipWs t = '}' :: r2) : parseValue (f + 1) ('{' :: t) = .ok (.obj [], r2) := by
  have d1 : ¬ ('{' = '"') := by decide
  simp only [parseValue, d1, if_false, if_true, h]

theorem parseValue_obj_items (f : Nat) (t : Str) (c2 : Char) (r2 : Str) (h : skipWs t = c2 :: r2) (hc : c2 ≠ '}') :
    parseValue (f + 1) ('{' :: t) = (match parseMembers f (c2 :: r2) with
      | .ok (kvs, r) => .ok (.obj kvs, r)
      | .error e => .error e) := by
  have d1 : ¬ ('{' = '"') := by decide
  simp only [parseValue, d1, if_false, if_true, h, hc]
  rfl

/-- the last element of an array -/
theorem parseElems_last (f : Nat) (t : Str) (v : JV) (w rest : Str) (hw : AllWs w)
    (hv : parseValue f t = .ok (v, w ++ ']' :: rest)) : parseElems (f + 1) t = .ok ([v], rest) := by
  simp only [parseElems, hv, skipWs_ws w ']' rest hw (by decide), if_true]

/-- an element followed by further elements -/
theorem parseElems_more (f : Nat) (t : Str) (v : JV) (w more : Str) (vs : List JV) (rest : Str) (hw : AllWs w)
    (y : Char) (r' : Str) (hmore : more = y :: r') (hy : isWs y = false)
    (hv : parseValue f t = .ok (v, ',' :: (w ++ more))) (hrest : parseElems f more = .ok (vs, rest)) :
    parseElems (f + 1) t = .ok (v :: vs, rest) := by
  have d1 : ¬ (',' = ']') := by decide
  simp only [parseElems, hv, skipWs_nonws ',' _ (by decide : isWs ',' = false), d1, if_false, if_true]
  rw [hmore, skipWs_ws w y r' hw hy, ← hmore, hrest]

/-- the last member of an object -/
theorem parseMembers_last' (f : Nat) (k : Str) (vt : Str) (x : Char) (xr : Str) (hx : vt = x :: xr) (hxw : isWs x = false)
    (v : JV) (w rest : Str) (hw : AllWs w)
    (hv : parseValue f (vt ++ (w ++ '}' :: rest)) = .ok (v, w ++ '}' :: rest)) :
    parseMembers (f + 1) (dumpStr k ++ colon ++ vt ++ (w ++ '}' :: rest)) = .ok ([(k, v)], rest) := by
  have e : dumpStr k ++ colon ++ vt ++ (w ++ '}' :: rest) = '"' :: (escBody k ++ '"' :: (':' :: ' ' :: (vt ++ (w ++ '}' :: rest)))) := by
    simp [dumpStr, colon, List.append_assoc]
  rw [e]
  simp only [parseMembers, parseStrBody_dumpStr, ne_eq, not_true_eq_false, if_false]
  rw [skipWs_nonws ':' _ (by decide)]
  simp only [skipWs_space]
  rw [hx, List.cons_append, skipWs_nonws x _ hxw, ← List.cons_append, ← hx, hv]
  simp only
  rw [skipWs_ws w '}' rest hw (by decide)]
  simp

/-- a member followed by further members -/
theorem parseMembers_more' (f : Nat) (k : Str) (vt : Str) (x : Char) (xr : Str) (hx : vt = x :: xr) (hxw : isWs x = false)
    (v : JV) (w more : Str) (kvs : List (Str × JV)) (rest : Str) (hw : AllWs w)
    (y : Char) (r' : Str) (hmore : more = y :: r') (hy : isWs y = false)
    (hv : parseValue f (vt ++ ',' :: (w ++ more)) = .ok (v, ',' :: (w ++ more)))
    (hrest : parseMembers f more = .ok (kvs, rest)) :
    parseMembers (f + 1) (dumpStr k ++ colon ++ vt ++ ',' :: (w ++ more)) = .ok ((k, v) :: kvs, rest) := by
  have e : dumpStr k ++ colon ++ vt ++ ',' :: (w ++ more) = '"' :: (escBody k ++ '"' :: (':' :: ' ' :: (vt ++ ',' :: (w ++ more)))) := by
    simp [dumpStr, colon, List.append_assoc]
  rw [e]
  simp only [parseMembers, parseStrBody_dumpStr, ne_eq, not_true_eq_false, if_false]
  rw [skipWs_nonws ':' _ (by decide)]
  simp only [skipWs_space]
  rw [hx, List.cons_append, skipWs_nonws x _ hxw, ← List.cons_append, ← hx, hv]
  simp only
  rw [skipWs_nonws ',' _ (by decide)]
  have d1 : ¬ (',' = '}') := by decide
  simp only [d1, if_false, if_true]
  rw [hmore, skipWs_ws w y r' hw hy, ← hmore, hrest]
  simp

/-! ### every value reads back -/

/-- the round-trip statement for one value: at any nesting level, with any sufficient fuel, before any text that does not continue a number -/
def Reads (fm : Fmt) (v : Val) : Prop :=
  ∀ n f rest, fuelV v ≤ f → NumEnd rest → parseValue f (render fm n v ++ rest) = .ok (toJV v, rest)

theorem numEnd_close (w : Str) (hw : AllWs w) (c : Char) (rest : Str) (hc : c = ']' ∨ c = '}') : NumEnd (w ++ c :: rest) := by
  apply numEnd_ws w c rest hw
  rcases hc with h | h <;> subst h <;> decide

theorem numEnd_comma (t : Str) : NumEnd (',' :: t) := numEnd_cons ',' t (by decide)

theorem parseElems_render (fm : Fmt) (hfm : fm.Ws) (n : Nat) (r : List Val) :
    ∀ (x : Val), (∀ y ∈ x :: r, Reads fm y) → ∀ (f : Nat), fuelL (x :: r) ≤ f → ∀ (rest : Str),
      parseElems f (render fm n x ++ (renderElems fm n r ++ (fm.cls n ++ ']' :: rest))) = .ok (toJV x :: toJVs r, rest) := by
  induction r with
  | nil =>
    intro x hP f hf rest
    obtain ⟨f', rfl⟩ : ∃ f', f = f' + 1 := ⟨f - 1, by simp only [fuelL] at hf; omega⟩
    have hx := hP x (by simp) n f' (fm.cls n ++ ']' :: rest) (by simp only [fuelL] at hf; omega) (numEnd_close _ (hfm n).2.2 _ _ (Or.inl rfl))
    simp only [renderElems, List.nil_append, toJVs]
    exact parseElems_last f' _ (toJV x) (fm.cls n) rest (hfm n).2.2 hx
  | cons y r' ih =>
    intro x hP f hf rest
    obtain ⟨f', rfl⟩ : ∃ f', f = f' + 1 := ⟨f - 1, by simp only [fuelL] at hf; omega⟩
    have hf' : fuelV x ≤ f' ∧ fuelL (y :: r') ≤ f' := by simp only [fuelL] at hf ⊢; omega
    obtain ⟨c, cr, hc, hst⟩ := render_head fm n y
    have e : renderElems fm n (y :: r') ++ (fm.cls n ++ ']' :: rest)
        = ',' :: (fm.sep n ++ (render fm n y ++ (renderElems fm n r' ++ (fm.cls n ++ ']' :: rest)))) := by
      simp only [renderElems, List.cons_append, List.append_assoc]
    rw [e]
    have hx := hP x (by simp) n f' (',' :: (fm.sep n ++ (render fm n y ++ (renderElems fm n r' ++ (fm.cls n ++ ']' :: rest))))) hf'.1 (numEnd_comma _)
    have hrest := ih y (fun z hz => hP z (List.mem_cons_of_mem _ hz)) f' hf'.2 rest
    have := parseElems_more f' _ (toJV x) (fm.sep n) _ _ rest (hfm n).2.1 c (cr ++ (renderElems fm n r' ++ (fm.cls n ++ ']' :: rest)))
      (by rw [hc]; rfl) hst.1 hx hrest
    simpa only [toJVs] using this

theorem parseMembers_render (fm : Fmt) (hfm : fm.Ws) (n : Nat) (r : List (Str × Val)) :
    ∀ (k : Str) (v : Val), Reads fm v → (∀ kv ∈ r, Reads fm kv.2) → ∀ (f : Nat), fuelM ((k, v) :: r) ≤ f → ∀ (rest : Str),
      parseMembers f (dumpStr k ++ colon ++ render fm n v ++ (renderMems fm n r ++ (fm.cls n ++ '}' :: rest)))
        = .ok ((k, toJV v) :: toJVm r, rest) := by
  induction r with
  | nil =>
    intro k v hv hP f hf rest
    obtain ⟨f', rfl⟩ : ∃ f', f = f' + 1 := ⟨f - 1, by simp only [fuelM] at hf; omega⟩
    obtain ⟨c, cr, hc, hst⟩ := render_head fm n v
    have hx := hv n f' (fm.cls n ++ '}' :: rest) (by simp only [fuelM] at hf; omega) (numEnd_close _ (hfm n).2.2 _ _ (Or.inr rfl))
    simp only [renderMems, List.nil_append, toJVm]
    exact parseMembers_last' f' k _ c cr hc hst.1 (toJV v) (fm.cls n) rest (hfm n).2.2 hx
  | cons kv2 r' ih =>
    obtain ⟨k2, v2⟩ := kv2
    intro k v hv hP f hf rest
    obtain ⟨f', rfl⟩ : ∃ f', f = f' + 1 := ⟨f - 1, by simp only [fuelM] at hf; omega⟩
    have hf' : fuelV v ≤ f' ∧ fuelM ((k2, v2) :: r') ≤ f' := by simp only [fuelM] at hf ⊢; omega
    obtain ⟨c, cr, hc, hst⟩ := render_head fm n v
    have e : renderMems fm n ((k2, v2) :: r') ++ (fm.cls n ++ '}' :: rest)
        = ',' :: (fm.sep n ++ (dumpStr k2 ++ colon ++ render fm n v2 ++ (renderMems fm n r' ++ (fm.cls n ++ '}' :: rest)))) := by
      simp only [renderMems, List.cons_append, List.append_assoc]
    rw [e]
    have hx := hv n f' (',' :: (fm.sep n ++ (dumpStr k2 ++ colon ++ render fm n v2 ++ (renderMems fm n r' ++ (fm.cls n ++ '}' :: rest))))) hf'.1 (numEnd_comma _)
    have hrest := ih k2 v2 (hP (k2, v2) (by simp)) (fun z hz => hP z (List.mem_cons_of_mem _ hz)) f' hf'.2 rest
    have := parseMembers_more' f' k _ c cr hc hst.1 (toJV v) (fm.sep n) _ _ rest (hfm n).2.1 '"'
      (escBody k2 ++ ['"'] ++ colon ++ render fm n v2 ++ (renderMems fm n r' ++ (fm.cls n ++ '}' :: rest)))
      (by simp [dumpStr, List.append_assoc]) (by decide) hx hrest
    simpa only [toJVm] using this

/-- **`parseValue` reads back the rendering of every value**, whatever the white-space layout -/
theorem reads (fm : Fmt) (hfm : fm.Ws) : ∀ v, Reads fm v := by
  apply Val.ind
  · intro n f rest hf _
    obtain ⟨f', rfl⟩ : ∃ f', f = f' + 1 := ⟨f - 1, by simp only [fuelV] at hf; omega⟩
    rw [render]; exact (parseValue_lit f' rest).1
  · intro b n f rest hf _
    obtain ⟨f', rfl⟩ : ∃ f', f = f' + 1 := ⟨f - 1, by simp only [fuelV] at hf; omega⟩
    cases b
    · rw [render]; exact (parseValue_lit f' rest).2.2
    · rw [render]; exact (parseValue_lit f' rest).2.1
  · intro i n f rest hf hr
    obtain ⟨f', rfl⟩ : ∃ f', f = f' + 1 := ⟨f - 1, by simp only [fuelV] at hf; omega⟩
    rw [render]; exact parseValue_int f' i rest hr
  · intro t n f rest hf _
    obtain ⟨f', rfl⟩ : ∃ f', f = f' + 1 := ⟨f - 1, by simp only [fuelV] at hf; omega⟩
    rw [render]; exact parseValue_str f' t rest
  · intro xs hP n f rest hf _
    obtain ⟨f', rfl⟩ : ∃ f', f = f' + 1 := ⟨f - 1, by simp only [fuelV] at hf; omega⟩
    cases xs with
    | nil =>
      rw [render]
      exact parseValue_arr_empty f' (']' :: rest) rest (skipWs_nonws _ _ (by decide))
    | cons x r =>
      obtain ⟨c, cr, hc, hst⟩ := render_head fm (n + 1) x
      have e : render fm n (.arr (x :: r)) ++ rest
          = '[' :: (fm.opn (n + 1) ++ (render fm (n + 1) x ++ (renderElems fm (n + 1) r ++ (fm.cls (n + 1) ++ ']' :: rest)))) := by
        rw [render]; simp only [List.cons_append, List.append_assoc, List.nil_append]
      rw [e]
      have hs : skipWs (fm.opn (n + 1) ++ (render fm (n + 1) x ++ (renderElems fm (n + 1) r ++ (fm.cls (n + 1) ++ ']' :: rest))))
          = c :: (cr ++ (renderElems fm (n + 1) r ++ (fm.cls (n + 1) ++ ']' :: rest))) := by
        rw [hc, List.cons_append]; exact skipWs_ws _ _ _ (hfm (n + 1)).1 hst.1
      rw [parseValue_arr_items f' _ c _ hs hst.2.1]
      have := parseElems_render fm hfm (n + 1) r x hP f' (by simp only [fuelV] at hf; omega) rest
      rw [hc, List.cons_append] at this
      rw [this]
      simp only [toJV, toJVs]
  · intro kvs hP n f rest hf _
    obtain ⟨f', rfl⟩ : ∃ f', f = f' + 1 := ⟨f - 1, by simp only [fuelV] at hf; omega⟩
    cases kvs with
    | nil =>
      rw [render]
      exact parseValue_obj_empty f' ('}' :: rest) rest (skipWs_nonws _ _ (by decide))
    | cons kv r =>
      obtain ⟨k, v⟩ := kv
      have e : render fm n (.obj ((k, v) :: r)) ++ rest
          = '{' :: (fm.opn (n + 1) ++ (dumpStr k ++ colon ++ render fm (n + 1) v ++ (renderMems fm (n + 1) r ++ (fm.cls (n + 1) ++ '}' :: rest)))) := by
        rw [render]; simp only [List.cons_append, List.append_assoc, List.nil_append]
      rw [e]
      have hd : dumpStr k ++ colon ++ render fm (n + 1) v ++ (renderMems fm (n + 1) r ++ (fm.cls (n + 1) ++ '}' :: rest))
          = '"' :: (escBody k ++ ['"'] ++ colon ++ render fm (n + 1) v ++ (renderMems fm (n + 1) r ++ (fm.cls (n + 1) ++ '}' :: rest))) := by
        simp [dumpStr, List.append_assoc]
      have hs : skipWs (fm.opn (n + 1) ++ (dumpStr k ++ colon ++ render fm (n + 1) v ++ (renderMems fm (n + 1) r ++ (fm.cls (n + 1) ++ '}' :: rest))))
          = '"' :: (escBody k ++ ['"'] ++ colon ++ render fm (n + 1) v ++ (renderMems fm (n + 1) r ++ (fm.cls (n + 1) ++ '}' :: rest))) := by
        rw [hd]; exact skipWs_ws _ _ _ (hfm (n + 1)).1 (by decide)
      rw [parseValue_obj_items f' _ '"' _ hs (by decide)]
      have := parseMembers_render fm hfm (n + 1) r k v (hP (k, v) (by simp)) (fun z hz => hP z (List.mem_cons_of_mem _ hz)) f'
        (by simp only [fuelV] at hf; omega) rest
      rw [hd] at this
      rw [this]
      simp only [toJV, toJVm]

/-! ### the fuel `loads` supplies is enough -/

theorem fuelL_le (fm : Fmt) (n : Nat) (r : List Val) (h : ∀ x ∈ r, ∀ m, fuelV x ≤ (render fm m x).length) :
    fuelL r ≤ (renderElems fm n r).length := by
  induction r with
  | nil => simp [fuelL]
  | cons x r ih =>
    have hx := h x (by simp) n
    have := ih (fun y hy => h y (List.mem_cons_of_mem _ hy))
    simp only [fuelL, renderElems, List.length_cons, List.length_append]; omega

theorem fuelM_le (fm : Fmt) (n : Nat) (r : List (Str × Val)) (h : ∀ kv ∈ r, ∀ m, fuelV kv.2 ≤ (render fm m kv.2).length) :
    fuelM r ≤ (renderMems fm n r).length := by
  induction r with
  | nil => simp [fuelM]
  | cons kv r ih =>
    obtain ⟨k, v⟩ := kv
    have hx : fuelV v ≤ (render fm n v).length := h (k, v) (by simp) n
    have := ih (fun y hy => h y (List.mem_cons_of_mem _ hy))
    simp only [fuelM, renderMems, List.length_cons, List.length_append]; omega

theorem fuelV_le (fm : Fmt) : ∀ v, ∀ n, fuelV v ≤ (render fm n v).length := by
  apply Val.ind
  · intro n; rw [render]; simp [fuelV]
  · intro b n; cases b <;> rw [render] <;> simp [fuelV]
  · intro i n
    obtain ⟨c, r, h, _⟩ := render_head fm n (.int i)
    rw [h]; simp [fuelV]
  · intro t n
    obtain ⟨c, r, h, _⟩ := render_head fm n (.str t)
    rw [h]; simp [fuelV]
  · intro xs hP n
    cases xs with
    | nil => rw [render]; simp [fuelV, fuelL]
    | cons x r =>
      have hx := hP x (by simp) (n + 1)
      have := fuelL_le fm (n + 1) r (fun y hy => hP y (List.mem_cons_of_mem _ hy))
      rw [render]; simp only [fuelV, fuelL, List.length_cons, List.length_append, List.length_nil]; omega
  · intro kvs hP n
    cases kvs with
    | nil => rw [render]; simp [fuelV, fuelM]
    | cons kv r =>
      obtain ⟨k, v⟩ := kv
      have hx : fuelV v ≤ (render fm (n + 1) v).length := hP (k, v) (by simp) (n + 1)
      have := fuelM_le fm (n + 1) r (fun y hy => hP y (List.mem_cons_of_mem _ hy))
      rw [render]; simp only [fuelV, fuelM, List.length_cons, List.length_append, List.length_nil]; omega

/-- **`json.loads` of a rendered value** -/
theorem loads_render (fm : Fmt) (hfm : fm.Ws) (v : Val) : loads (render fm 0 v) = .ok (toJV v) := by
  obtain ⟨c, r, hc, hst⟩ := render_head fm 0 v
  have hl := fuelV_le fm v 0
  have := reads fm hfm v 0 (2 * (render fm 0 v).length + 2) [] (by omega) numEnd_nil
  rw [List.append_nil] at this
  unfold loads
  have hs : skipWs (render fm 0 v) = render fm 0 v := by rw [hc]; exact skipWs_nonws c r hst.1
  rw [hs, this]
  simp [skipWs]

/-! ### `toJV` is injective -/

theorem toJV_inj : ∀ v w : Val, toJV v = toJV w → v = w := by
  apply Val.ind (P := fun v => ∀ w : Val, toJV v = toJV w → v = w)
  · intro w h; cases w <;> simp [toJV] at h ⊢
  · intro b w h; cases w <;> simp [toJV] at h ⊢; exact h
  · intro i w h; cases w <;> simp [toJV] at h ⊢; exact h
  · intro t w h; cases w <;> simp [toJV] at h ⊢; exact h
  · intro xs hP w h
    cases w with
    | arr ys =>
      simp only [toJV, JV.arr.injEq] at h
      congr 1
      induction xs generalizing ys with
      | nil => cases ys with
        | nil => rfl
        | cons y r => simp [toJVs] at h
      | cons x r ih =>
        cases ys with
        | nil => simp [toJVs] at h
        | cons y r' =>
          simp only [toJVs, List.cons.injEq] at h
          rw [hP x (by simp) y h.1, ih (fun z hz => hP z (List.mem_cons_of_mem _ hz)) r' h.2]
    | _ => simp [toJV] at h
  · intro kvs hP w h
    cases w with
    | obj kvs' =>
      simp only [toJV, JV.obj.injEq] at h
      congr 1
      induction kvs generalizing kvs' with
      | nil => cases kvs' with
        | nil => rfl
        | cons y r => obtain ⟨k, v⟩ := y; simp [toJVm] at h
      | cons x r ih =>
        obtain ⟨k, v⟩ := x
        cases kvs' with
        | nil => simp [toJVm] at h
        | cons y r' =>
          obtain ⟨k', v'⟩ := y
          simp only [toJVm, List.cons.injEq, Prod.mk.injEq] at h
          have e1 : v = v' := hP (k, v) (by simp) v' h.1.2
          rw [h.1.1, e1, ih (fun z hz => hP z (List.mem_cons_of_mem _ hz)) r' h.2]
    | _ => simp [toJV] at h

/-! ### the characters `json.dumps` writes -/

/-- `' '` … `'~'` -/
abbrev Printable (c : Char) : Prop := 0x20 ≤ c.toNat ∧ c.toNat < 0x7f

theorem printable_hexDigit_lt : ∀ k, k < 16 → Printable (hexDigit k) := by decide

theorem printable_hexDigit (k : Nat) : Printable (hexDigit k) := by
  have h : hexDigit k = hexDigit (k % 16) := by unfold hexDigit; rw [Nat.mod_mod]
  rw [h]; exact printable_hexDigit_lt _ (Nat.mod_lt _ (by decide))

theorem printable_hex4 (n : Nat) : ∀ c ∈ hex4 n, Printable c := by
  intro c hc
  simp only [hex4, List.mem_cons, List.not_mem_nil, or_false] at hc
  rcases hc with h | h | h | h <;> subst h <;> exact printable_hexDigit _

theorem printable_uesc (n : Nat) : ∀ x ∈ '\\' :: 'u' :: hex4 n, Printable x := by
  intro x hx
  simp only [List.mem_cons] at hx
  rcases hx with h | h | h
  · subst h; decide
  · subst h; decide
  · exact printable_hex4 _ x h

theorem printable_two (a b : Char) (ha : Printable a) (hb : Printable b) : ∀ x ∈ [a, b], Printable x := by
  intro x hx
  simp only [List.mem_cons, List.not_mem_nil, or_false] at hx
  rcases hx with h | h <;> subst h <;> assumption

theorem printable_escJ (c : Char) : ∀ x ∈ escJ c, Printable x := by
  intro x hx
  unfold escJ at hx
  split at hx
  · exact printable_two _ _ (by decide) (by decide) x hx
  split at hx
  · exact printable_two _ _ (by decide) (by decide) x hx
  split at hx
  · exact printable_two _ _ (by decide) (by decide) x hx
  split at hx
  · exact printable_two _ _ (by decide) (by decide) x hx
  split at hx
  · exact printable_two _ _ (by decide) (by decide) x hx
  split at hx
  · exact printable_two _ _ (by decide) (by decide) x hx
  split at hx
  · exact printable_two _ _ (by decide) (by decide) x hx
  split at hx
  · next h => simp only [List.mem_cons, List.not_mem_nil, or_false] at hx; subst hx; exact h
  split at hx
  · exact printable_uesc _ x hx
  · rcases List.mem_append.mp hx with h | h
    · exact printable_uesc _ x h
    · exact printable_uesc _ x h

theorem printable_escBody (v : Str) : ∀ x ∈ escBody v, Printable x := by
  induction v with
  | nil => intro x hx; simp [escBody] at hx
  | cons c cs ih =>
    intro x hx
    simp only [escBody, List.mem_append] at hx
    rcases hx with h | h
    · exact printable_escJ c x h
    · exact ih x h

theorem printable_dumpStr (v : Str) : ∀ x ∈ dumpStr v, Printable x := by
  intro x hx
  simp only [dumpStr, List.mem_cons, List.mem_append, List.not_mem_nil, or_false] at hx
  rcases hx with h | h | h
  · subst h; decide
  · exact printable_escBody v x h
  · subst h; decide

theorem printable_digit {c : Char} (h : Text.isDigit c = true) : Printable c := by
  simp only [Text.isDigit, Bool.and_eq_true, decide_eq_true_eq] at h
  have h1 := Char.le_def.mp h.1
  have h2 := Char.le_def.mp h.2
  have a1 : (48 : Nat) ≤ c.toNat := by simpa using UInt32.le_iff_toNat_le.mp h1
  have a2 : c.toNat ≤ 57 := by simpa using UInt32.le_iff_toNat_le.mp h2
  exact ⟨by omega, by omega⟩

theorem printable_dumpInt (i : Int) : ∀ x ∈ dumpInt i, Printable x := by
  intro x hx
  cases i with
  | ofNat n => exact printable_digit (natToStr_digits n x hx)
  | negSucc n =>
    simp only [dumpInt, List.mem_cons] at hx
    rcases hx with h | h
    · subst h; decide
    · exact printable_digit (natToStr_digits _ x h)

/-- every character the layout writes satisfies `Q` -/
def Fmt.Chars (fm : Fmt) (Q : Char → Prop) : Prop := ∀ n, (∀ c ∈ fm.opn n, Q c) ∧ (∀ c ∈ fm.sep n, Q c) ∧ (∀ c ∈ fm.cls n, Q c)

theorem renderElems_chars (fm : Fmt) (Q : Char → Prop) (hq : ∀ c, Printable c → Q c) (hfm : fm.Chars Q) (n : Nat) (r : List Val)
    (h : ∀ x ∈ r, ∀ m, ∀ c ∈ render fm m x, Q c) : ∀ c ∈ renderElems fm n r, Q c := by
  induction r with
  | nil => intro c hc; simp [renderElems] at hc
  | cons x r ih =>
    intro c hc
    simp only [renderElems, List.mem_cons, List.mem_append] at hc
    rcases hc with hc | (hc | hc) | hc
    · subst hc; exact hq _ (by decide)
    · exact (hfm n).2.1 c hc
    · exact h x (by simp) n c hc
    · exact ih (fun y hy => h y (List.mem_cons_of_mem _ hy)) c hc

theorem renderMems_chars (fm : Fmt) (Q : Char → Prop) (hq : ∀ c, Printable c → Q c) (hfm : fm.Chars Q) (n : Nat) (r : List (Str × Val))
    (h : ∀ kv ∈ r, ∀ m, ∀ c ∈ render fm m kv.2, Q c) : ∀ c ∈ renderMems fm n r, Q c := by
  induction r with
  | nil => intro c hc; simp [renderMems] at hc
  | cons kv r ih =>
    obtain ⟨k, v⟩ := kv
    intro c hc
    simp only [renderMems, colon, List.mem_cons, List.mem_append, List.not_mem_nil, or_false] at hc
    rcases hc with hc | (((hc | hc) | hc | hc) | hc) | hc
    · subst hc; exact hq _ (by decide)
    · exact (hfm n).2.1 c hc
    · exact hq _ (printable_dumpStr k c hc)
    · subst hc; exact hq _ (by decide)
    · subst hc; exact hq _ (by decide)
    · exact h (k, v) (by simp) n c hc
    · exact ih (fun y hy => h y (List.mem_cons_of_mem _ hy)) c hc

/-- every character of a rendering is a printable ASCII character or one the layout writes -/
theorem render_chars (fm : Fmt) (Q : Char → Prop) (hq : ∀ c, Printable c → Q c) (hfm : fm.Chars Q) :
    ∀ v, ∀ n, ∀ c ∈ render fm n v, Q c := by
  apply Val.ind
  · intro n c hc; rw [render] at hc
    simp only [List.mem_cons, List.not_mem_nil, or_false] at hc
    rcases hc with h | h | h | h <;> subst h <;> exact hq _ (by decide)
  · intro b n c hc; cases b <;> rw [render] at hc <;> simp only [List.mem_cons, List.not_mem_nil, or_false] at hc
    · rcases hc with h | h | h | h | h <;> subst h <;> exact hq _ (by decide)
    · rcases hc with h | h | h | h <;> subst h <;> exact hq _ (by decide)
  · intro i n c hc; rw [render] at hc; exact hq _ (printable_dumpInt i c hc)
  · intro t n c hc; rw [render] at hc; exact hq _ (printable_dumpStr t c hc)
  · intro xs hP n c hc
    cases xs with
    | nil => rw [render] at hc; simp only [List.mem_cons, List.not_mem_nil, or_false] at hc
             rcases hc with h | h <;> subst h <;> exact hq _ (by decide)
    | cons x r =>
      rw [render] at hc
      simp only [List.mem_cons, List.mem_append, List.not_mem_nil, or_false] at hc
      rcases hc with hc | (((hc | hc) | hc) | hc) | hc
      · subst hc; exact hq _ (by decide)
      · exact (hfm (n + 1)).1 c hc
      · exact hP x (by simp) (n + 1) c hc
      · exact renderElems_chars fm Q hq hfm (n + 1) r (fun y hy => hP y (List.mem_cons_of_mem _ hy)) c hc
      · exact (hfm (n + 1)).2.2 c hc
      · subst hc; exact hq _ (by decide)
  · intro kvs hP n c hc
    cases kvs with
    | nil => rw [render] at hc; simp only [List.mem_cons, List.not_mem_nil, or_false] at hc
             rcases hc with h | h <;> subst h <;> exact hq _ (by decide)
    | cons kv r =>
      obtain ⟨k, v⟩ := kv
      rw [render] at hc
      simp only [colon, List.mem_cons, List.mem_append, List.not_mem_nil, or_false] at hc
      rcases hc with hc | ((((((hc | hc) | hc | hc)) | hc) | hc) | hc) | hc
      · subst hc; exact hq _ (by decide)
      · exact (hfm (n + 1)).1 c hc
      · exact hq _ (printable_dumpStr k c hc)
      · subst hc; exact hq _ (by decide)
      · subst hc; exact hq _ (by decide)
      · exact hP (k, v) (by simp) (n + 1) c hc
      · exact renderMems_chars fm Q hq hfm (n + 1) r (fun y hy => hP y (List.mem_cons_of_mem _ hy)) c hc
      · exact (hfm (n + 1)).2.2 c hc
      · subst hc; exact hq _ (by decide)

/-! ### `sort_keys` -/

open SshAudit.HostKey (ltStr_irrefl ltStr_trans ltStr_total ltStr_asymm)

/-- keys in non-descending code-point order -/
def Sorted (l : List (Str × Val)) : Prop := l.Pairwise (fun a b => Text.ltStr b.1 a.1 = false)
/-- keys in strictly ascending code-point order -/
def StrictSorted (l : List (Str × Val)) : Prop := l.Pairwise (fun a b => Text.ltStr a.1 b.1 = true)

theorem insertKV_perm (kv : Str × Val) (l : List (Str × Val)) : (insertKV kv l).Perm (kv :: l) := by
  induction l with
  | nil => exact List.Perm.refl _
  | cons x r ih =>
    simp only [insertKV]
    split
    · exact (List.Perm.cons x ih).trans (List.Perm.swap kv x r)
    · exact List.Perm.refl _

theorem sortKV_perm (l : List (Str × Val)) : (sortKV l).Perm l := by
  induction l with
  | nil => exact List.Perm.refl _
  | cons x r ih => exact (insertKV_perm x (sortKV r)).trans (List.Perm.cons x ih)

theorem lt_of_lt_of_not_lt (b kv x : Str) (h1 : Text.ltStr b kv = true) (h2 : Text.ltStr x kv = false) : Text.ltStr b x = true := by
  by_cases e : x = kv
  · subst e; exact h1
  · rcases ltStr_total x kv e with h | h
    · rw [h] at h2; cases h2
    · exact ltStr_trans _ _ _ h1 h

theorem insertKV_sorted (kv : Str × Val) (l : List (Str × Val)) (h : Sorted l) : Sorted (insertKV kv l) := by
  induction l with
  | nil => simp [insertKV, Sorted]
  | cons x r ih =>
    have hx := List.pairwise_cons.mp h
    simp only [insertKV]
    split
    · next hlt =>
      refine List.pairwise_cons.mpr ⟨?_, ih hx.2⟩
      intro b hb
      rcases List.mem_cons.mp ((insertKV_perm kv r).mem_iff.mp hb) with e | e
      · subst e; exact ltStr_asymm _ _ hlt
      · exact hx.1 b e
    · next hnlt =>
      have hnlt' : Text.ltStr x.1 kv.1 = false := by simpa using hnlt
      refine List.pairwise_cons.mpr ⟨?_, h⟩
      intro b hb
      rcases List.mem_cons.mp hb with e | e
      · subst e; exact hnlt'
      · cases hbk : Text.ltStr b.1 kv.1 with
        | false => rfl
        | true =>
          have := lt_of_lt_of_not_lt _ _ _ hbk hnlt'
          rw [hx.1 b e] at this; cases this

theorem sortKV_sorted (l : List (Str × Val)) : Sorted (sortKV l) := by
  induction l with
  | nil => simp [sortKV, Sorted]
  | cons x r ih => exact insertKV_sorted x _ ih

theorem sortKV_keys_perm (l : List (Str × Val)) : ((sortKV l).map (·.1)).Perm (l.map (·.1)) := (sortKV_perm l).map _

/-- **distinct keys come out in strictly ascending order** -/
theorem sortKV_strict (l : List (Str × Val)) (hnd : (l.map (·.1)).Nodup) : StrictSorted (sortKV l) := by
  have hs := sortKV_sorted l
  have hnd' : ((sortKV l).map (·.1)).Nodup := (sortKV_keys_perm l).nodup_iff.mpr hnd
  have hne : (sortKV l).Pairwise (fun a b => a.1 ≠ b.1) := by
    rw [List.Nodup, List.pairwise_map] at hnd'; exact hnd'
  refine (hs.and hne).imp ?_
  intro a b hab
  rcases ltStr_total a.1 b.1 hab.2 with h | h
  · exact h
  · rw [hab.1] at h; cases h

theorem sortKV_of_sorted (l : List (Str × Val)) (h : Sorted l) : sortKV l = l := by
  induction l with
  | nil => rfl
  | cons x r ih =>
    have hx := List.pairwise_cons.mp h
    rw [sortKV, ih hx.2]
    cases r with
    | nil => rfl
    | cons y r' =>
      have := hx.1 y (by simp)
      simp [insertKV, this]

/-- **the order in which the items were inserted does not matter**: two item lists with the same (distinct-keyed) items sort to one list -/
theorem sortKV_perm_eq (l l' : List (Str × Val)) (hp : l.Perm l') (hnd : (l.map (·.1)).Nodup) : sortKV l = sortKV l' := by
  have hnd' : (l'.map (·.1)).Nodup := (hp.map _).nodup_iff.mp hnd
  have s1 : (sortKV l).Pairwise (fun (a b : Str × Val) => Text.ltStr a.1 b.1 = true) := sortKV_strict l hnd
  have s2 : (sortKV l').Pairwise (fun (a b : Str × Val) => Text.ltStr a.1 b.1 = true) := sortKV_strict l' hnd'
  refine List.Perm.eq_of_pairwise (le := fun (a b : Str × Val) => Text.ltStr a.1 b.1 = true) ?_ s1 s2
    ((sortKV_perm l).trans (hp.trans (sortKV_perm l').symm))
  intro a b _ _ h1 h2
  rw [ltStr_asymm _ _ h1] at h2; cases h2

theorem insertKV_map (g : Val → Val) (kv : Str × Val) (l : List (Str × Val)) :
    insertKV (kv.1, g kv.2) (l.map (fun x => (x.1, g x.2))) = (insertKV kv l).map (fun x => (x.1, g x.2)) := by
  induction l with
  | nil => rfl
  | cons x r ih =>
    simp only [List.map_cons, insertKV]
    split
    · simp [ih]
    · simp

theorem sortKV_map (g : Val → Val) (l : List (Str × Val)) :
    sortKV (l.map (fun x => (x.1, g x.2))) = (sortKV l).map (fun x => (x.1, g x.2)) := by
  induction l with
  | nil => rfl
  | cons x r ih => simp only [List.map_cons, sortKV, ih]; exact insertKV_map g x (sortKV r)

/-- **sorting is idempotent**: the value `json.loads` gives back is written as the same text -/
theorem sortKeys_idem : ∀ v, sortKeys (sortKeys v) = sortKeys v := by
  apply Val.ind
  · rfl
  · intro b; rfl
  · intro i; rfl
  · intro t; rfl
  · intro xs hP
    simp only [sortKeys, sortKeysL_eq, List.map_map]
    congr 1
    exact List.map_congr_left (fun x hx => hP x hx)
  · intro kvs hP
    simp only [sortKeys, sortKeysM_eq]
    congr 1
    rw [sortKV_map sortKeys, sortKV_of_sorted _ (sortKV_sorted _), ← sortKV_map sortKeys, List.map_map]
    congr 1
    exact List.map_congr_left (fun kv hkv => by simp only [Function.comp]; rw [hP kv hkv])

/-! ### distinct keys -/

theorem noDupL_iff (xs : List Val) : NoDupL xs ↔ ∀ x ∈ xs, x.NoDup := by
  induction xs with
  | nil => simp [NoDupL]
  | cons x r ih => simp [NoDupL, ih]

theorem noDupM_iff (kvs : List (Str × Val)) : NoDupM kvs ↔ ∀ kv ∈ kvs, kv.2.NoDup := by
  induction kvs with
  | nil => simp [NoDupM]
  | cons x r ih => obtain ⟨k, v⟩ := x; simp [NoDupM, ih]

theorem sortKeys_noDup : ∀ v : Val, v.NoDup → (sortKeys v).NoDup := by
  apply Val.ind (P := fun v => v.NoDup → (sortKeys v).NoDup)
  · intro h; exact h
  · intro b h; exact h
  · intro i h; exact h
  · intro t h; exact h
  · intro xs hP h
    simp only [Val.NoDup, noDupL_iff] at h
    simp only [sortKeys, Val.NoDup, noDupL_iff, sortKeysL_eq, List.mem_map]
    rintro y ⟨x, hx, rfl⟩
    exact hP x hx (h x hx)
  · intro kvs hP h
    simp only [Val.NoDup, noDupM_iff] at h
    simp only [sortKeys, Val.NoDup, noDupM_iff, sortKeysM_eq]
    constructor
    · refine (sortKV_keys_perm _).nodup_iff.mpr ?_
      have e : (kvs.map (fun kv => (kv.1, sortKeys kv.2))).map (·.1) = kvs.map (·.1) := by
        rw [List.map_map]; exact List.map_congr_left (fun _ _ => rfl)
      rw [e]; exact h.1
    · intro kv hkv
      have := (sortKV_perm _).mem_iff.mp hkv
      obtain ⟨x, hx, rfl⟩ := List.mem_map.mp this
      exact hP x hx (h.2 x hx)

/-! ### Python's reading of a parse tree: a `dict` keeps one value per key -/

mutual
/-- the Python value of a parse tree: every object becomes a `dict` (`PolicyFile.Json.dictOf`: last value, first position) -/
def pyNorm : JV → JV
  | .arr xs => .arr (pyNormL xs)
  | .obj kvs => .obj (dictOf (pyNormM kvs))
  | .null => .null
  | .bool b => .bool b
  | .int i => .int i
  | .float => .float
  | .str v => .str v
def pyNormL : List JV → List JV
  | [] => []
  | x :: r => pyNorm x :: pyNormL r
def pyNormM : List (Str × JV) → List (Str × JV)
  | [] => []
  | (k, v) :: r => (k, pyNorm v) :: pyNormM r
end

theorem toJVm_keys (kvs : List (Str × Val)) : (toJVm kvs).map (·.1) = kvs.map (·.1) := by
  rw [toJVm_eq, List.map_map]; exact List.map_congr_left (fun _ _ => rfl)

/-- on a value without repeated keys Python's reading changes nothing -/
theorem pyNorm_toJV : ∀ v : Val, v.NoDup → pyNorm (toJV v) = toJV v := by
  apply Val.ind (P := fun v => v.NoDup → pyNorm (toJV v) = toJV v)
  · intro _; rfl
  · intro b _; rfl
  · intro i _; rfl
  · intro t _; rfl
  · intro xs hP h
    simp only [Val.NoDup, noDupL_iff] at h
    simp only [toJV, pyNorm]
    congr 1
    induction xs with
    | nil => rfl
    | cons x r ih =>
      simp only [toJVs, pyNormL]
      rw [hP x (by simp) (h x (by simp)), ih (fun z hz => hP z (List.mem_cons_of_mem _ hz)) (fun z hz => h z (List.mem_cons_of_mem _ hz))]
  · intro kvs hP h
    simp only [Val.NoDup, noDupM_iff] at h
    simp only [toJV, pyNorm]
    congr 1
    have e : pyNormM (toJVm kvs) = toJVm kvs := by
      have h2 := h.2
      clear h
      induction kvs with
      | nil => rfl
      | cons x r ih =>
        obtain ⟨k, v⟩ := x
        simp only [toJVm, pyNormM]
        rw [hP (k, v) (by simp) (h2 (k, v) (by simp)), ih (fun z hz => hP z (List.mem_cons_of_mem _ hz)) (fun z hz => h2 z (List.mem_cons_of_mem _ hz))]
    rw [e]
    exact dictOf_nodup _ (by rw [toJVm_keys]; exact h.1)

/-! ### keys ascending at every level -/

mutual
/-- every dict of the value lists its keys in strictly ascending code-point order -/
def KeysAscending : Val → Prop
  | .arr xs => KeysAscendingL xs
  | .obj kvs => StrictSorted kvs ∧ KeysAscendingM kvs
  | _ => True
def KeysAscendingL : List Val → Prop
  | [] => True
  | x :: r => KeysAscending x ∧ KeysAscendingL r
def KeysAscendingM : List (Str × Val) → Prop
  | [] => True
  | (_, v) :: r => KeysAscending v ∧ KeysAscendingM r
end

theorem keysAscendingL_iff (xs : List Val) : KeysAscendingL xs ↔ ∀ x ∈ xs, KeysAscending x := by
  induction xs with
  | nil => simp [KeysAscendingL]
  | cons x r ih => simp [KeysAscendingL, ih]

theorem keysAscendingM_iff (kvs : List (Str × Val)) : KeysAscendingM kvs ↔ ∀ kv ∈ kvs, KeysAscending kv.2 := by
  induction kvs with
  | nil => simp [KeysAscendingM]
  | cons x r ih => obtain ⟨k, v⟩ := x; simp [KeysAscendingM, ih]

theorem sortKeys_ascending : ∀ v : Val, v.NoDup → KeysAscending (sortKeys v) := by
  apply Val.ind (P := fun v => v.NoDup → KeysAscending (sortKeys v))
  · intro _; trivial
  · intro b _; trivial
  · intro i _; trivial
  · intro t _; trivial
  · intro xs hP h
    simp only [Val.NoDup, noDupL_iff] at h
    simp only [sortKeys, KeysAscending, keysAscendingL_iff, sortKeysL_eq, List.mem_map]
    rintro y ⟨x, hx, rfl⟩
    exact hP x hx (h x hx)
  · intro kvs hP h
    simp only [Val.NoDup, noDupM_iff] at h
    simp only [sortKeys, KeysAscending, keysAscendingM_iff, sortKeysM_eq]
    constructor
    · apply sortKV_strict
      have e : (kvs.map (fun kv => (kv.1, sortKeys kv.2))).map (·.1) = kvs.map (·.1) := by
        rw [List.map_map]; exact List.map_congr_left (fun _ _ => rfl)
      rw [e]; exact h.1
    · intro kv hkv
      have := (sortKV_perm _).mem_iff.mp hkv
      obtain ⟨x, hx, rfl⟩ := List.mem_map.mp this
      exact hP x hx (h.2 x hx)

/-! ### the document: distinct keys -/

/-- a literal key list has no repetition -/
macro "keys_nodup" : tactic =>
  `(tactic| (simp only [List.map_cons, List.map_nil, List.cons_append, List.nil_append, List.append_nil]; decide))

theorem noDup_optStr (o : Option Str) : (optStr o).NoDup := by cases o <;> trivial

theorem noDup_strs (l : List Str) : (strs l).NoDup := by
  simp only [strs, Val.NoDup, noDupL_iff, List.mem_map]
  rintro y ⟨x, _, rfl⟩; trivial

theorem noDup_optStrs (o : Option (List Str)) : (optStrs o).NoDup := by
  cases o with
  | none => trivial
  | some l => exact noDup_strs l

theorem noDup_noteList (l : List (Option Str)) : (noteList l).NoDup := by
  simp only [noteList, Val.NoDup, noDupL_iff, List.mem_map]
  rintro y ⟨x, _, rfl⟩; exact noDup_optStr x

theorem noDup_obj (kvs : List (Str × Val)) (h1 : (kvs.map (·.1)).Nodup) (h2 : ∀ kv ∈ kvs, kv.2.NoDup) : (Val.obj kvs).NoDup := by
  simp only [Val.NoDup, noDupM_iff]; exact ⟨h1, h2⟩

theorem noDup_arr (xs : List Val) (h : ∀ x ∈ xs, x.NoDup) : (Val.arr xs).NoDup := by
  simp only [Val.NoDup, noDupL_iff]; exact h

theorem noDup_notesVal (n : Report.JNotes) : (notesVal n).NoDup := by
  obtain ⟨f, w, i⟩ := n
  apply noDup_obj
  · cases f <;> cases w <;> cases i <;> keys_nodup
  · intro kv hkv
    cases f <;> cases w <;> cases i <;> simp at hkv <;>
      first
        | (rcases hkv with h | h | h <;> subst h <;> exact noDup_noteList _)
        | (rcases hkv with h | h <;> subst h <;> exact noDup_noteList _)
        | (subst hkv; exact noDup_noteList _)

/-- the keys the size fields can use -/
def ExtraOk (extra : List (Str × Val)) : Prop :=
  extra = [] ∨ (∃ n, extra = [(kKeysize, .int n)]) ∨ (∃ t n, extra = [(kCaAlgorithm, .str t), (kCasize, .int n)])
    ∨ (∃ k t n, extra = [(kKeysize, .int k), (kCaAlgorithm, .str t), (kCasize, .int n)])

theorem kexExtra_ok (dh : List (Str × Nat)) (n : Str) : ExtraOk (kexExtra dh n) := by
  unfold kexExtra
  split
  · exact Or.inr (Or.inl ⟨_, rfl⟩)
  · exact Or.inl rfl

theorem keyExtra_ok (rf : List Str) (hk : List (Str × Report.HostKeyInfo)) (n : Str) : ExtraOk (keyExtra rf hk n) := by
  unfold keyExtra
  split
  · next x hkv _ =>
    by_cases h1 : (rf.contains n || Text.startsWith n (Report.s "ssh-rsa-cert-v0")) = true <;> by_cases h2 : hkv.caSize > 0
    · simp only [h1, h2, if_true]; exact Or.inr (Or.inr (Or.inr ⟨_, _, _, rfl⟩))
    · simp only [h1, h2, if_true, if_false]; exact Or.inr (Or.inl ⟨_, rfl⟩)
    · simp only [h1, h2, if_true, if_false]; exact Or.inr (Or.inr (Or.inl ⟨_, _, rfl⟩))
    · simp only [h1, h2, if_false]; exact Or.inl rfl
  · exact Or.inl rfl

theorem noDup_algEntry (db : DB) (fu cat name : Str) (extra : List (Str × Val)) (h : ExtraOk extra) : (algEntry db fu cat name extra).NoDup := by
  unfold algEntry
  have hn := noDup_notesVal (Report.jsonNotes db fu cat name)
  rcases h with h | ⟨n, h⟩ | ⟨t, n, h⟩ | ⟨k, t, n, h⟩ <;> subst h <;> apply noDup_obj
  any_goals keys_nodup
  all_goals
    intro kv hkv
    simp only [List.cons_append, List.nil_append, List.append_nil, List.mem_cons, List.not_mem_nil, or_false] at hkv
  · rcases hkv with h | h <;> subst h <;> first | exact hn | trivial
  · rcases hkv with h | h | h <;> subst h <;> first | exact hn | trivial
  · rcases hkv with h | h | h | h <;> subst h <;> first | exact hn | trivial
  · rcases hkv with h | h | h | h | h <;> subst h <;> first | exact hn | trivial

theorem noDup_algList (db : DB) (fu cat : Str) (names : List Str) (extra : Str → List (Str × Val)) (h : ∀ n, ExtraOk (extra n)) :
    (algList db fu cat names extra).NoDup := by
  apply noDup_arr
  intro x hx
  obtain ⟨n, _, rfl⟩ := List.mem_map.mp hx
  exact noDup_algEntry db fu cat n _ (h n)

theorem noDup_fpEntries (f : Output.Fp) : ∀ x ∈ fpEntries f, x.NoDup := by
  intro x hx
  simp only [fpEntries, List.mem_cons, List.not_mem_nil, or_false] at hx
  rcases hx with h | h <;> subst h <;> apply noDup_obj
  any_goals keys_nodup
  all_goals
    intro kv hkv
    simp only [List.mem_cons, List.not_mem_nil, or_false] at hkv
    rcases hkv with h | h | h <;> subst h <;> trivial

theorem groups_keys_sublist {α} (ks : List α) (name : α → Str) (sub : α → List Report.Rec) (val : α → List Report.Rec → Val) :
    ((ks.filterMap fun k => if (sub k).isEmpty then none else some (name k, val k (sub k))).map (·.1)).Sublist (ks.map name) := by
  induction ks with
  | nil => exact List.Sublist.refl _
  | cons k r ih =>
    by_cases h : (sub k).isEmpty = true
    · simp only [List.filterMap_cons, h, if_true, List.map_cons]
      exact ih.cons _
    · simp only [List.filterMap_cons, h, if_false, List.map_cons]
      exact ih.cons_cons _

theorem noDup_groups {α} (ks : List α) (name : α → Str) (sub : α → List Report.Rec) (val : α → List Report.Rec → Val)
    (h1 : (ks.map name).Nodup) (h2 : ∀ k l, (val k l).NoDup) : (groups ks name sub val).NoDup := by
  unfold groups
  apply noDup_obj
  · exact (groups_keys_sublist ks name sub val).nodup h1
  · intro kv hkv
    obtain ⟨k, _, hk⟩ := List.mem_filterMap.mp hkv
    split at hk
    · simp at hk
    · simp only [Option.some.injEq] at hk; subst hk; exact h2 _ _

theorem noDup_recEntry (r : Report.Rec) : (recEntry r).NoDup := by
  apply noDup_obj
  · keys_nodup
  · intro kv hkv
    simp only [List.mem_cons, List.not_mem_nil, or_false] at hkv
    rcases hkv with h | h <;> subst h <;> trivial

theorem noDup_recsVal (recs : List Report.Rec) : (recsVal recs).NoDup := by
  unfold recsVal
  refine noDup_groups _ _ _ _ (by decide) (fun _ _ => ?_)
  refine noDup_groups _ _ _ _ (by decide) (fun _ _ => ?_)
  refine noDup_groups _ _ _ _ (by decide) (fun _ l => ?_)
  apply noDup_arr
  intro x hx
  obtain ⟨r, _, rfl⟩ := List.mem_map.mp hx
  exact noDup_recEntry r

theorem noDup_bannerVal (b : Option BannerDoc) : (bannerVal b).NoDup := by
  cases b with
  | none =>
    apply noDup_obj
    · keys_nodup
    · intro kv hkv
      simp only [List.mem_cons, List.not_mem_nil, or_false] at hkv
      rcases hkv with h | h | h | h <;> subst h <;> trivial
  | some b =>
    apply noDup_obj
    · keys_nodup
    · intro kv hkv
      simp only [List.mem_cons, List.not_mem_nil, or_false] at hkv
      rcases hkv with h | h | h | h <;> subst h <;> first | trivial | exact noDup_optStr _

theorem noDup_tail (recs : List Report.Rec) (notes : List Str) : ∀ kv ∈ tailItems recs notes, kv.2.NoDup := by
  intro kv hkv
  simp only [tailItems, List.mem_cons, List.not_mem_nil, or_false] at hkv
  rcases hkv with h | h | h <;> subst h
  · exact noDup_arr [] (fun _ h => nomatch h)
  · exact noDup_recsVal recs
  · exact noDup_strs notes

/-- **`build_struct`'s value for an SSH-2 peer never holds a key twice** -/
theorem noDup_doc (rf : List Str) (fu : Str) (db : DB) (peer : Report.Peer) (recs : List Report.Rec) (notes : List Str) (m : Meta) :
    (doc rf fu db peer recs notes m).NoDup := by
  unfold doc
  apply noDup_obj
  · unfold whoVal tailItems; cases m.clientHost <;> keys_nodup
  · intro kv hkv
    rcases List.mem_append.mp hkv with h | h
    · simp only [List.mem_cons, List.not_mem_nil, or_false] at h
      rcases h with h | h | h | h | h | h | h | h <;> subst h
      · exact noDup_bannerVal _
      · unfold whoVal; cases m.clientHost <;> trivial
      · exact noDup_strs _
      · exact noDup_algList _ _ _ _ _ (kexExtra_ok _)
      · exact noDup_algList _ _ _ _ _ (keyExtra_ok _ _)
      · exact noDup_algList _ _ _ _ _ (fun _ => Or.inl rfl)
      · exact noDup_algList _ _ _ _ _ (fun _ => Or.inl rfl)
      · apply noDup_arr
        intro x hx
        obtain ⟨f, _, hf⟩ := List.mem_flatMap.mp hx
        exact noDup_fpEntries f x hf
    · exact noDup_tail recs notes kv h

/-- the else-branch: as long as the record says `client_ip` or `target`, not both (what `Ssh1Report.doc` builds) -/
theorem noDup_docElse (d : Ssh1Report.Doc) (h : d.clientIp = none ∨ d.target = none) : (docElse d).NoDup := by
  unfold docElse
  apply noDup_obj
  · unfold tailItems
    rcases h with h | h <;> rw [h] <;> cases d.clientIp <;> cases d.target <;> keys_nodup
  · intro kv hkv
    simp only [List.mem_append] at hkv
    rcases hkv with (((hkv | hkv) | hkv) | hkv) | hkv
    · simp only [List.mem_cons, List.not_mem_nil, or_false] at hkv
      subst hkv
      apply noDup_obj
      · keys_nodup
      · intro kv hkv
        simp only [List.mem_cons, List.not_mem_nil, or_false] at hkv
        rcases hkv with h | h | h | h <;> subst h <;> first | trivial | exact noDup_optStr _
    · cases hc : d.clientIp <;> rw [hc] at hkv <;> simp at hkv
      subst hkv; trivial
    · cases hc : d.target <;> rw [hc] at hkv <;> simp at hkv
      subst hkv; trivial
    · simp only [List.mem_cons, List.not_mem_nil, or_false] at hkv
      rcases hkv with h | h | h | h <;> subst h
      · exact noDup_strs _
      · exact noDup_optStrs _
      · exact noDup_optStrs _
      · apply noDup_arr
        intro x hx
        simp only [List.mem_cons, List.not_mem_nil, or_false] at hx
        subst hx
        apply noDup_obj
        · keys_nodup
        · intro kv hkv
          simp only [List.mem_cons, List.not_mem_nil, or_false] at hkv
          rcases hkv with h | h <;> subst h <;> first | trivial | exact noDup_optStr _
    · exact noDup_tail _ _ kv hkv

/-! ### reading notes back -/

theorem items_noteList (l : List (Option Str)) : (noteList l).items.filterMap Val.strOf = l.filterMap id := by
  simp only [noteList, Val.items]
  induction l with
  | nil => rfl
  | cons x r ih => cases x <;> simp [optStr, Val.strOf, List.filterMap_cons, ih]

/-! ### reading `recommendations` back -/

theorem groups_get {α} [DecidableEq α] (ks : List α) (name : α → Str) (sub : α → List Report.Rec) (val : α → List Report.Rec → Val)
    (hinj : ∀ a ∈ ks, ∀ b ∈ ks, name a = name b → a = b) (k : α) (hk : k ∈ ks) :
    (groups ks name sub val).get (name k) = if (sub k).isEmpty then none else some (val k (sub k)) := by
  unfold groups
  simp only [Val.get]
  induction ks with
  | nil => exact absurd hk (by simp)
  | cons a r ih =>
    by_cases hak : a = k
    · subst hak
      by_cases h : (sub a).isEmpty = true
      · simp only [List.filterMap_cons, h, if_true]
        -- no later group has this name
        have : (List.filterMap (fun k => if (sub k).isEmpty = true then none else some (name k, val k (sub k))) r).find? (fun x => decide (x.1 = name a)) = none := by
          apply List.find?_eq_none.mpr
          intro x hx
          obtain ⟨b, hb, hbx⟩ := List.mem_filterMap.mp hx
          split at hbx
          · simp at hbx
          · simp only [Option.some.injEq] at hbx; subst hbx
            simp only [decide_eq_true_eq]
            intro e
            have hba := hinj b (List.mem_cons_of_mem _ hb) a (by simp) e
            subst hba
            -- `a` occurs again in `r`: same group, still empty
            rename_i hne; exact hne h
        rw [this]; rfl
      · have h' : (sub a).isEmpty = false := by simpa using h
        simp only [List.filterMap_cons, h', Bool.false_eq_true, if_false, List.find?_cons, decide_true]
        rfl
    · have hk' : k ∈ r := by
        rcases List.mem_cons.mp hk with e | e
        · exact absurd e.symm hak
        · exact e
      have hne : name a ≠ name k := fun e => hak (hinj a (by simp) k hk e)
      have ih' := ih (fun x hx y hy => hinj x (List.mem_cons_of_mem _ hx) y (List.mem_cons_of_mem _ hy)) hk'
      by_cases h : (sub a).isEmpty = true
      · simp only [List.filterMap_cons, h, if_true]; exact ih'
      · have h' : (sub a).isEmpty = false := by simpa using h
        simp only [List.filterMap_cons, h', Bool.false_eq_true, if_false, List.find?_cons, hne, decide_false]; exact ih'

end SshAudit.JsonDoc
