/- Helper lemmas for the host-key model (C11).  Core Lean only. -/
import SshAudit.Model.HostKey
import SshAudit.Lemmas.Mpint
import SshAudit.Lemmas.Report
namespace SshAudit.HostKey
open SshAudit SshAudit.Wire

/-! ### `__get_bytes` against the spec-side `string` encoder -/

theorem u32_length (v : Nat) : (Spec.u32 v).length = 4 := by simp [Spec.u32]
theorem u64_length (v : Nat) : (Spec.u64 v).length = 8 := by simp [Spec.u64]

theorem getBytes_sstr (b rest : Bytes) (h : b.length < 2 ^ 32) :
    getBytes (Spec.sstr b ++ rest) = .ok (b, b.length, rest) := by
  unfold getBytes Spec.sstr
  have hl : (Spec.u32 b.length).length = 4 := u32_length _
  have hnl : ¬ ((Spec.u32 b.length ++ b ++ rest).length < 4) := by simp [hl]
  rw [if_neg hnl]
  simp only [List.append_assoc]
  rw [List.take_left' hl, List.drop_left' hl]
  have hv : ofBE (natsOf (Spec.u32 b.length)) = b.length := by
    unfold Spec.u32
    rw [natsOf_bytesOf _ (toBE_lt _ 4), ofBE_toBE]
    exact Nat.mod_eq_of_lt (by simpa using h)
  rw [hv, List.take_left' rfl, List.drop_left' rfl]

theorem getBytes_sstr_nil (b : Bytes) (h : b.length < 2 ^ 32) : getBytes (Spec.sstr b) = .ok (b, b.length, []) := by
  have := getBytes_sstr b [] h
  rwa [List.append_nil] at this

theorem drop_u64 (v : Nat) (rest : Bytes) : (Spec.u64 v ++ rest).drop 8 = rest := List.drop_left' (u64_length v)
theorem drop_u64_u64 (v w : Nat) (rest : Bytes) : (Spec.u64 v ++ (Spec.u64 w ++ rest)).drop 16 = rest := by
  have : (Spec.u64 v ++ (Spec.u64 w ++ rest)) = (Spec.u64 v ++ Spec.u64 w) ++ rest := by simp
  rw [this]
  exact List.drop_left' (by simp [u64_length])

theorem take_u32 (v : Nat) (rest : Bytes) : (Spec.u32 v ++ rest).take 4 = Spec.u32 v := List.take_left' (u32_length v)
theorem drop_u32 (v : Nat) (rest : Bytes) : (Spec.u32 v ++ rest).drop 4 = rest := List.drop_left' (u32_length v)

theorem hexInt_u32 (v : Nat) (h : v < 2 ^ 32) : hexInt (Spec.u32 v) = .ok v := by
  unfold hexInt
  have hne : (Spec.u32 v).isEmpty = false := by
    cases hq : Spec.u32 v with
    | nil => have := u32_length v; rw [hq] at this; simp at this
    | cons a t => rfl
  rw [hne]
  simp only [Bool.false_eq_true, if_false]
  unfold Spec.u32
  rw [natsOf_bytesOf _ (toBE_lt _ 4), ofBE_toBE, Nat.mod_eq_of_lt (by simpa using h)]

theorem hexInt_of_ne_nil (b : Bytes) (h : b ≠ []) : ∃ v, hexInt b = .ok v := by
  unfold hexInt
  cases b with
  | nil => exact absurd rfl h
  | cons a t => exact ⟨_, rfl⟩

/-! ### `mpint` of a positive number -/

/-- the magnitude bytes of `mpint n` -/
def mpBody (n : Nat) : Bytes := bytesOf (toBE n (bitLen n / 8 + 1))

theorem mpBody_length (n : Nat) : (mpBody n).length = bitLen n / 8 + 1 := by simp [mpBody]

theorem mpBody_ne_nil (n : Nat) : mpBody n ≠ [] := by
  intro h
  have := mpBody_length n
  rw [h] at this
  simp at this

theorem mpint_pos (n : Nat) (h : 0 < n) : Spec.mpint n = Spec.sstr (mpBody n) := by
  unfold Spec.mpint mpBody
  rw [if_neg (by omega)]

theorem lt_pow_of_bitLen (n : Nat) : n < 256 ^ (bitLen n / 8 + 1) := by
  have h1 := lt_two_pow_bitLen n
  have h2 : (2:Nat) ^ bitLen n ≤ 2 ^ (8 * (bitLen n / 8 + 1)) := Nat.pow_le_pow_right (by decide) (by omega)
  rw [Nat.pow_mul, show (2:Nat) ^ 8 = 256 by decide] at h2
  omega

/-- the encoder is value-preserving: the bytes of `mpint n` denote `n` … -/
theorem mpBody_value (n : Nat) : ofBE (natsOf (mpBody n)) = n := by
  unfold mpBody
  rw [natsOf_bytesOf _ (toBE_lt _ _), ofBE_toBE, Nat.mod_eq_of_lt (lt_pow_of_bitLen n)]

/-- … and its first byte has the sign bit clear (a positive two's-complement number) -/
theorem mpBody_head (n : Nat) : ∃ b t, natsOf (mpBody n) = b :: t ∧ b < 128 := by
  unfold mpBody
  rw [natsOf_bytesOf _ (toBE_lt _ _)]
  have hh := toBE_head n (bitLen n / 8)
  cases hq : toBE n (bitLen n / 8 + 1) with
  | nil => rw [hq] at hh; simp at hh
  | cons b t =>
    rw [hq] at hh
    simp only [List.head?_cons, Option.some.injEq] at hh
    refine ⟨b, t, rfl, ?_⟩
    have h1 := lt_two_pow_bitLen n
    have h2 : (2:Nat) ^ bitLen n ≤ 2 ^ (8 * (bitLen n / 8) + 7) := Nat.pow_le_pow_right (by decide) (by omega)
    have h3 : (2:Nat) ^ (8 * (bitLen n / 8) + 7) = 128 * 256 ^ (bitLen n / 8) := by
      rw [Nat.pow_add, Nat.pow_mul, show (2:Nat) ^ 8 = 256 by decide, show (2:Nat) ^ 7 = 128 by decide, Nat.mul_comm]
    have h4 : n / 256 ^ (bitLen n / 8) < 128 := by
      rw [Nat.div_lt_iff_lt_mul (Nat.pow_pos (by decide))]; omega
    rw [hh]
    exact Nat.lt_of_le_of_lt (Nat.mod_le _ _) h4

/-! ### `__adjust_key_size` -/

theorem adjust_even (n : Nat) (h : n % 2 = 0) : adjustKeySize n = n * 8 := by
  unfold adjustKeySize
  simp only
  rw [Nat.mul_div_cancel _ (by decide : 0 < 8)]
  simp [h]

theorem adjust_odd (n : Nat) (h : n % 2 = 1) : adjustKeySize n = n * 8 - 8 := by
  unfold adjustKeySize
  simp only
  rw [Nat.mul_div_cancel _ (by decide : 0 < 8)]
  simp [h]

/-- `int(hexlify(·), 16)` of the magnitude bytes of `mpint n` is `n` -/
theorem hexInt_mpBody (n : Nat) : hexInt (mpBody n) = .ok n := by
  unfold hexInt
  have : (mpBody n).isEmpty = false := by
    cases h : mpBody n with
    | nil => exact absurd h (mpBody_ne_nil n)
    | cons a t => rfl
  rw [this]
  simp only [Bool.false_eq_true, if_false, mpBody_value]

/-- the part of `__parse_ca_key` that looks inside the signature key -/
def caInfo (caKey : Bytes) : Except Exn (Str × Nat × Nat) := do
  let (tb, _, c) ← getBytes caKey
  let caType ← asciiDecode tb
  if caType = tEd25519 then pure (caType, 32, 0)
  else do
    let (_, _, c) ← getBytes c
    let (n, nLen, _) ← getBytes c
    let bits ← (if caType = tRsa ∧ nLen > 0 then do let v ← hexInt n; pure (bitLen v) else pure 0)
    if Text.startsWith caType pEcdsa ∧ nLen > 0 then
      match n with
      | [] => .error .index
      | b :: _ => if b = 4 then pure (caType, (nLen - 1) / 2, bits) else pure (caType, nLen, bits)
    else pure (caType, nLen, bits)

/-- everything of a certificate after the certified key's own fields -/
def certTail (certType : Nat) (f : Spec.CertFields) (ca : Bytes) : Bytes :=
  Spec.u64 f.serial ++ (Spec.u32 certType ++ (Spec.sstr f.keyId ++ (Spec.sstr f.principals ++
    (Spec.u64 f.validAfter ++ (Spec.u64 f.validBefore ++ (Spec.sstr f.crit ++ (Spec.sstr f.ext ++ (Spec.sstr f.reserved ++ (Spec.sstr ca ++ Spec.sstr f.sig)))))))))

theorem certBlob_eq (kind : Str) (pub : Bytes) (ct : Nat) (f : Spec.CertFields) (ca : Bytes) :
    Spec.certBlob kind pub ct f ca = Spec.sstr (Spec.ascii kind) ++ (Spec.sstr f.nonce ++ (pub ++ certTail ct f ca)) := rfl

theorem parseCaKey_tail (f : Spec.CertFields) (ca : Bytes) (hf : f.fits) (hca : ca.length < 2 ^ 32) :
    parseCaKey (certTail 2 f ca) = caInfo ca := by
  obtain ⟨_, h2, h3, h4, h5, h6⟩ := hf
  unfold parseCaKey certTail caInfo
  simp only [drop_u64, take_u32, drop_u32, hexInt_u32 2 (by decide), bind, Except.bind, if_true,
    getBytes_sstr _ _ h2, getBytes_sstr _ _ h3, drop_u64_u64, getBytes_sstr _ _ h4, getBytes_sstr _ _ h5, getBytes_sstr _ _ h6,
    getBytes_sstr _ _ hca]
  rfl

theorem parseCaKey_tail_other (ct : Nat) (hct : ct ≠ 2) (hlt : ct < 2 ^ 32) (f : Spec.CertFields) (ca : Bytes) :
    parseCaKey (certTail ct f ca) = .ok ([], 0, 0) := by
  unfold parseCaKey certTail
  simp only [drop_u64, take_u32, drop_u32, hexInt_u32 ct hlt, bind, Except.bind, hct, if_false, pure, Except.pure]

theorem ascii_rsa : asciiDecode (Spec.ascii (s "ssh-rsa")) = .ok tRsa := by decide +kernel
theorem len_rsa : (Spec.ascii (s "ssh-rsa")).length < 2 ^ 32 := by decide +kernel
theorem ascii_ed25519 : asciiDecode (Spec.ascii (s "ssh-ed25519")) = .ok tEd25519 := by decide +kernel
theorem len_ed25519 : (Spec.ascii (s "ssh-ed25519")).length < 2 ^ 32 := by decide +kernel
theorem ascii_ed448 : asciiDecode (Spec.ascii (s "ssh-ed448")) = .ok tEd448 := by decide +kernel
theorem len_ed448 : (Spec.ascii (s "ssh-ed448")).length < 2 ^ 32 := by decide +kernel

theorem caInfo_rsa (e n : Nat) (he : 0 < e) (hn : 0 < n) (hel : bitLen e / 8 + 1 < 2 ^ 32) (hnl : bitLen n / 8 + 1 < 2 ^ 32) :
    caInfo (Spec.rsaBlob e n) = .ok (tRsa, bitLen n / 8 + 1, bitLen n) := by
  unfold caInfo Spec.rsaBlob
  rw [mpint_pos e he, mpint_pos n hn]
  have h3 : ¬ (tRsa = tEd25519) := by decide +kernel
  have h5 : Text.startsWith tRsa pEcdsa = false := by decide +kernel
  have h6 : bitLen n / 8 + 1 > 0 := by omega
  simp only [List.append_assoc, getBytes_sstr _ _ len_rsa, bind, Except.bind, ascii_rsa, h3, if_false,
    getBytes_sstr _ _ (show (mpBody e).length < 2 ^ 32 by rw [mpBody_length]; exact hel),
    getBytes_sstr_nil _ (show (mpBody n).length < 2 ^ 32 by rw [mpBody_length]; exact hnl), h5, Bool.false_eq_true, false_and,
    pure, Except.pure, mpBody_length, h6, and_self, if_true, hexInt_mpBody]

theorem caInfo_ed25519 (pk : Bytes) : caInfo (Spec.ed25519Blob pk) = .ok (tEd25519, 32, 0) := by
  unfold caInfo Spec.ed25519Blob
  simp only [getBytes_sstr _ _ len_ed25519, bind, Except.bind, ascii_ed25519, if_true, pure, Except.pure]

def curves : List Str := [s "nistp256", s "nistp384", s "nistp521"]

theorem caInfo_ecdsa (curve : Str) (hc : curve ∈ curves) (x y : Bytes) (hl : 1 + (x.length + y.length) < 2 ^ 32) :
    caInfo (Spec.ecdsaBlob curve x y) = .ok (s "ecdsa-sha2-" ++ curve, (x.length + y.length) / 2, 0) := by
  have hfacts : (Spec.ascii (s "ecdsa-sha2-" ++ curve)).length < 2 ^ 32 ∧ (Spec.ascii curve).length < 2 ^ 32 ∧
      asciiDecode (Spec.ascii (s "ecdsa-sha2-" ++ curve)) = .ok (s "ecdsa-sha2-" ++ curve) ∧
      ¬ (s "ecdsa-sha2-" ++ curve = tEd25519) ∧ Text.startsWith (s "ecdsa-sha2-" ++ curve) pEcdsa = true ∧
      ¬ (s "ecdsa-sha2-" ++ curve = tRsa) := by
    simp only [curves, List.mem_cons, List.not_mem_nil, or_false] at hc
    rcases hc with rfl | rfl | rfl <;> decide +kernel
  obtain ⟨l1, l2, ha, hne, hp, hnr⟩ := hfacts
  unfold caInfo Spec.ecdsaBlob
  have hq : ((4 : UInt8) :: (x ++ y)).length < 2 ^ 32 := by simp only [List.length_cons, List.length_append]; omega
  have hq2 : ((4 : UInt8) :: (x ++ y)).length = x.length + y.length + 1 := by simp
  simp only [List.append_assoc, getBytes_sstr _ _ l1, bind, Except.bind, ha, hne, hnr, false_and, if_false, getBytes_sstr _ _ l2,
    getBytes_sstr_nil _ hq, hp, true_and, pure, Except.pure]
  rw [hq2]
  simp

/-! ### whole blobs -/

theorem parse_rsa (e n : Nat) (he : 0 < e) (hn : 0 < n) (hel : bitLen e / 8 + 1 < 2 ^ 32) (hnl : bitLen n / 8 + 1 < 2 ^ 32) :
    parseHostKey (Spec.rsaBlob e n) = .ok { keyType := tRsa, nLen := bitLen n / 8 + 1, nBits := bitLen n, caType := [], caNLen := 0, caNBits := 0 } := by
  unfold parseHostKey Spec.rsaBlob
  rw [mpint_pos e he, mpint_pos n hn]
  have h1 : Text.startsWith tRsa pRsaCert = false := by decide +kernel
  have h2 : Text.startsWith tRsa pEdCert = false := by decide +kernel
  have h3 : ¬ (tRsa = tEd25519) := by decide +kernel
  have h4 : ¬ (tRsa = tEd448) := by decide +kernel
  obtain ⟨ve, hve⟩ := hexInt_of_ne_nil _ (mpBody_ne_nil e)
  have hvn := hexInt_mpBody n
  have h5 : Text.startsWith tRsa pSshRsa = true := by decide +kernel
  simp only [List.append_assoc, getBytes_sstr _ _ len_rsa, bind, Except.bind, ascii_rsa, h1, h2, h3, h4, if_false, Bool.false_eq_true,
    pure, Except.pure, or_self,
    getBytes_sstr _ _ (show (mpBody e).length < 2 ^ 32 by rw [mpBody_length]; exact hel),
    getBytes_sstr_nil _ (show (mpBody n).length < 2 ^ 32 by rw [mpBody_length]; exact hnl), hve, hvn, h5, if_true, mpBody_length]

theorem parse_ed25519 (pk : Bytes) (hne : pk ≠ []) (hl : pk.length < 2 ^ 32) :
    parseHostKey (Spec.ed25519Blob pk) = .ok { keyType := tEd25519, nLen := 32, nBits := 0, caType := [], caNLen := 0, caNBits := 0 } := by
  unfold parseHostKey Spec.ed25519Blob
  have h1 : Text.startsWith tEd25519 pRsaCert = false := by decide +kernel
  have h2 : Text.startsWith tEd25519 pEdCert = false := by decide +kernel
  obtain ⟨v, hv⟩ := hexInt_of_ne_nil _ hne
  simp only [getBytes_sstr _ _ len_ed25519, bind, Except.bind, ascii_ed25519, h1, h2, if_false, if_true, Bool.false_eq_true,
    pure, Except.pure, or_self, getBytes_sstr_nil _ hl, hv]

theorem parse_ed448 (pk : Bytes) (hne : pk ≠ []) (hl : pk.length < 2 ^ 32) :
    parseHostKey (Spec.ed448Blob pk) = .ok { keyType := tEd448, nLen := 57, nBits := 0, caType := [], caNLen := 0, caNBits := 0 } := by
  unfold parseHostKey Spec.ed448Blob
  have h1 : Text.startsWith tEd448 pRsaCert = false := by decide +kernel
  have h2 : Text.startsWith tEd448 pEdCert = false := by decide +kernel
  have h3 : ¬ (tEd448 = tEd25519) := by decide +kernel
  obtain ⟨v, hv⟩ := hexInt_of_ne_nil _ hne
  simp only [getBytes_sstr _ _ len_ed448, bind, Except.bind, ascii_ed448, h1, h2, h3, if_false, if_true, Bool.false_eq_true,
    pure, Except.pure, or_self, getBytes_sstr_nil _ hl, hv]

theorem ascii_rsaCert : asciiDecode (Spec.ascii Spec.rsaCertKind) = .ok Spec.rsaCertKind := by decide +kernel
theorem len_rsaCert : (Spec.ascii Spec.rsaCertKind).length < 2 ^ 32 := by decide +kernel
theorem ascii_edCert : asciiDecode (Spec.ascii Spec.edCertKind) = .ok Spec.edCertKind := by decide +kernel
theorem len_edCert : (Spec.ascii Spec.edCertKind).length < 2 ^ 32 := by decide +kernel

/-- an RSA certificate: the nonce is skipped, `e`, `n` are read, then the CA key is looked up behind the variable-length fields -/
theorem parse_rsaCert (e n ct : Nat) (f : Spec.CertFields) (ca : Bytes) (he : 0 < e) (hn : 0 < n)
    (hel : bitLen e / 8 + 1 < 2 ^ 32) (hnl : bitLen n / 8 + 1 < 2 ^ 32) (hnonce : f.nonce.length < 2 ^ 32) :
    parseHostKey (Spec.rsaCert e n ct f ca) =
      (parseCaKey (certTail ct f ca)).map (fun c => { keyType := Spec.rsaCertKind, nLen := bitLen n / 8 + 1, nBits := bitLen n, caType := c.1, caNLen := c.2.1, caNBits := c.2.2 }) := by
  unfold Spec.rsaCert
  rw [certBlob_eq, mpint_pos e he, mpint_pos n hn]
  unfold parseHostKey
  have h1 : Text.startsWith Spec.rsaCertKind pRsaCert = true := by decide +kernel
  have h3 : ¬ (Spec.rsaCertKind = tEd25519) := by decide +kernel
  have h4 : ¬ (Spec.rsaCertKind = tEd448) := by decide +kernel
  obtain ⟨ve, hve⟩ := hexInt_of_ne_nil _ (mpBody_ne_nil e)
  have hvn := hexInt_mpBody n
  have h5 : Text.startsWith Spec.rsaCertKind pSshRsa = true := by decide +kernel
  simp only [List.append_assoc, getBytes_sstr _ _ len_rsaCert, bind, Except.bind, ascii_rsaCert, h1, h3, h4, if_false, if_true,
    pure, Except.pure, true_or, getBytes_sstr _ _ hnonce,
    getBytes_sstr _ _ (show (mpBody e).length < 2 ^ 32 by rw [mpBody_length]; exact hel),
    getBytes_sstr _ _ (show (mpBody n).length < 2 ^ 32 by rw [mpBody_length]; exact hnl), hve, hvn, h5, mpBody_length]
  cases parseCaKey (certTail ct f ca) <;> rfl

/-- an Ed25519 certificate: the nonce is read where an exponent would be, the public key where a modulus would be -/
theorem parse_edCert (pk : Bytes) (ct : Nat) (f : Spec.CertFields) (ca : Bytes) (hpk : pk ≠ []) (hpl : pk.length < 2 ^ 32)
    (hnn : f.nonce ≠ []) (hnonce : f.nonce.length < 2 ^ 32) :
    parseHostKey (Spec.edCert pk ct f ca) =
      (parseCaKey (certTail ct f ca)).map (fun c => { keyType := Spec.edCertKind, nLen := pk.length, nBits := 0, caType := c.1, caNLen := c.2.1, caNBits := c.2.2 }) := by
  unfold Spec.edCert
  rw [certBlob_eq]
  unfold parseHostKey
  have h1 : Text.startsWith Spec.edCertKind pRsaCert = false := by decide +kernel
  have h2 : Text.startsWith Spec.edCertKind pEdCert = true := by decide +kernel
  have h3 : ¬ (Spec.edCertKind = tEd25519) := by decide +kernel
  have h4 : ¬ (Spec.edCertKind = tEd448) := by decide +kernel
  obtain ⟨ve, hve⟩ := hexInt_of_ne_nil _ hnn
  obtain ⟨vn, hvn⟩ := hexInt_of_ne_nil _ hpk
  have h5 : Text.startsWith Spec.edCertKind pSshRsa = false := by decide +kernel
  simp only [getBytes_sstr _ _ len_edCert, bind, Except.bind, ascii_edCert, h1, h2, h3, h4, if_false, if_true,
    pure, Except.pure, or_true, getBytes_sstr _ _ hnonce, getBytes_sstr _ _ hpl, hve, hvn, h5, Bool.false_eq_true]
  cases parseCaKey (certTail ct f ca) <;> rfl

theorem recvReply_kexReply (blob f sig : Bytes) (hb : blob.length < 2 ^ 32) (hf : f.length < 2 ^ 32) (hs : sig.length < 2 ^ 32) :
    recvReply (Spec.kexReply blob f sig) = (parseHostKey blob).map (fun p => (blob, p)) := by
  unfold recvReply Spec.kexReply
  simp only [getBytes_sstr _ _ hb, getBytes_sstr _ _ hf, getBytes_sstr_nil _ hs, bind, Except.bind, pure, Except.pure]
  cases parseHostKey blob <;> rfl

/-! ### `extendDesc` slot by slot -/

theorem getD_pad (d : List (List (Option Str))) (k i : Nat) : (d ++ List.replicate k []).getD i [] = d.getD i [] := by
  simp only [List.getD_eq_getElem?_getD]
  by_cases h : i < d.length
  · rw [List.getElem?_append_left h]
  · rw [List.getElem?_append_right (by omega)]
    have : d[i]? = none := List.getElem?_eq_none (by omega)
    rw [this]
    by_cases h2 : i - d.length < k
    · simp [h2]
    · simp [h2]

theorem slot_extendDesc (fails warns : List Str) (d : List (List (Option Str))) (i : Nat) :
    (extendDesc fails warns d).getD i [] =
      if i = 1 then d.getD 1 [] ++ fails.map some else if i = 2 then d.getD 2 [] ++ warns.map some else d.getD i [] := by
  unfold extendDesc
  generalize hp : d ++ List.replicate (3 - d.length) [] = p
  have hlen : 3 ≤ p.length := by rw [← hp]; simp; omega
  have hget : ∀ j, p.getD j [] = d.getD j [] := by intro j; rw [← hp]; exact getD_pad d _ j
  simp only [List.getD_eq_getElem?_getD, List.getElem?_mapIdx]
  by_cases h1 : i = 1
  · subst h1
    have : (1 : Nat) < p.length := by omega
    simp only [List.getElem?_eq_getElem this, Option.map_some, Option.getD_some, if_true]
    have := hget 1
    simp only [List.getD_eq_getElem?_getD, List.getElem?_eq_getElem (show 1 < p.length by omega), Option.getD_some] at this
    rw [this]
  · by_cases h2 : i = 2
    · subst h2
      have : (2 : Nat) < p.length := by omega
      simp only [List.getElem?_eq_getElem this, Option.map_some, Option.getD_some, if_true, h1, if_false]
      have := hget 2
      simp only [List.getD_eq_getElem?_getD, List.getElem?_eq_getElem (show 2 < p.length by omega), Option.getD_some] at this
      rw [this]
    · simp only [h1, h2, if_false]
      have := hget i
      simp only [List.getD_eq_getElem?_getD] at this
      rw [← this]
      cases p[i]? <;> simp

/-! ### the loop of `perform_test` -/

variable {σ : Type}

theorem step_halted (cfg : Cfg) (srv : σ → Str → Outcome × σ) (keys : List Str) (st : St σ) (t : HostKeyType)
    (h : st.halt.isSome = true) : step cfg srv keys st t = st := by
  unfold step; simp only [h, if_true]

theorem step_parsed (cfg : Cfg) (srv : σ → Str → Outcome × σ) (keys : List Str) (st : St σ) (t : HostKeyType)
    (h : st.parsed.contains t.name = true) : step cfg srv keys st t = st := by
  unfold step
  by_cases hh : st.halt.isSome = true
  · simp only [hh, if_true]
  · simp only [hh, h, if_true, if_false, Bool.false_eq_true]

theorem step_not_offered (cfg : Cfg) (srv : σ → Str → Outcome × σ) (keys : List Str) (st : St σ) (t : HostKeyType)
    (h : keys.contains t.name = false) : step cfg srv keys st t = st := by
  unfold step
  by_cases hh : st.halt.isSome = true
  · simp only [hh, if_true]
  · by_cases hp : st.parsed.contains t.name = true
    · simp only [hh, hp, if_true, if_false, Bool.false_eq_true]
    · simp only [hh, hp, h, if_true, if_false, Bool.false_eq_true]

theorem foldl_not_offered (cfg : Cfg) (srv : σ → Str → Outcome × σ) (keys : List Str) (ts : List HostKeyType) (st : St σ)
    (h : ∀ t ∈ ts, keys.contains t.name = false) : ts.foldl (step cfg srv keys) st = st := by
  induction ts generalizing st with
  | nil => rfl
  | cons t ts ih =>
    rw [List.foldl_cons, step_not_offered cfg srv keys st t (h t (by simp))]
    exact ih st (fun u hu => h u (by simp [hu]))

theorem foldl_parsed (cfg : Cfg) (srv : σ → Str → Outcome × σ) (keys : List Str) (ts : List HostKeyType) (st : St σ)
    (h : ∀ t ∈ ts, st.parsed.contains t.name = true) : ts.foldl (step cfg srv keys) st = st := by
  induction ts generalizing st with
  | nil => rfl
  | cons t ts ih =>
    rw [List.foldl_cons, step_parsed cfg srv keys st t (h t (by simp))]
    exact ih st (fun u hu => h u (by simp [hu]))

/-- the probe of a plain (non-certificate) RSA-family type that is answered -/
theorem step_family_got (cfg : Cfg) (srv : σ → Str → Outcome × σ) (keys : List Str) (st : St σ) (t : HostKeyType)
    (o : Outcome) (s' : σ) (r : HKRec) (db' : DB)
    (hh : st.halt = none) (hp : st.parsed.contains t.name = false) (hk : keys.contains t.name = true)
    (hfam : cfg.rsaFamily.contains t.name = true) (hc : t.cert = false)
    (hs : srv st.srv t.name = (o, s')) (hr : probeResult o = .got r)
    (he : editAll st.db cfg.rsaFamily (comments cfg t.name false r.info.size r.info.caType r.info.caSize).1
            (comments cfg t.name false r.info.size r.info.caType r.info.caSize).2 = some db') :
    step cfg srv keys st t =
      { st with srv := s', probes := st.probes ++ [t.name],
                hostKeys := cfg.rsaFamily.foldl (fun h n => setHostKey h n r) (setHostKey st.hostKeys t.name r),
                db := db', parsed := st.parsed ++ cfg.rsaFamily } := by
  unfold step
  simp only [hh, Option.isSome_none, Bool.false_eq_true, Bool.true_eq_false, if_false, hp, hk, hs, hr, hfam, hc, and_self, if_true, he]

/-! ### host-key records -/

def hasKey (hk : List (Str × HKRec)) (n : Str) : Bool := hk.any (·.1 = n)

theorem hasKey_setHostKey_self (hk : List (Str × HKRec)) (n : Str) (r : HKRec) : hasKey (setHostKey hk n r) n = true := by
  unfold setHostKey hasKey
  by_cases h : hk.any (·.1 = n) = true
  · rw [if_pos h]; exact h
  · rw [if_neg h]; simp

theorem hasKey_setHostKey_mono (hk : List (Str × HKRec)) (n m : Str) (r : HKRec) (h : hasKey hk m = true) :
    hasKey (setHostKey hk n r) m = true := by
  unfold setHostKey
  by_cases h' : hk.any (·.1 = n) = true
  · rw [if_pos h']; exact h
  · rw [if_neg h']; unfold hasKey at *; rw [List.any_append, h]; rfl

theorem allR_setHostKey (hk : List (Str × HKRec)) (n : Str) (r : HKRec) (h : ∀ e ∈ hk, e.2 = r) : ∀ e ∈ setHostKey hk n r, e.2 = r := by
  unfold setHostKey
  by_cases h' : hk.any (·.1 = n) = true
  · rw [if_pos h']; exact h
  · rw [if_neg h']
    intro e he
    rw [List.mem_append] at he
    rcases he with he | he
    · exact h e he
    · simp only [List.mem_singleton] at he; rw [he]

theorem dictGet_of_hasKey (hk : List (Str × HKRec)) (n : Str) (r : HKRec) (h : hasKey hk n = true) (ha : ∀ e ∈ hk, e.2 = r) :
    dictGet hk n = some r := by
  unfold dictGet
  unfold hasKey at h
  rw [List.any_eq_true] at h
  obtain ⟨e, he, hen⟩ := h
  cases hf : hk.find? (·.1 = n) with
  | none =>
    have := List.find?_eq_none.mp hf e he
    exact absurd hen this
  | some x =>
    have hx := List.mem_of_find?_eq_some hf
    simp [ha x hx]

theorem foldl_setHostKey (names : List Str) (hk : List (Str × HKRec)) (r : HKRec) (ha : ∀ e ∈ hk, e.2 = r) :
    (∀ e ∈ names.foldl (fun h n => setHostKey h n r) hk, e.2 = r) ∧
    (∀ m, hasKey hk m = true → hasKey (names.foldl (fun h n => setHostKey h n r) hk) m = true) ∧
    (∀ n ∈ names, hasKey (names.foldl (fun h n => setHostKey h n r) hk) n = true) := by
  induction names generalizing hk with
  | nil => exact ⟨ha, fun _ h => h, fun _ h => by simp at h⟩
  | cons a as ih =>
    simp only [List.foldl_cons]
    obtain ⟨i1, i2, i3⟩ := ih (setHostKey hk a r) (allR_setHostKey hk a r ha)
    refine ⟨i1, fun m hm => i2 m (hasKey_setHostKey_mono hk a m r hm), ?_⟩
    intro n hn
    simp only [List.mem_cons] at hn
    rcases hn with rfl | hn
    · exact i2 _ (hasKey_setHostKey_self hk _ r)
    · exact i3 n hn

theorem dictGet_setHostKey_ne (hk : List (Str × HKRec)) (n m : Str) (r : HKRec) (h : m ≠ n) :
    dictGet (setHostKey hk n r) m = dictGet hk m := by
  unfold setHostKey
  by_cases h' : hk.any (·.1 = n) = true
  · rw [if_pos h']
  · rw [if_neg h']
    unfold dictGet
    rw [List.find?_append]
    have : List.find? (fun x => decide (x.1 = m)) [(n, r)] = none := by simp [Ne.symm h]
    rw [this, Option.or_none]

/-! ### database edits -/

theorem lookup_editKey (db db' : DB) (name : Str) (f w : List Str) (h : editKey db name f w = some db') (n : Str) :
    DBm.lookup db' Report.keyC n =
      if n = name then (DBm.lookup db Report.keyC n).map (fun e => { e with desc := extendDesc f w e.desc }) else DBm.lookup db Report.keyC n := by
  unfold editKey at h
  cases hl : DBm.lookup db Report.keyC name with
  | none => rw [hl] at h; simp at h
  | some e =>
    rw [hl] at h
    simp only [Option.some.injEq] at h
    rw [← h, Report.lookup_updateEntry]
    simp

theorem editKey_isSome (db : DB) (name : Str) (f w : List Str) (h : (DBm.lookup db Report.keyC name).isSome = true) :
    ∃ db', editKey db name f w = some db' := by
  unfold editKey
  cases hl : DBm.lookup db Report.keyC name with
  | none => rw [hl] at h; simp at h
  | some e => exact ⟨_, rfl⟩

theorem lookup_editAll (names : List Str) (hnd : names.Nodup) (db db' : DB) (f w : List Str) (h : editAll db names f w = some db') (n : Str) :
    DBm.lookup db' Report.keyC n =
      if n ∈ names then (DBm.lookup db Report.keyC n).map (fun e => { e with desc := extendDesc f w e.desc }) else DBm.lookup db Report.keyC n := by
  induction names generalizing db with
  | nil =>
    simp only [editAll, List.foldlM_nil, pure, Option.some.injEq] at h
    simp [h]
  | cons a as ih =>
    simp only [editAll, List.foldlM_cons, bind, Option.bind] at h
    cases h1 : editKey db a f w with
    | none => rw [h1] at h; simp at h
    | some d1 =>
      rw [h1] at h
      have hnd' : as.Nodup := (List.nodup_cons.mp hnd).2
      have hna : a ∉ as := (List.nodup_cons.mp hnd).1
      have := ih hnd' d1 h
      rw [this, lookup_editKey db d1 a f w h1]
      by_cases hn : n = a
      · subst hn; simp [hna]
      · by_cases hm : n ∈ as
        · simp [hn, hm]
        · simp [hn, hm]

theorem editAll_isSome (names : List Str) (db : DB) (f w : List Str) (h : ∀ n ∈ names, (DBm.lookup db Report.keyC n).isSome = true) :
    ∃ db', editAll db names f w = some db' := by
  induction names generalizing db with
  | nil => exact ⟨db, rfl⟩
  | cons a as ih =>
    obtain ⟨d1, h1⟩ := editKey_isSome db a f w (h a (by simp))
    have : ∀ n ∈ as, (DBm.lookup d1 Report.keyC n).isSome = true := by
      intro n hn
      rw [lookup_editKey db d1 a f w h1]
      have := h n (by simp [hn])
      split
      · rw [Option.isSome_map]; exact this
      · exact this
    obtain ⟨d2, h2⟩ := ih d1 this
    refine ⟨d2, ?_⟩
    simp only [editAll, List.foldlM_cons, bind, Option.bind, h1]
    exact h2

/-! ### the RSA family inside the loop -/

/-- the RSA-family part of a scan state: the family's records, its database entries, its probe connections -/
def famView (cfg : Cfg) (st : St σ) : List (Option HKRec) × List (Option Entry) × List Str :=
  (cfg.rsaFamily.map (dictGet st.hostKeys), cfg.rsaFamily.map (DBm.lookup st.db Report.keyC), st.probes.filter (fun p => cfg.rsaFamily.contains p))

theorem filter_append_not (l : List Str) (x : Str) (p : Str → Bool) (h : p x = false) : (l ++ [x]).filter p = l.filter p := by
  simp [List.filter_append, h]

/-- a pass for a type outside the RSA family leaves the family's part of the state alone -/
theorem step_other_famView (cfg : Cfg) (srv : σ → Str → Outcome × σ) (keys : List Str) (st : St σ) (t : HostKeyType)
    (h : cfg.rsaFamily.contains t.name = false) : famView cfg (step cfg srv keys st t) = famView cfg st := by
  have hne : ∀ n ∈ cfg.rsaFamily, n ≠ t.name := by
    intro n hn he
    rw [he] at hn
    have : cfg.rsaFamily.contains t.name = true := by simpa using hn
    rw [h] at this; cases this
  unfold step
  by_cases hh : st.halt.isSome = true
  · simp only [hh, if_true]
  · by_cases hp : st.parsed.contains t.name = true
    · simp only [hh, hp, if_true, if_false, Bool.false_eq_true]
    · by_cases hk : keys.contains t.name = false
      · simp only [hh, hp, hk, if_true, if_false, Bool.false_eq_true]
      · have hk := (Bool.not_eq_false _).mp hk
        simp only [hh, hp, hk, if_false, Bool.false_eq_true, Bool.true_eq_false]
        cases hr : probeResult (srv st.srv t.name).1 with
        | stop => simp only [famView, filter_append_not _ _ _ h]
        | skip => simp only [famView, filter_append_not _ _ _ h]
        | got r =>
          simp only [h, Bool.false_eq_true, and_false, if_false]
          have hk1 : cfg.rsaFamily.map (dictGet (setHostKey st.hostKeys t.name r)) = cfg.rsaFamily.map (dictGet st.hostKeys) :=
            List.map_congr_left (fun n hn => dictGet_setHostKey_ne _ _ _ _ (hne n hn))
          cases he : editAll st.db [t.name] (comments cfg t.name t.cert r.info.size r.info.caType r.info.caSize).1
              (comments cfg t.name t.cert r.info.size r.info.caType r.info.caSize).2 with
          | none => simp only [famView, filter_append_not _ _ _ h, hk1]
          | some db' =>
            have hd : cfg.rsaFamily.map (DBm.lookup db' Report.keyC) = cfg.rsaFamily.map (DBm.lookup st.db Report.keyC) := by
              apply List.map_congr_left
              intro n hn
              rw [lookup_editAll [t.name] (by simp) st.db db' _ _ he n]
              have : n ∉ [t.name] := by simp [hne n hn]
              rw [if_neg this]
            simp only [famView, filter_append_not _ _ _ h, hk1, hd]

theorem foldl_other_famView (cfg : Cfg) (srv : σ → Str → Outcome × σ) (keys : List Str) (ts : List HostKeyType) (st : St σ)
    (h : ∀ t ∈ ts, cfg.rsaFamily.contains t.name = false) : famView cfg (ts.foldl (step cfg srv keys) st) = famView cfg st := by
  induction ts generalizing st with
  | nil => rfl
  | cons t ts ih =>
    rw [List.foldl_cons, ih _ (fun u hu => h u (by simp [hu])), step_other_famView cfg srv keys st t (h t (by simp))]

/-! ### code-point order on strings and the insertion sort -/

theorem char_trichotomy (a b : Char) : a < b ∨ a = b ∨ b < a := by
  rcases Nat.lt_trichotomy a.val.toNat b.val.toNat with h | h | h
  · exact Or.inl (by rw [Char.lt_def]; exact UInt32.lt_iff_toNat_lt.mpr h)
  · exact Or.inr (Or.inl (Char.ext (UInt32.toNat_inj.mp h)))
  · exact Or.inr (Or.inr (by rw [Char.lt_def]; exact UInt32.lt_iff_toNat_lt.mpr h))

theorem ltStr_irrefl (a : Str) : Text.ltStr a a = false := by
  induction a with
  | nil => rfl
  | cons x xs ih => simp [Text.ltStr, ih]

theorem ltStr_trans (a b c : Str) (h1 : Text.ltStr a b = true) (h2 : Text.ltStr b c = true) : Text.ltStr a c = true := by
  induction a generalizing b c with
  | nil =>
    cases b with
    | nil => simp [Text.ltStr] at h1
    | cons y ys => cases c with
      | nil => simp [Text.ltStr] at h2
      | cons z zs => simp [Text.ltStr]
  | cons x xs ih =>
    cases b with
    | nil => simp [Text.ltStr] at h1
    | cons y ys =>
      cases c with
      | nil => simp [Text.ltStr] at h2
      | cons z zs =>
        simp only [Text.ltStr] at h1 h2 ⊢
        by_cases hxy : x < y
        · by_cases hyz : y < z
          · simp [Char.lt_trans hxy hyz]
          · simp only [hyz, if_false] at h2
            by_cases hzy : z < y
            · simp [hzy] at h2
            · have : y = z := by rcases char_trichotomy y z with h | h | h <;> first | exact absurd h hyz | exact h | exact absurd h hzy
              subst this; simp [hxy]
        · simp only [hxy, if_false] at h1
          by_cases hyx : y < x
          · simp [hyx] at h1
          · simp only [hyx, if_false] at h1
            have : x = y := by rcases char_trichotomy x y with h | h | h <;> first | exact absurd h hxy | exact h | exact absurd h hyx
            subst this
            by_cases hxz : x < z
            · simp [hxz]
            · simp only [hxz, if_false] at h2 ⊢
              by_cases hzx : z < x
              · simp [hzx] at h2
              · simp only [hzx, if_false] at h2 ⊢
                exact ih ys zs h1 h2

theorem ltStr_total (a b : Str) (h : a ≠ b) : Text.ltStr a b = true ∨ Text.ltStr b a = true := by
  induction a generalizing b with
  | nil =>
    cases b with
    | nil => exact absurd rfl h
    | cons y ys => left; simp [Text.ltStr]
  | cons x xs ih =>
    cases b with
    | nil => right; simp [Text.ltStr]
    | cons y ys =>
      simp only [Text.ltStr]
      rcases char_trichotomy x y with hxy | hxy | hxy
      · left; simp [hxy]
      · subst hxy
        have hne : xs ≠ ys := by intro e; apply h; rw [e]
        simp only [Char.lt_irrefl, if_false]
        exact ih ys hne
      · right; simp [hxy]

theorem ltStr_asymm (a b : Str) (h : Text.ltStr a b = true) : Text.ltStr b a = false := by
  cases hb : Text.ltStr b a with
  | false => rfl
  | true =>
    have := ltStr_trans a b a h hb
    rw [ltStr_irrefl] at this
    cases this

def ltS (a b : Str) : Prop := Text.ltStr a b = true

theorem mem_insertSorted (k x : Str) (l : List Str) : x ∈ insertSorted k l ↔ x = k ∨ x ∈ l := by
  induction l with
  | nil => simp [insertSorted]
  | cons y ys ih =>
    simp only [insertSorted]
    split
    · simp only [List.mem_cons, ih]
      constructor
      · rintro (h | h | h) <;> simp [h]
      · rintro (h | h | h) <;> simp [h]
    · simp [List.mem_cons]

theorem mem_sortStrs (x : Str) (l : List Str) : x ∈ sortStrs l ↔ x ∈ l := by
  induction l with
  | nil => simp [sortStrs]
  | cons y ys ih =>
    have : sortStrs (y :: ys) = insertSorted y (sortStrs ys) := rfl
    rw [this, mem_insertSorted, ih]; simp

theorem sorted_insert (k : Str) (l : List Str) (hs : l.Pairwise ltS) (hk : k ∉ l) : (insertSorted k l).Pairwise ltS := by
  induction l with
  | nil => simp [insertSorted]
  | cons x xs ih =>
    have hx := List.pairwise_cons.mp hs
    simp only [insertSorted]
    by_cases hlt : Text.ltStr x k = true
    · rw [if_pos hlt]
      rw [List.pairwise_cons]
      refine ⟨?_, ih hx.2 (fun h => hk (by simp [h]))⟩
      intro y hy
      rw [mem_insertSorted] at hy
      rcases hy with rfl | hy
      · exact hlt
      · exact hx.1 y hy
    · rw [if_neg hlt]
      have hne : k ≠ x := fun e => hk (by simp [e])
      have hkx : Text.ltStr k x = true := by
        rcases ltStr_total k x hne with h | h
        · exact h
        · exact absurd h hlt
      rw [List.pairwise_cons]
      refine ⟨?_, hs⟩
      intro y hy
      simp only [List.mem_cons] at hy
      rcases hy with rfl | hy
      · exact hkx
      · exact ltStr_trans k x y hkx (hx.1 y hy)

theorem sorted_sortStrs (l : List Str) (hn : l.Nodup) : (sortStrs l).Pairwise ltS := by
  induction l with
  | nil => simp [sortStrs]
  | cons x xs ih =>
    have hx := List.nodup_cons.mp hn
    have : sortStrs (x :: xs) = insertSorted x (sortStrs xs) := rfl
    rw [this]
    exact sorted_insert x _ (ih hx.2) (by rw [mem_sortStrs]; exact hx.1)

theorem nodup_of_sorted (l : List Str) (h : l.Pairwise ltS) : l.Nodup := by
  unfold List.Nodup
  exact h.imp (fun {a b} hab => by intro e; subst e; unfold ltS at hab; rw [ltStr_irrefl] at hab; cases hab)

/-- two label-sorted lists with the same members are equal -/
theorem sorted_ext {β : Type} (a b : List (Str × β)) (ha : (a.map (·.1)).Pairwise ltS) (hb : (b.map (·.1)).Pairwise ltS)
    (h : ∀ p, p ∈ a ↔ p ∈ b) : a = b := by
  have pa : a.Pairwise (fun p q => ltS p.1 q.1) := List.pairwise_map.mp ha
  have pb : b.Pairwise (fun p q => ltS p.1 q.1) := List.pairwise_map.mp hb
  have na : a.Nodup := pa.imp (fun {p q} hpq => by intro e; subst e; unfold ltS at hpq; rw [ltStr_irrefl] at hpq; cases hpq)
  have nb : b.Nodup := pb.imp (fun {p q} hpq => by intro e; subst e; unfold ltS at hpq; rw [ltStr_irrefl] at hpq; cases hpq)
  have hperm : a.Perm b := (List.perm_ext_iff_of_nodup na nb).mpr h
  exact List.Perm.eq_of_pairwise (le := fun p q => ltS p.1 q.1)
    (fun p q _ _ h1 h2 => by unfold ltS at h1 h2; rw [ltStr_asymm _ _ h1] at h2; cases h2) pa pb hperm

/-! ### association-list dictionaries -/

section dict
variable {α : Type}

def keysOf (d : List (Str × α)) : List Str := d.map (·.1)

theorem mem_dictDel (d : List (Str × α)) (k : Str) (e : Str × α) : e ∈ dictDel d k ↔ e ∈ d ∧ e.1 ≠ k := by
  simp [dictDel, List.mem_filter]

theorem nodup_dictDel (d : List (Str × α)) (k : Str) (h : (keysOf d).Nodup) : (keysOf (dictDel d k)).Nodup := by
  unfold keysOf dictDel
  exact List.Nodup.sublist (List.Sublist.map _ List.filter_sublist) h

theorem any_key_iff (d : List (Str × α)) (k : Str) : d.any (·.1 = k) = true ↔ k ∈ keysOf d := by
  simp only [keysOf, List.any_eq_true, List.mem_map, decide_eq_true_eq]

theorem keys_dictSet (d : List (Str × α)) (k : Str) (v : α) :
    keysOf (dictSet d k v) = if k ∈ keysOf d then keysOf d else keysOf d ++ [k] := by
  unfold dictSet
  by_cases h : d.any (·.1 = k) = true
  · rw [if_pos h, if_pos ((any_key_iff d k).mp h)]
    unfold keysOf
    rw [List.map_map]
    apply List.map_congr_left
    intro e _
    simp only [Function.comp]
    split
    · next he => exact he.symm
    · rfl
  · rw [if_neg h, if_neg (fun hk => h ((any_key_iff d k).mpr hk))]
    simp [keysOf]

theorem nodup_dictSet (d : List (Str × α)) (k : Str) (v : α) (h : (keysOf d).Nodup) : (keysOf (dictSet d k v)).Nodup := by
  rw [keys_dictSet]
  split
  · exact h
  · next hk => exact List.nodup_append.mpr ⟨h, by simp, by intro a ha b hb; simp only [List.mem_singleton] at hb; subst hb; intro e; subst e; exact hk ha⟩

theorem mem_dictSet (d : List (Str × α)) (k : Str) (v : α) (e : Str × α) :
    e ∈ dictSet d k v ↔ (e ∈ d ∧ e.1 ≠ k) ∨ (e = (k, v)) := by
  unfold dictSet
  by_cases h : d.any (·.1 = k) = true
  · rw [if_pos h]
    rw [List.any_eq_true] at h
    obtain ⟨x, hx, hxk⟩ := h
    simp only [decide_eq_true_eq] at hxk
    simp only [List.mem_map]
    constructor
    · rintro ⟨y, hy, rfl⟩
      by_cases hyk : y.1 = k
      · right; simp [hyk]
      · left; simp [hyk, hy]
    · rintro (⟨he, hek⟩ | he)
      · exact ⟨e, he, by simp [hek]⟩
      · exact ⟨x, hx, by simp [hxk, he]⟩
  · rw [if_neg h]
    have hall : ∀ y ∈ d, y.1 ≠ k := by
      intro y hy hyk
      apply h
      rw [List.any_eq_true]
      exact ⟨y, hy, by simp [hyk]⟩
    simp only [List.mem_append, List.mem_singleton]
    constructor
    · rintro (he | he)
      · exact Or.inl ⟨he, hall e he⟩
      · exact Or.inr he
    · rintro (⟨he, _⟩ | he)
      · exact Or.inl he
      · exact Or.inr he

theorem dictGet_iff_mem (d : List (Str × α)) (h : (keysOf d).Nodup) (k : Str) (v : α) : dictGet d k = some v ↔ (k, v) ∈ d := by
  unfold dictGet
  induction d with
  | nil => simp
  | cons x xs ih =>
    have hx := List.nodup_cons.mp (by simpa [keysOf] using h : (x.1 :: keysOf xs).Nodup)
    simp only [List.find?_cons]
    by_cases hxk : x.1 = k
    · simp only [hxk, decide_true, Option.map_some, Option.some.injEq, List.mem_cons]
      constructor
      · intro hv; left; rw [← hv, ← hxk]
      · rintro (he | he)
        · rw [← he]
        · exfalso; apply hx.1; rw [hxk]; exact List.mem_map_of_mem (f := (·.1)) he
    · simp only [hxk, decide_false, List.mem_cons]
      rw [ih hx.2]
      constructor
      · intro h'; right; exact h'
      · rintro (he | he)
        · exfalso; apply hxk; rw [← he]
        · exact he

end dict

/-! ### fingerprint lists -/

/-- some record with fingerprint label `L` carries the bytes `raw` -/
def LabRaw (rf : List Str) (hk : List (Str × HKRec)) (L : Str) (raw : Bytes) : Prop :=
  ∃ e ∈ hk, fpLabel rf e.1 = L ∧ e.2.raw = raw

/-- records with the same fingerprint label carry the same bytes -/
def LabelDet (rf : List Str) (hk : List (Str × HKRec)) : Prop :=
  ∀ e ∈ hk, ∀ e' ∈ hk, fpLabel rf e.1 = fpLabel rf e'.1 → e.2.raw = e'.2.raw

theorem fpLabel_tRsa (rf : List Str) : fpLabel rf tRsa = tRsa := by unfold fpLabel; split <;> rfl

theorem text_fold (rf : List Str) (hk : List (Str × HKRec)) (d0 : List (Str × Bytes)) (h0 : (keysOf d0).Nodup) :
    let d := hk.foldl (fun d e => if isCert (fpLabel rf e.1) then d else dictSet d (fpLabel rf e.1) e.2.raw) d0
    (keysOf d).Nodup ∧
    (∀ L raw, (L, raw) ∈ d → (L, raw) ∈ d0 ∨ (isCert L = false ∧ LabRaw rf hk L raw)) ∧
    (∀ L, (L ∈ keysOf d0 ∨ (isCert L = false ∧ ∃ e ∈ hk, fpLabel rf e.1 = L)) → L ∈ keysOf d) := by
  induction hk generalizing d0 with
  | nil =>
    refine ⟨h0, fun L raw h => Or.inl h, ?_⟩
    rintro L (h | ⟨_, e, he, _⟩)
    · exact h
    · simp at he
  | cons x xs ih =>
    simp only [List.foldl_cons]
    by_cases hc : isCert (fpLabel rf x.1) = true
    · simp only [hc, if_true]
      obtain ⟨i1, i2, i3⟩ := ih d0 h0
      refine ⟨i1, ?_, ?_⟩
      · intro L raw h
        rcases i2 L raw h with h | ⟨hcL, e, he, hl, hr⟩
        · exact Or.inl h
        · exact Or.inr ⟨hcL, e, by simp [he], hl, hr⟩
      · rintro L (h | ⟨hcL, e, he, hl⟩)
        · exact i3 L (Or.inl h)
        · simp only [List.mem_cons] at he
          rcases he with rfl | he
          · rw [hl, hcL] at hc; cases hc
          · exact i3 L (Or.inr ⟨hcL, e, he, hl⟩)
    · simp only [hc, if_false, Bool.false_eq_true]
      have hcf : isCert (fpLabel rf x.1) = false := by simpa using hc
      obtain ⟨i1, i2, i3⟩ := ih (dictSet d0 (fpLabel rf x.1) x.2.raw) (nodup_dictSet d0 _ _ h0)
      refine ⟨i1, ?_, ?_⟩
      · intro L raw h
        rcases i2 L raw h with h | ⟨hcL, e, he, hl, hr⟩
        · rw [mem_dictSet] at h
          rcases h with ⟨h, _⟩ | h
          · exact Or.inl h
          · simp only [Prod.mk.injEq] at h
            obtain ⟨h1, h2⟩ := h
            exact Or.inr ⟨by rw [h1]; exact hcf, x, by simp, h1.symm, h2.symm⟩
        · exact Or.inr ⟨hcL, e, by simp [he], hl, hr⟩
      · rintro L (h | ⟨hcL, e, he, hl⟩)
        · apply i3 L; left
          rw [keys_dictSet]; split
          · exact h
          · simp [h]
        · simp only [List.mem_cons] at he
          rcases he with rfl | he
          · apply i3 L; left
            rw [keys_dictSet, hl]; split
            · next hk => exact hk
            · simp
          · exact i3 L (Or.inr ⟨hcL, e, he, hl⟩)

theorem nodup_textFpDict (rf : List Str) (hk : List (Str × HKRec)) : (keysOf (textFpDict rf hk)).Nodup :=
  (text_fold rf hk [] (by simp [keysOf])).1

/-- every text fingerprint entry: a non-certificate label and the bytes of a record with that label -/
theorem textFpDict_sound (rf : List Str) (hk : List (Str × HKRec)) (L : Str) (raw : Bytes) (h : (L, raw) ∈ textFpDict rf hk) :
    isCert L = false ∧ LabRaw rf hk L raw := by
  rcases (text_fold rf hk [] (by simp [keysOf])).2.1 L raw h with h | h
  · simp at h
  · exact h

theorem textFpDict_complete (rf : List Str) (hk : List (Str × HKRec)) (e : Str × HKRec) (he : e ∈ hk) (hc : isCert (fpLabel rf e.1) = false) :
    fpLabel rf e.1 ∈ keysOf (textFpDict rf hk) :=
  (text_fold rf hk [] (by simp [keysOf])).2.2 _ (Or.inr ⟨hc, e, he, rfl⟩)

theorem mem_textFpDict_iff (rf : List Str) (hk : List (Str × HKRec)) (hd : LabelDet rf hk) (L : Str) (raw : Bytes) :
    (L, raw) ∈ textFpDict rf hk ↔ isCert L = false ∧ LabRaw rf hk L raw := by
  constructor
  · exact textFpDict_sound rf hk L raw
  · rintro ⟨hc, e, he, hl, hr⟩
    have hk' := textFpDict_complete rf hk e he (by rw [hl]; exact hc)
    rw [hl] at hk'
    unfold keysOf at hk'
    rw [List.mem_map] at hk'
    obtain ⟨p, hp, hpl⟩ := hk'
    obtain ⟨_, e', he', hl', hr'⟩ := textFpDict_sound rf hk p.1 p.2 hp
    have : e'.2.raw = e.2.raw := hd e' he' e he (by rw [hl', hl, hpl])
    have hp2 : p = (L, raw) := by
      cases p with
      | mk a b => simp only at hpl hr'; rw [← hpl, ← hr, ← this, hr']
    rw [← hp2]; exact hp

theorem map_fst_filterMap {β γ : Type} (l : List Str) (g : Str → Option β) (f : β → γ) :
    (l.filterMap (fun k => (g k).map (fun v => (k, f v)))).map (·.1) = l.filter (fun k => (g k).isSome) := by
  induction l with
  | nil => rfl
  | cons x xs ih =>
    simp only [List.filterMap_cons, List.filter_cons]
    cases hg : g x with
    | none => simpa using ih
    | some v => simpa using ih

theorem mem_textFps (rf : List Str) (hk : List (Str × HKRec)) (p : Str × Bytes) : p ∈ textFps rf hk ↔ p ∈ textFpDict rf hk := by
  unfold textFps
  simp only [List.mem_filterMap, mem_sortStrs]
  have hn := nodup_textFpDict rf hk
  constructor
  · rintro ⟨k, _, hv⟩
    cases hg : dictGet (textFpDict rf hk) k with
    | none => rw [hg] at hv; simp at hv
    | some v =>
      rw [hg] at hv; simp only [Option.map_some, Option.some.injEq] at hv
      rw [← hv]; exact (dictGet_iff_mem _ hn k v).mp hg
  · intro hp
    refine ⟨p.1, List.mem_map_of_mem (f := (·.1)) hp, ?_⟩
    have := (dictGet_iff_mem _ hn p.1 p.2).mpr hp
    rw [this]; rfl

theorem sorted_textFps (rf : List Str) (hk : List (Str × HKRec)) : ((textFps rf hk).map (·.1)).Pairwise ltS := by
  unfold textFps
  have := map_fst_filterMap (sortStrs ((textFpDict rf hk).map (·.1))) (dictGet (textFpDict rf hk)) (fun (v : Bytes) => v)
  simp only [] at this
  rw [this]
  exact List.Pairwise.filter _ (sorted_sortStrs _ (nodup_textFpDict rf hk))

/-- one pass of the renaming loop of `build_struct` -/
def renameStep (rf : List Str) (d : List (Str × HKRec)) (k : Str) : List (Str × HKRec) :=
  if rf.contains k then
    match dictGet d k with
    | some v => dictSet (dictDel d k) tRsa v
    | none => d
  else d

theorem jsonRename_eq (rf : List Str) (hk : List (Str × HKRec)) : jsonRename rf hk = (hk.map (·.1)).foldl (renameStep rf) hk := rfl

theorem dictGet_none_not_key {α : Type} (d : List (Str × α)) (k : Str) (h : dictGet d k = none) : k ∉ keysOf d := by
  intro hk
  unfold keysOf at hk
  rw [List.mem_map] at hk
  obtain ⟨e, he, hek⟩ := hk
  unfold dictGet at h
  cases hf : d.find? (·.1 = k) with
  | none => exact absurd (by simp [hek]) (List.find?_eq_none.mp hf e he)
  | some x => rw [hf] at h; simp at h

/-- the loop invariant: distinct keys, the same (label, bytes) relation as the original map, and every family key other than `ssh-rsa` still to be visited -/
def RenInv (rf : List Str) (hk d : List (Str × HKRec)) (todo : List Str) : Prop :=
  (keysOf d).Nodup ∧ (∀ L raw, LabRaw rf d L raw ↔ LabRaw rf hk L raw) ∧ (∀ k ∈ keysOf d, rf.contains k = true → k = tRsa ∨ k ∈ todo)

theorem renameStep_inv (rf : List Str) (hk d : List (Str × HKRec)) (k : Str) (todo : List Str) (hd : LabelDet rf hk)
    (h : RenInv rf hk d (k :: todo)) : RenInv rf hk (renameStep rf d k) todo := by
  obtain ⟨h1, h2, h3⟩ := h
  unfold renameStep
  by_cases hf : rf.contains k = true
  · rw [if_pos hf]
    cases hg : dictGet d k with
    | none =>
      have hnk := dictGet_none_not_key d k hg
      refine ⟨h1, h2, ?_⟩
      intro k' hk' hfk'
      rcases h3 k' hk' hfk' with h | h
      · exact Or.inl h
      · simp only [List.mem_cons] at h
        rcases h with rfl | h
        · exact absurd hk' hnk
        · exact Or.inr h
    | some v =>
      have hkv : (k, v) ∈ d := (dictGet_iff_mem d h1 k v).mp hg
      have hlk : fpLabel rf k = tRsa := by unfold fpLabel; rw [if_pos hf]
      refine ⟨nodup_dictSet _ _ _ (nodup_dictDel d k h1), ?_, ?_⟩
      · intro L raw
        rw [← h2 L raw]
        constructor
        · rintro ⟨e, he, hl, hr⟩
          rw [mem_dictSet] at he
          rcases he with ⟨he, _⟩ | he
          · rw [mem_dictDel] at he
            exact ⟨e, he.1, hl, hr⟩
          · rw [he] at hl hr
            simp only at hl hr
            rw [fpLabel_tRsa] at hl
            exact ⟨(k, v), hkv, by rw [← hl]; exact hlk, hr⟩
        · rintro ⟨e, he, hl, hr⟩
          by_cases hek : e.1 = k
          · have : e.2 = v := by
              have := (dictGet_iff_mem d h1 e.1 e.2).mpr he
              rw [hek, hg] at this
              exact (Option.some.inj this).symm
            refine ⟨(tRsa, v), ?_, ?_, ?_⟩
            · rw [mem_dictSet]; right; rfl
            · simp only; rw [fpLabel_tRsa, ← hl, hek, hlk]
            · simp only; rw [← hr, this]
          · by_cases het : e.1 = tRsa
            · have hL : L = tRsa := by rw [← hl, het, fpLabel_tRsa]
              have r1 : LabRaw rf hk tRsa e.2.raw := (h2 _ _).mp ⟨e, he, by rw [het, fpLabel_tRsa], rfl⟩
              have r2 : LabRaw rf hk tRsa v.raw := (h2 _ _).mp ⟨(k, v), hkv, hlk, rfl⟩
              obtain ⟨a, ha, hla, hra⟩ := r1
              obtain ⟨b, hb, hlb, hrb⟩ := r2
              have : a.2.raw = b.2.raw := hd a ha b hb (by rw [hla, hlb])
              refine ⟨(tRsa, v), ?_, ?_, ?_⟩
              · rw [mem_dictSet]; right; rfl
              · simp only; rw [fpLabel_tRsa, hL]
              · simp only; rw [← hr, ← hra, this, hrb]
            · refine ⟨e, ?_, hl, hr⟩
              rw [mem_dictSet]; left
              exact ⟨(mem_dictDel d k e).mpr ⟨he, hek⟩, het⟩
      · intro k' hk' hfk'
        unfold keysOf at hk'
        rw [List.mem_map] at hk'
        obtain ⟨e, he, hek'⟩ := hk'
        rw [mem_dictSet] at he
        rcases he with ⟨he, _⟩ | he
        · rw [mem_dictDel] at he
          have : k' ∈ keysOf d := by rw [← hek']; exact List.mem_map_of_mem (f := (·.1)) he.1
          rcases h3 k' this hfk' with h | h
          · exact Or.inl h
          · simp only [List.mem_cons] at h
            rcases h with rfl | h
            · exact absurd hek' he.2
            · exact Or.inr h
        · left; rw [← hek', he]
  · rw [if_neg hf]
    refine ⟨h1, h2, ?_⟩
    intro k' hk' hfk'
    rcases h3 k' hk' hfk' with h | h
    · exact Or.inl h
    · simp only [List.mem_cons] at h
      rcases h with rfl | h
      · exact absurd hfk' hf
      · exact Or.inr h

theorem rename_fold_inv (rf : List Str) (hk : List (Str × HKRec)) (hd : LabelDet rf hk) (todo : List Str) (d : List (Str × HKRec))
    (h : RenInv rf hk d todo) : RenInv rf hk (todo.foldl (renameStep rf) d) [] := by
  induction todo generalizing d with
  | nil => exact h
  | cons k ks ih => exact ih _ (renameStep_inv rf hk d k ks hd h)

theorem jsonRename_inv (rf : List Str) (hk : List (Str × HKRec)) (hn : (keysOf hk).Nodup) (hd : LabelDet rf hk) :
    RenInv rf hk (jsonRename rf hk) [] := by
  rw [jsonRename_eq]
  apply rename_fold_inv rf hk hd
  exact ⟨hn, fun _ _ => Iff.rfl, fun k hk' _ => Or.inr hk'⟩

theorem mem_jsonFps (rf : List Str) (hk : List (Str × HKRec)) (hn : (keysOf hk).Nodup) (hd : LabelDet rf hk) (L : Str) (raw : Bytes) :
    (L, raw) ∈ jsonFps rf hk ↔ isCert L = false ∧ LabRaw rf hk L raw := by
  obtain ⟨i1, i2, i3⟩ := jsonRename_inv rf hk hn hd
  have hlab : ∀ e ∈ jsonRename rf hk, fpLabel rf e.1 = e.1 := by
    intro e he
    unfold fpLabel
    split
    · next hc =>
      rcases i3 e.1 (List.mem_map_of_mem (f := (·.1)) he) hc with h | h
      · exact h.symm
      · simp at h
    · rfl
  rw [← i2 L raw]
  unfold jsonFps
  simp only [List.mem_filterMap, List.mem_filter, mem_sortStrs, Bool.not_eq_true', Option.map_eq_some_iff, Prod.mk.injEq]
  constructor
  · rintro ⟨k, ⟨_, hc⟩, v, hv, rfl, rfl⟩
    have hm := (dictGet_iff_mem _ i1 k v).mp hv
    exact ⟨hc, (k, v), hm, hlab _ hm, rfl⟩
  · rintro ⟨hc, e, he, hl, hr⟩
    have hl' : e.1 = L := by rw [← hl, hlab e he]
    refine ⟨L, ⟨?_, hc⟩, e.2, ?_, rfl, hr⟩
    · rw [← hl']; exact List.mem_map_of_mem (f := (·.1)) he
    · rw [← hl']; exact (dictGet_iff_mem _ i1 e.1 e.2).mpr he

theorem sorted_jsonFps (rf : List Str) (hk : List (Str × HKRec)) (hn : (keysOf hk).Nodup) (hd : LabelDet rf hk) :
    ((jsonFps rf hk).map (·.1)).Pairwise ltS := by
  obtain ⟨i1, _, _⟩ := jsonRename_inv rf hk hn hd
  unfold jsonFps
  have := map_fst_filterMap ((sortStrs ((jsonRename rf hk).map (·.1))).filter (fun k => !isCert k)) (dictGet (jsonRename rf hk)) (fun (v : HKRec) => v.raw)
  rw [this]
  exact List.Pairwise.filter _ (List.Pairwise.filter _ (sorted_sortStrs _ i1))

/-- **text and JSON list the same fingerprint entries** (label and hashed bytes, in the same order), for every host-key map with distinct
    types in which records sharing a fingerprint label share their bytes -/
theorem textFps_eq_jsonFps (rf : List Str) (hk : List (Str × HKRec)) (hn : (keysOf hk).Nodup) (hd : LabelDet rf hk) :
    textFps rf hk = jsonFps rf hk := by
  apply sorted_ext _ _ (sorted_textFps rf hk) (sorted_jsonFps rf hk hn hd)
  intro p
  obtain ⟨L, raw⟩ := p
  rw [mem_textFps, mem_textFpDict_iff rf hk hd, mem_jsonFps rf hk hn hd]

/-! ### small facts used by the property file -/

theorem isEcc_nil : isEcc [] = false := by decide +kernel
theorem not_ecdsa_nil : Text.startsWith [] pEcdsa = false := by decide +kernel

theorem not_ecdsa_of_not_ecc (t : Str) (h : isEcc t = false) : Text.startsWith t pEcdsa = false := by
  unfold isEcc at h
  simp only [Bool.or_eq_false_iff] at h
  exact h.2

theorem find_toReport (hk : List (Str × HKRec)) (n : Str) :
    (toReport hk).find? (·.1 = n) = (hk.find? (·.1 = n)).map (fun e => (e.1, e.2.info)) := by
  unfold toReport
  induction hk with
  | nil => rfl
  | cons x xs ih =>
    simp only [List.map_cons, List.find?_cons]
    by_cases h : x.1 = n <;> simp [h, ih]

theorem notesOf_map_some (lvl : Report.Level) (l : List Str) :
    Report.notesOf lvl (l.map some) = l.map (fun t => ({ level := lvl, text := t } : Report.Note)) := by
  unfold Report.notesOf
  induction l with
  | nil => rfl
  | cons x xs ih => simp only [List.map_cons, List.filterMap_cons, id] at ih ⊢; rw [ih]

theorem notesOf_append (lvl : Report.Level) (a b : List (Option Str)) : Report.notesOf lvl (a ++ b) = Report.notesOf lvl a ++ Report.notesOf lvl b := by
  simp [Report.notesOf, List.filterMap_append]


section scan
variable {σ : Type}

/-! ### the host-key map after a scan: distinct types, one record for the whole RSA family -/

def FamSame (rf : List Str) (hk : List (Str × HKRec)) : Prop :=
  ∀ e ∈ hk, ∀ e' ∈ hk, rf.contains e.1 = true → rf.contains e'.1 = true → e.2 = e'.2

theorem keys_setHostKey (hk : List (Str × HKRec)) (n : Str) (r : HKRec) :
    keysOf (setHostKey hk n r) = if n ∈ keysOf hk then keysOf hk else keysOf hk ++ [n] := by
  unfold setHostKey
  by_cases h : hk.any (·.1 = n) = true
  · rw [if_pos h, if_pos ((any_key_iff hk n).mp h)]
  · rw [if_neg h, if_neg (fun hk' => h ((any_key_iff hk n).mpr hk'))]; simp [keysOf]

theorem nodup_setHostKey (hk : List (Str × HKRec)) (n : Str) (r : HKRec) (h : (keysOf hk).Nodup) : (keysOf (setHostKey hk n r)).Nodup := by
  rw [keys_setHostKey]
  split
  · exact h
  · next hk' => exact List.nodup_append.mpr ⟨h, by simp, by intro a ha b hb; simp only [List.mem_singleton] at hb; subst hb; intro e; subst e; exact hk' ha⟩

theorem mem_setHostKey (hk : List (Str × HKRec)) (n : Str) (r : HKRec) (e : Str × HKRec) (h : e ∈ setHostKey hk n r) : e ∈ hk ∨ e = (n, r) := by
  unfold setHostKey at h
  split at h
  · exact Or.inl h
  · simp only [List.mem_append, List.mem_singleton] at h; exact h

theorem mem_setHostKey_of_mem (hk : List (Str × HKRec)) (n : Str) (r : HKRec) (e : Str × HKRec) (h : e ∈ hk) : e ∈ setHostKey hk n r := by
  unfold setHostKey
  split
  · exact h
  · simp [h]

theorem foldl_setHostKey_mem (names : List Str) (hk : List (Str × HKRec)) (r : HKRec) :
    ((keysOf hk).Nodup → (keysOf (names.foldl (fun h n => setHostKey h n r) hk)).Nodup) ∧
    (∀ e ∈ names.foldl (fun h n => setHostKey h n r) hk, e ∈ hk ∨ (e.1 ∈ names ∧ e.2 = r)) ∧
    (∀ e ∈ hk, e ∈ names.foldl (fun h n => setHostKey h n r) hk) := by
  induction names generalizing hk with
  | nil => exact ⟨id, fun e he => Or.inl he, fun e he => he⟩
  | cons a as ih =>
    simp only [List.foldl_cons]
    obtain ⟨i1, i2, i3⟩ := ih (setHostKey hk a r)
    refine ⟨fun h => i1 (nodup_setHostKey hk a r h), ?_, fun e he => i3 e (mem_setHostKey_of_mem hk a r e he)⟩
    intro e he
    rcases i2 e he with h | ⟨h1, h2⟩
    · rcases mem_setHostKey hk a r e h with h | h
      · exact Or.inl h
      · right; rw [h]; simp
    · right; exact ⟨by simp [h1], h2⟩

/-- invariant of the loop of `perform_test` -/
def ScanInv (cfg : Cfg) (st : St σ) : Prop :=
  (keysOf st.hostKeys).Nodup ∧ FamSame cfg.rsaFamily st.hostKeys ∧
  (st.halt = none → (∃ e ∈ st.hostKeys, cfg.rsaFamily.contains e.1 = true) → ∀ n ∈ cfg.rsaFamily, st.parsed.contains n = true)

theorem step_inv (cfg : Cfg) (srv : σ → Str → Outcome × σ) (keys : List Str) (st : St σ) (t : HostKeyType)
    (h : ScanInv cfg st) : ScanInv cfg (step cfg srv keys st t) := by
  obtain ⟨h1, h2, h3⟩ := h
  unfold step
  by_cases hh : st.halt.isSome = true
  · simp only [hh, if_true]; exact ⟨h1, h2, h3⟩
  · have hnone : st.halt = none := by cases hq : st.halt with | none => rfl | some x => rw [hq] at hh; simp at hh
    by_cases hp : st.parsed.contains t.name = true
    · simp only [hh, hp, if_true, if_false, Bool.false_eq_true]; exact ⟨h1, h2, h3⟩
    · by_cases hk : keys.contains t.name = false
      · simp only [hh, hp, hk, if_true, if_false, Bool.false_eq_true]; exact ⟨h1, h2, h3⟩
      · have hk := (Bool.not_eq_false _).mp hk
        simp only [hh, hp, hk, if_false, Bool.false_eq_true, Bool.true_eq_false]
        cases hr : probeResult (srv st.srv t.name).1 with
        | stop => exact ⟨h1, h2, fun hc => by simp at hc⟩
        | skip => exact ⟨h1, h2, h3⟩
        | got r =>
          simp only []
          -- the new host-key map
          generalize hhk2 : (if t.cert = false ∧ cfg.rsaFamily.contains t.name = true then
              cfg.rsaFamily.foldl (fun h n => setHostKey h n r) (setHostKey st.hostKeys t.name r) else setHostKey st.hostKeys t.name r) = hk2
          have hnd : (keysOf hk2).Nodup := by
            rw [← hhk2]; split
            · exact (foldl_setHostKey_mem cfg.rsaFamily _ r).1 (nodup_setHostKey _ _ _ h1)
            · exact nodup_setHostKey _ _ _ h1
          have hmem : ∀ e ∈ hk2, e ∈ st.hostKeys ∨ e.2 = r ∧ (e.1 = t.name ∨ (cfg.rsaFamily.contains t.name = true ∧ cfg.rsaFamily.contains e.1 = true)) := by
            intro e he
            rw [← hhk2] at he
            split at he
            · next hc =>
              rcases (foldl_setHostKey_mem cfg.rsaFamily _ r).2.1 e he with h | ⟨ha, hb⟩
              · rcases mem_setHostKey _ _ _ _ h with h | h
                · exact Or.inl h
                · right; rw [h]; exact ⟨rfl, Or.inl rfl⟩
              · right; exact ⟨hb, Or.inr ⟨hc.2, by simpa using ha⟩⟩
            · rcases mem_setHostKey _ _ _ _ he with h | h
              · exact Or.inl h
              · right; rw [h]; exact ⟨rfl, Or.inl rfl⟩
          have hsub : ∀ e ∈ st.hostKeys, e ∈ hk2 := by
            intro e he
            rw [← hhk2]; split
            · exact (foldl_setHostKey_mem cfg.rsaFamily _ r).2.2 e (mem_setHostKey_of_mem _ _ _ _ he)
            · exact mem_setHostKey_of_mem _ _ _ _ he
          have hfs : FamSame cfg.rsaFamily hk2 := by
            by_cases hf : cfg.rsaFamily.contains t.name = true
            · -- nothing of the family was recorded before
              have hno : ∀ e ∈ st.hostKeys, cfg.rsaFamily.contains e.1 = false := by
                intro e he
                cases hc : cfg.rsaFamily.contains e.1 with
                | false => rfl
                | true =>
                  have := h3 hnone ⟨e, he, hc⟩ t.name (by simpa using hf)
                  exact absurd this hp
              intro e he e' he' hc hc'
              have v : ∀ x ∈ hk2, cfg.rsaFamily.contains x.1 = true → x.2 = r := by
                intro x hx hcx
                rcases hmem x hx with h | ⟨h, _⟩
                · rw [hno x h] at hcx; cases hcx
                · exact h
              rw [v e he hc, v e' he' hc']
            · intro e he e' he' hc hc'
              have v : ∀ x ∈ hk2, cfg.rsaFamily.contains x.1 = true → x ∈ st.hostKeys := by
                intro x hx hcx
                rcases hmem x hx with h | ⟨_, h | ⟨h, _⟩⟩
                · exact h
                · rw [h] at hcx; exact absurd hcx hf
                · exact absurd h hf
              exact h2 e (v e he hc) e' (v e' he' hc') hc hc'
          cases he : editAll st.db (if cfg.rsaFamily.contains t.name = true then cfg.rsaFamily else [t.name])
              (comments cfg t.name t.cert r.info.size r.info.caType r.info.caSize).1
              (comments cfg t.name t.cert r.info.size r.info.caType r.info.caSize).2 with
          | none => exact ⟨hnd, hfs, fun hc => by simp at hc⟩
          | some db' =>
            refine ⟨hnd, hfs, ?_⟩
            intro _ ⟨e, he2, hce⟩ n hn
            simp only [List.contains_eq_mem, List.mem_append, decide_eq_true_eq, Bool.decide_or, Bool.or_eq_true]
            by_cases hf : cfg.rsaFamily.contains t.name = true
            · right; rw [if_pos (by simpa using hf)]; exact hn
            · left
              have : e ∈ st.hostKeys := by
                rcases hmem e he2 with h | ⟨_, h | ⟨h, _⟩⟩
                · exact h
                · rw [h] at hce; exact absurd hce hf
                · exact absurd h hf
              simpa using h3 hnone ⟨e, this, hce⟩ n hn

theorem perform_inv (cfg : Cfg) (srv : σ → Str → Outcome × σ) (keys : List Str) (ts : List HostKeyType) (st : St σ)
    (h : ScanInv cfg st) : ScanInv cfg (ts.foldl (step cfg srv keys) st) := by
  induction ts generalizing st with
  | nil => exact h
  | cons t ts ih => exact ih _ (step_inv cfg srv keys st t h)

theorem run_inv (cfg : Cfg) (srv : σ → Str → Outcome × σ) (s0 : σ) (db : DB) (kex keys : List Str) : ScanInv cfg (run cfg srv s0 db kex keys) := by
  have h0 : ScanInv cfg (initSt s0 db) := ⟨by simp [initSt, keysOf], by intro e he; simp [initSt] at he, by intro _ ⟨e, he, _⟩; simp [initSt] at he⟩
  unfold run
  split
  · exact perform_inv cfg srv keys cfg.types _ h0
  · exact h0

theorem labelDet_of_famSame (rf : List Str) (hk : List (Str × HKRec)) (ht : rf.contains tRsa = true) (hn : (keysOf hk).Nodup) (hf : FamSame rf hk) :
    LabelDet rf hk := by
  intro e he e' he' hl
  unfold fpLabel at hl
  by_cases hc : rf.contains e.1 = true <;> by_cases hc' : rf.contains e'.1 = true
  · rw [hf e he e' he' hc hc']
  · rw [if_pos hc, if_neg hc'] at hl
    rw [← hl] at hc'; exact absurd ht hc'
  · rw [if_neg hc, if_pos hc'] at hl
    rw [hl] at hc; exact absurd ht hc
  · rw [if_neg hc, if_neg hc'] at hl
    have a := (dictGet_iff_mem hk hn e.1 e.2).mpr he
    have b := (dictGet_iff_mem hk hn e'.1 e'.2).mpr he'
    rw [hl, b] at a
    rw [Option.some.inj a]

end scan

end SshAudit.HostKey
