/-
  Minimal JSON value + printer and the token decoder of the line protocol (driver only;
  nothing here is used by any theorem).  Import-free.
-/
import SshAudit.Model.Types
namespace SshAudit.Driver

inductive J where
  | null | bool (b : Bool) | num (n : Int) | str (s : Str) | arr (xs : List J) | obj (kvs : List (String × J))

def hex4 (n : Nat) : String :=
  let d := fun (k : Nat) => "0123456789abcdef".toList.getD (k % 16) '0'
  String.ofList [d (n / 4096), d (n / 256), d (n / 16), d n]

def escChar (c : Char) : String :=
  if c = '"' then "\\\"" else if c = '\\' then "\\\\"
  else if 32 ≤ c.toNat ∧ c.toNat < 127 then String.singleton c
  else if c.toNat < 65536 then "\\u" ++ hex4 c.toNat
  else
    let v := c.toNat - 65536
    "\\u" ++ hex4 (0xD800 + v / 1024) ++ "\\u" ++ hex4 (0xDC00 + v % 1024)

def escStr (s : Str) : String := "\"" ++ String.join (s.map escChar) ++ "\""

partial def J.render : J → String
  | .null => "null"
  | .bool b => if b then "true" else "false"
  | .num n => toString n
  | .str s => escStr s
  | .arr xs => "[" ++ ", ".intercalate (xs.map J.render) ++ "]"
  | .obj kvs => "{" ++ ", ".intercalate (kvs.map fun (k, v) => escStr k.toList ++ ": " ++ v.render) ++ "}"

def J.ofStrs (xs : List Str) : J := .arr (xs.map .str)
def J.ofOpt {α} (f : α → J) : Option α → J | none => .null | some a => f a
def J.nat (n : Nat) : J := .num n

/-! ### token decoding -/

def hexVal (c : Char) : Option Nat :=
  if '0' ≤ c ∧ c ≤ '9' then some (c.toNat - 48)
  else if 'a' ≤ c ∧ c ≤ 'f' then some (c.toNat - 87)
  else if 'A' ≤ c ∧ c ≤ 'F' then some (c.toNat - 55) else none

def hexNat (s : String) : Option Nat :=
  if s.isEmpty then none else s.toList.foldlM (fun acc c => (hexVal c).map (acc * 16 + ·)) 0

/-- text token: code points in hex separated by `.`; `-` is the empty string -/
def decStr (tok : String) : Option Str :=
  if tok = "-" then some [] else (tok.splitOn ".").mapM (fun h => (hexNat h).map Char.ofNat)

/-- list-of-text token: text tokens separated by `,`; `_` is the empty list -/
def decStrs (tok : String) : Option (List Str) :=
  if tok = "_" then some [] else (tok.splitOn ",").mapM decStr

/-- optional list: `~` is None -/
def decOptStrs (tok : String) : Option (Option (List Str)) :=
  if tok = "~" then some none else (decStrs tok).map some

def decOptStr (tok : String) : Option (Option Str) :=
  if tok = "~" then some none else (decStr tok).map some

/-- bytes token: plain hex, `-` is empty -/
def decBytes (tok : String) : Option Bytes :=
  if tok = "-" then some [] else
    let rec go : List Char → Option Bytes
      | [] => some []
      | a :: b :: rest => do
        let x ← hexVal a; let y ← hexVal b; let r ← go rest
        pure (UInt8.ofNat (x * 16 + y) :: r)
      | _ => none
    go tok.toList

def decInt (tok : String) : Option Int := tok.toInt?
def decNat (tok : String) : Option Nat := tok.toNat?
def decBool (tok : String) : Option Bool := if tok = "1" then some true else if tok = "0" then some false else none

def hex2 (b : UInt8) : String :=
  let d := fun (k : Nat) => "0123456789abcdef".toList.getD (k % 16) '0'
  String.ofList [d (b.toNat / 16), d b.toNat]
def J.ofBytes (bs : Bytes) : J := .str (String.join (bs.map hex2)).toList

end SshAudit.Driver
