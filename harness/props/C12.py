"""C12 — Group-exchange modulus size is measured and rated correctly.

Theorems: SshAudit.Props.C12 (reported size = positive answer to the last probe, no invention,
garbage => none, probe bound — all for arbitrary servers; the whole quantifier family
(512 moduli sets x 3 styles x banner) by kernel evaluation; rating thresholds, antitone).
Tie: the real GEXTest.run over fakenet vs. the model fed with the same answer stream:
reported size, fallback note, the exact (min, pref, max) request log, and the edited database entry.
Oracle (independent of the model): Python re-implementations of the three server styles; the
reported size must be the smallest positive modulus handed out over the request log (OpenSSH
2048-fallback: the answer to the (2048,3072,4096) probe), rated per the documented thresholds.
"""
import copy
import itertools
import json

from common import Coverage, tstr, tstrs, tbool
import fakenet as fn

ID = 'C12'
MODULE = 'SshAudit.Props.C12'
NAMESPACE = 'SshAudit.C12'
THEOREMS = ['loop_lastIs', 'loop_trace_prefix', 'reported_is_last_answer', 'gex_no_invention', 'gex_garbage_none', 'gex_probe_bound',
            'gex_first_probe', 'gex_min_families', 'gex_second_pass_iff', 'rate_small', 'rate_mid', 'rate_large', 'rate_fallback',
            'rating_antitone', 'severity_thresholds']
# functions of the code whose Lean definitions are regenerated from the source on every run (harness/translate_logic.py); `GenLogic.<name>_eq_model`
# (lean/SshAudit/Props/GenLogic*.lean) ties each to the hand-written model function the theorems above are about
GEN_LOGIC = ['gex_size_class', 'gex_early_exit', 'gex_followup_updated', 'gex_probe', 'gex_report_guard', 'gex_rate']
TECHNIQUE = 'Lean 4 theorems (loop invariant by induction for arbitrary server state machines; decide +kernel over the full 512x3x2 family; threshold lemmas) + trace-level correspondence with GEXTest.run over scripted servers'
LEVEL_TEXT = ('The probe loop is modelled over an arbitrary server state machine and the safety claims (no invented size, none on garbage, probe bound) are proved by induction for every server; '
              'the statement "smallest modulus across the fixed probe sequence / OpenSSH follow-up" is kernel-evaluated over the property\'s entire family; thresholds are lemmas about the entry edit. '
              'The model is fed the answer stream observed from scripted servers and compared with the real GEXTest.run: reported size, note, exact request log, edited entry.')
LEVEL_NOTE = ('Trusted: Lean kernel; fakenet (in-process scripted SSH server) and the harness; modular exponentiation uses a deterministic small exponent (SystemRandom stubbed). '
              'Replies that are not well-formed group messages (p <= 5, truncated) are part of C09, not C12. The three server styles are spec-side definitions written from OpenSSH dh.c / RFC 4419.')

OPENSSH_BANNERS = ['SSH-2.0-OpenSSH_8.9p1', 'SSH-2.0-OpenSSH_for_Windows_8.1', 'SSH-2.0-OpenSSH_7.4-hpn14v14', 'SSH-1.99-OpenSSH_3.9p1', 'SSH-2.0-OpenSSH_9.6p1 Ubuntu-3ubuntu13',
                   'SSH-2.0-OpenSSH_10.0']
OTHER_BANNERS = ['SSH-2.0-dropbear_2022.83', 'SSH-2.0-libssh_0.10.6', 'SSH-2.0-openssh_8.0', 'SSH-2.0-Open_SSH_8.0', 'SSH-2.0-Cisco-1.25', 'SSH-2.0-dropbear OpenSSH-compatible']
UNIVERSE = [512, 768, 1024, 1536, 2048, 3072, 4096, 6144, 8192]
SHA1 = 'diffie-hellman-group-exchange-sha1'
SHA256 = 'diffie-hellman-group-exchange-sha256'


def strict(M):
    def f(mn, pf, mx):
        c = [m for m in M if mn <= m <= mx]
        ge = [m for m in c if m >= pf]
        return min(ge) if ge else (max(c) if c else None)
    return f


def round_up(M):
    def f(mn, pf, mx):
        ge = [m for m in M if m >= pf]
        return min(ge) if ge else (max(M) if M else None)
    return f


def openssh_style(M):
    def f(mn, pf, mx):
        if mx < mn or pf < mn or mx < pf:
            return None
        mn2, mx2, pf2 = max(2048, mn), min(8192, mx), min(8192, max(2048, pf))
        c = [m for m in M if mn2 <= m <= mx2]
        ge = [m for m in c if m >= pf2]
        if ge:
            return min(ge)
        if c:
            return max(c)
        return 2048 if mx2 < 3072 else (4096 if mx2 < 6144 else 8192)
    return f


STYLES = {'strict': strict, 'roundup': round_up, 'openssh': openssh_style}


def run_real(kex_algs, banner, gexfn, refuse_after=None):
    """Runs the real GEXTest.run against a scripted server. Returns observable results."""
    from ssh_audit.ssh_socket import SSH_Socket
    from ssh_audit.ssh2_kex import SSH2_Kex
    from ssh_audit.banner import Banner
    from ssh_audit.gextest import GEXTest
    from ssh_audit.outputbuffer import OutputBuffer
    from ssh_audit.ssh2_kexdb import SSH2_KexDB
    fn.reset_dbs()
    answers = []

    def gex(mn, pf, mx):
        a = gexfn(mn, pf, mx)
        answers.append(a)
        return a
    if isinstance(gexfn, dict):     # one policy per algorithm
        def per(alg):
            def g(mn, pf, mx):
                a = gexfn[alg](mn, pf, mx)
                answers.append(a)
                return a
            return g
        gex = {alg: per(alg) for alg in gexfn}
    payload = fn.kexinit(kex_algs, ['ssh-ed25519'], ['aes256-ctr'], ['hmac-sha2-256'])
    srv = fn.Server(banner=banner, kexinit_payload=payload, gex=gex)
    net = fn.FakeNet({'10.9.9.9': srv})
    if refuse_after is not None:
        orig_route = net.route

        def route(addr):
            return None if len(net.connects) > refuse_after else orig_route(addr)
        net.route = route
    out = OutputBuffer()
    with fn.patched(net):
        s = SSH_Socket(out, '10.9.9.9', 22)
        kex = SSH2_Kex.parse(out, payload[1:])
        GEXTest.run(out, s, Banner.parse(banner.decode()), kex)
    db = SSH2_KexDB.get_db()['kex']
    res = {'sizes': dict(kex.dh_modulus_sizes()), 'requests': list(srv.gexlog), 'answers': answers,
           'entries': {a: copy.deepcopy(db[a]) for a in (SHA1, SHA256)}, 'connects': len(net.connects), 'unclosed': len(net.unclosed())}
    fn.reset_dbs()
    return res


def t_desc(d):
    return ';'.join('_' if not l else ','.join('~' if x is None else tstr(x) for x in l) for l in d)


def expected_report(requests, answers, is_openssh):
    """The statement, evaluated on the request/answer log of one algorithm."""
    pos = [a for a in answers if isinstance(a, int) and a > 0]
    if requests and requests[-1] == (2048, 3072, 4096) and is_openssh:
        a = answers[-1]
        return (a if isinstance(a, int) and a > 0 else None), bool(isinstance(a, int) and a > 0 and a != 2048)
    return (min(pos) if pos else None), False


def full_sequence_expectation(f, is_openssh):
    """The statement for a monotone moduli policy, independent of what the tool actually probed: the smallest modulus handed out over
    the whole fixed probe sequence; for OpenSSH servers ending at 2048, the answer to the follow-up (2048, 3072, 4096) probe."""
    answers = [f(512, 1024, 1536)] + [f(b, b, b) for b in (512, 768, 1024, 1536, 2048, 3072, 4096)]
    pos = [a for a in answers if isinstance(a, int) and a > 0]
    m = min(pos) if pos else None
    if m == 2048 and is_openssh:
        a = f(2048, 3072, 4096)
        return (a if isinstance(a, int) and a > 0 else None), bool(isinstance(a, int) and a > 0 and a != 2048)
    return m, False


def run(ctx):
    from ssh_audit.ssh2_kexdb import SSH2_KexDB
    r = ctx.rng
    cov = Coverage('one evaluation = one scripted server audited by the real GEXTest.run; non-trivial = distinct (moduli set, style, banner, algorithm) or distinct answer scripts with at least one positive answer; '
                   'family: every subset of {512..8192} x {strict, round-up, OpenSSH-fallback} x {OpenSSH, other} x {sha1, sha256} (thorough: all 6144; quick: a seeded 500), plus random non-monotone, refusing and reconnect-failing servers')
    failures, mismatches = [], []
    master = SSH2_KexDB.MASTER_DB['kex']
    fam = list(itertools.product(range(512), STYLES, [True, False], [SHA1, SHA256]))
    if ctx.tier != 'thorough':
        fam = r.sample(fam, 500) + [(0b000110001, 'roundup', False, SHA256), (0b000000101, 'strict', False, SHA1), (0b001100000, 'openssh', True, SHA256)]
        # every modulus of the universe as the only one on offer, and next to 2048 (the OpenSSH follow-up probe), under every style and banner: each size is handed out at least once
        for i in range(len(UNIVERSE)):
            for style in STYLES:
                for osh in (True, False):
                    fam.append((1 << i, style, osh, SHA256 if (i + osh) % 2 else SHA1))
                    fam.append((1 << i | 1 << UNIVERSE.index(2048), style, osh, SHA1 if (i + osh) % 2 else SHA256))
    cases = []
    # two group-exchange algorithms with a moduli policy of their own each (servers may keep separate groups per algorithm): what is
    # reported for one algorithm is measured on that algorithm (seed C05-11: the first algorithm's size copied to the second)
    for k_ in range(ctx.scale(12, 150)):
        m1, m2 = r.randrange(1, 512), r.randrange(1, 512)
        style = r.choice(list(STYLES))
        M1 = [m for i, m in enumerate(UNIVERSE) if m1 >> i & 1]
        M2 = [m for i, m in enumerate(UNIVERSE) if m2 >> i & 1]
        cases.append(({'kind': 'per-alg', 'M': {SHA1: M1, SHA256: M2}, 'style': style, 'openssh': r.random() < 0.5, 'algs': [SHA1, SHA256]},
                      {SHA1: STYLES[style](M1), SHA256: STYLES[style](M2)}, None))
    for mask, style, osh, alg in fam:
        M = [m for i, m in enumerate(UNIVERSE) if mask >> i & 1]
        cases.append(({'kind': 'family', 'M': M, 'style': style, 'openssh': osh, 'algs': [alg]}, STYLES[style](M), None))
    for k_ in range(ctx.scale(250, 3000)):
        script = [r.choice([None, None, 512, 1024, 1536, 2047, 2048, 2049, 3071, 3072, 4096, 8192, r.randint(16, 9000)]) for _ in range(20)]
        if k_ % 5 == 0:     # first pass ends on the 2048 fallback, then the follow-up probe is refused / answered
            script = [2048] * 6 + [r.choice([None, None, 3072, 4096, 2048, 1024])] + [None] * 13
        it = iter(script)
        algs = r.choice([[SHA1], [SHA256], [SHA1, SHA256], [SHA256, SHA1], ['curve25519-sha256', SHA256]])
        ra = r.choice([None, None, None, 1, 2, 3, 5, 9])
        if k_ % 5 == 0:
            algs, ra = r.choice([[SHA1], [SHA256]]), None
        cases.append(({'kind': 'scripted', 'script': script, 'openssh': (k_ % 5 == 0) or r.random() < 0.6, 'algs': algs, 'refuse_after': ra},
                      (lambda it_: (lambda mn, pf, mx: next(it_, None)))(it), ra))
    lines, expect = [], []
    ra_lines, ra_expect = [], []
    nonmono = []
    for case_no, (desc, gexfn, ra) in enumerate(cases):
        # OpenSSH in all the spellings servers really send (portable, Windows build, vendor-prefixed, bare), and other products incl. look-alikes in another case
        if 'banner' not in desc:
            desc['banner'] = r.choice(OPENSSH_BANNERS if desc['openssh'] else OTHER_BANNERS) if case_no % 3 else (OPENSSH_BANNERS[0] if desc['openssh'] else OTHER_BANNERS[0])
        banner = desc['banner'].encode()
        res = run_real(desc['algs'], banner, gexfn, refuse_after=ra)
        nontriv = any(isinstance(a, int) and a > 0 for a in res['answers'])
        cov.add(json.dumps(desc, sort_keys=True), nontriv, tags=[desc['kind'], 'openssh' if desc['openssh'] else 'other', 'reported' if res['sizes'] else 'none'],
                sample={'server': {k: v for k, v in desc.items() if k != 'script'}, 'requests': res['requests'], 'answers': res['answers'], 'reported': res['sizes']} if len(cov.samples) < 4 else None)
        # ---- model correspondence: feed the observed answer stream
        offered = [a for a in (SHA1, SHA256) if a in desc['algs']]
        # reconstruct the response stream per probe, including failed reconnects (a request never reached the server)
        toks = []
        for a in res['answers']:
            toks.append('s%d' % a if isinstance(a, int) else 'f')
        if ra is None:
            lines.append('gex.audit %s %s %s' % (tbool(desc['openssh']), tstrs(desc['algs']), ','.join(toks) if toks else '_'))
            exp = []
            # split the request log per algorithm: a new algorithm starts with (512,1024,1536)
            idx = [i for i, q in enumerate(res['requests']) if q == (512, 1024, 1536)]
            for k, a in enumerate(offered):
                if k < len(idx):
                    seg = res['requests'][idx[k]:(idx[k + 1] if k + 1 < len(idx) else None)]
                else:
                    seg = []
                exp.append({'alg': a, 'reported': res['sizes'].get(a), 'note': any('fallback mechanism' in (t or '') for l in res['entries'][a][3:4] for t in l),
                            'probes': [list(q) for q in seg]})
            expect.append((exp, desc))
        if ra is not None:
            # reconnect-failing servers: every connection after the first `ra` is refused.  Model: the answers that arrived, then failed
            # reconnects for ever; compared on what is reported per algorithm (the model logs refused probes too, the server cannot)
            ra_lines.append('gex.audit %s %s %s' % (tbool(desc['openssh']), tstrs(desc['algs']), ','.join(toks + ['r'] * 24)))
            ra_expect.append(([{'alg': a, 'reported': res['sizes'].get(a),
                                'note': any('fallback mechanism' in (t or '') for l in res['entries'][a][3:4] for t in l)} for a in offered], desc))
            # the statement: "a server that refuses … in this phase gets no size rather than a wrong one" — with one algorithm on offer, a refused
            # connection during its probing leaves it without a size
            if len(offered) == 1 and res['connects'] > ra and res['sizes'].get(offered[0]) is not None:
                failures.append({'sig': {'kind': 'size_reported_after_refused_probe'}, 'input': desc,
                                 'observed': {'reported': res['sizes'].get(offered[0]), 'requests': res['requests'], 'answers': res['answers'], 'connections': res['connects']},
                                 'expected': 'no size: the probe sequence was cut by a refused connection', 'how': 'harness/props/C12.py run_real(): GEXTest.run over fakenet'})
        # ---- oracle: the statement itself on the log
        idx = [i for i, q in enumerate(res['requests']) if q == (512, 1024, 1536)]
        for k, a in enumerate(offered):
            if ra is not None:
                break
            seg_q = res['requests'][idx[k]:(idx[k + 1] if k + 1 < len(idx) else None)] if k < len(idx) else []
            seg_a = res['answers'][idx[k]:(idx[k + 1] if k + 1 < len(idx) else None)] if k < len(idx) else []
            want, note = expected_report(seg_q, seg_a, desc['openssh'])
            got = res['sizes'].get(a)
            if desc['kind'] == 'scripted':
                # arbitrary (stateful / non-monotone) servers are outside the statement's quantifier: only "no invention" and
                # "garbage => none" apply (the two general theorems); the tool reports the answer to its last probe.
                pos = [x for x in seg_a if isinstance(x, int) and x > 0]
                note = any('fallback mechanism' in (t or '') for l in res['entries'][a][3:4] for t in l)
                if (got is not None and got not in pos) or (not pos and got is not None):
                    failures.append({'sig': {'kind': 'invented_modulus'}, 'input': desc, 'observed': {'reported': got, 'requests': seg_q, 'answers': seg_a},
                                     'expected': 'a size the server actually handed out, or none', 'how': 'harness/props/C12.py run_real(): GEXTest.run over fakenet'})
                if got != want:
                    nonmono.append((seg_a, got))
                # … and, for any server: once the OpenSSH follow-up probe (2048, 3072, 4096) was made, what is reported is its answer, or nothing if it was
                # refused / stalled / garbage — never the fallback 2048 of the first pass
                if desc['openssh'] and seg_q and seg_q[-1] == (2048, 3072, 4096) and len(seg_q) > 1:
                    ans = seg_a[-1] if len(seg_a) == len(seg_q) else None
                    want_f = ans if isinstance(ans, int) and ans > 0 else None
                    if got != want_f:
                        failures.append({'sig': {'kind': 'followup_probe_result_ignored'}, 'input': desc, 'observed': {'reported': got, 'requests': seg_q, 'answers': seg_a},
                                         'expected': {'reported': want_f}, 'how': 'harness/props/C12.py run_real(): GEXTest.run over fakenet'})
            elif got != want or got != full_sequence_expectation(STYLES[desc['style']](desc['M'][a] if isinstance(desc['M'], dict) else desc['M']), desc['openssh'])[0]:
                want = full_sequence_expectation(STYLES[desc['style']](desc['M'][a] if isinstance(desc['M'], dict) else desc['M']), desc['openssh'])[0]
                failures.append({'sig': {'kind': 'wrong_modulus_reported'}, 'input': desc, 'observed': {'reported': got, 'requests': seg_q, 'answers': seg_a},
                                 'expected': {'reported': want}, 'how': 'harness/props/C12.py run_real(): GEXTest.run over fakenet'})
            ent = res['entries'][a]
            fails = [t for t in (ent[1] if len(ent) > 1 else []) if t]
            warns = [t for t in (ent[2] if len(ent) > 2 else []) if t]
            infos = [t for t in (ent[3] if len(ent) > 3 else []) if t]
            small = [t for t in fails if 'using small' in t]
            w2048 = [t for t in warns if t.startswith('2048-bit modulus')]
            base_w2048 = [t for t in (master[a][2] if len(master[a]) > 2 else []) if t and t.startswith('2048-bit modulus')]
            ok = True
            if got is None:
                ok = ent == master[a]
            elif got < 2048:
                ok = small == ['using small %d-bit modulus' % got]
            elif got < 3072:
                ok = not small and len(w2048) == 1
            else:
                ok = not small and w2048 == base_w2048
            if got is not None and (('fallback mechanism' in ' '.join(infos)) != note):
                ok = False
            if not ok:
                failures.append({'sig': {'kind': 'wrong_modulus_rating'}, 'input': desc, 'observed': {'reported': got, 'entry': ent}, 'expected': 'fail < 2048 <= warn < 3072 <= no size note; untouched when nothing measured',
                                 'how': 'database entry after GEXTest.run'})
            if len(seg_q) > 9:
                failures.append({'sig': {'kind': 'too_many_gex_probes'}, 'input': desc, 'observed': seg_q, 'expected': '<= 9 probes per algorithm', 'how': 'fakenet request log'})
        if res['unclosed']:
            failures.append({'sig': {'kind': 'gex_connection_left_open'}, 'input': desc, 'observed': res['unclosed'], 'expected': 0, 'how': 'fakenet socket log'})
        # rating op correspondence on the observed (entry-before, size, note)
        for a in offered:
            if a in res['sizes']:
                note = any('fallback mechanism' in (t or '') for l in res['entries'][a][3:4] for t in l)
                lines.append('gex.rate %s %d %s' % (t_desc(master[a]), res['sizes'][a], tbool(note)))
                expect.append((res['entries'][a], {'rate': a, 'size': res['sizes'][a]}))
    ra_model = ctx.driver(ra_lines) if ctx.driver_ok else []
    for line, m, (want, desc) in zip(ra_lines, ra_model, ra_expect):
        got = {e['alg']: (e['reported'], e['note']) for e in (m.get('ok') or [])}
        for w in want:
            # an algorithm the model never reached (the loop was left after a failed reconnect) has no size
            if got.get(w['alg'], (None, False)) != (w['reported'], w['note']):
                mismatches.append({'stream': 'gex.audit(reconnect-failing)', 'op': line[:300], 'model': got, 'impl': want, 'server': {k: v for k, v in desc.items() if k != 'script'}})
                break
    model = ctx.driver(lines) if ctx.driver_ok else []
    for line, m, (want, desc) in zip(lines, model, expect):
        if m.get('ok') != want:
            mismatches.append({'stream': line.split()[0], 'op': line[:400], 'model': m, 'impl': want, 'server': {k: v for k, v in desc.items() if k != 'script'} if isinstance(desc, dict) else desc})
    # family op: the spec-side server styles in Lean agree with the Python ones (validates the decide +kernel statement's servers)
    flines, fexp = [], []
    for mask, style, osh, alg in (fam if ctx.tier == 'thorough' else fam[:200]):
        M = [m for i, m in enumerate(UNIVERSE) if mask >> i & 1]
        flines.append('gex.family %s %s %s' % (style, ','.join(map(str, M)) if M else '_', tbool(osh)))
    fmodel = ctx.driver(flines) if ctx.driver_ok else []
    for (mask, style, osh, alg), line, m in zip(fam, flines, fmodel):
        M = [mm for i, mm in enumerate(UNIVERSE) if mask >> i & 1]
        res = run_real([alg], b'SSH-2.0-OpenSSH_8.9p1' if osh else b'SSH-2.0-dropbear_2022.83', STYLES[style](M))
        want = {'reported': res['sizes'].get(alg), 'probes': [list(q) for q in res['requests']]}
        got = {'reported': m['ok']['reported'], 'probes': m['ok']['probes']}
        cov.add(('family-op', line), True, tags=['family-op'])
        if got != want:
            mismatches.append({'stream': 'gex.family', 'op': line, 'model': got, 'impl': want})
    return {'failures': failures, 'mismatches': mismatches, 'coverage': cov, 'corr_cases': len(model) + len(fmodel), 'exhaustive': ctx.tier == 'thorough',
            'assumptions': ['a scripted server answers well-formed GEX_GROUP messages or closes; malformed group messages belong to C09',
                            'DH exponents are deterministic (kexdh.random.SystemRandom replaced) — the probe logic does not depend on them'],
            'observations': ['for %d non-monotone scripted servers the tool reported the answer to its last probe rather than the minimum over the log (outside the quantifier: monotone moduli policies), e.g. %r' % (len(nonmono), nonmono[:1])]}


def replay(obj):
    f = obj.get('failure', obj)
    d = f['input']
    if d.get('kind') == 'family':
        gexfn = STYLES[d['style']](d['M'])
    else:
        it = iter(d['script'])
        gexfn = lambda mn, pf, mx: next(it, None)  # noqa
    res = run_real(d['algs'], d['banner'].encode() if 'banner' in d else (b'SSH-2.0-OpenSSH_8.9p1' if d['openssh'] else b'SSH-2.0-dropbear_2022.83'), gexfn, refuse_after=d.get('refuse_after'))
    print(json.dumps({'requests': res['requests'], 'answers': res['answers'], 'reported': res['sizes']}))
    bad = 0
    for a in d['algs']:
        if a in (SHA1, SHA256) and len([x for x in d['algs'] if x in (SHA1, SHA256)]) == 1 and d.get('refuse_after') is None:
            want, _ = expected_report(res['requests'], res['answers'], d['openssh'])
            if d.get('kind') == 'family':
                want = full_sequence_expectation(STYLES[d['style']](d['M']), d['openssh'])[0]
            if res['sizes'].get(a) != want:
                print('PROPERTY FAILS: reported %r, expected %r' % (res['sizes'].get(a), want))
                bad = 1
    if not bad:
        print('reported sizes follow the statement on this server')
    return bad
