/-
  C11 — Host-key sizes, CA details and fingerprints are measured and rated correctly.

  Model: SshAudit.Model.HostKey (kexdh.py `recv_reply` / `__parse_ca_key` / `__adjust_key_size`,
  hostkeytest.py `perform_test` / `run`, ssh2_kex.py `set_host_key`, the fingerprint parts of
  ssh_audit.py and fingerprint.py), tied to /repo by correspondence (harness/props/C11.py).
  The encoders `Spec.*` are written from the RFCs / PROTOCOL.certkeys and are not used by the model.

  (Code as of /repo 8b8696d: RSA host and CA keys are measured by the bit length of the modulus.)
  Every theorem quantifies over all numbers / byte strings / host-key lists / server state machines;
  the only bounds are the 32-bit length fields of the wire format itself.
-/
import SshAudit.Lemmas.HostKey
import SshAudit.Gen.Tables
import SshAudit.Gen.KexDB
namespace SshAudit.C11
open SshAudit SshAudit.Wire SshAudit.HostKey

/-- the tables of /repo (regenerated on every check) as the model's configuration -/
def cfg : Cfg :=
  { types := Gen.hostKeyTypes, rsaFamily := Gen.rsaFamily, two2k := Gen.two2kWarning, smallEcc := Gen.smallEccWarning,
    kexGroups := Gen.kexToDhgroupKeys }

/-- what the tool records when a probe connection is answered with this KEXDH_REPLY payload -/
def measured (payload : Bytes) : Option HKRec :=
  match probeResult (.reply payload) with
  | .got r => some r
  | _ => none

theorem measured_of_parse (blob f sig : Bytes) (p : Parsed) (hb : blob.length < 2 ^ 32) (hf : f.length < 2 ^ 32) (hs : sig.length < 2 ^ 32)
    (hp : parseHostKey blob = .ok p) :
    measured (Spec.kexReply blob f sig) =
      some { raw := blob, info := { size := p.size, caType := p.caType, caSize := p.caSize } } := by
  unfold measured
  simp only [probeResult]
  rw [recvReply_kexReply blob f sig hb hf hs, hp]
  rfl

/-! ### sizes of plain host keys -/

theorem bitLen_pos_of_pos (n : Nat) (h : 0 < n) : 0 < bitLen n := by
  unfold bitLen; rw [if_neg (by omega)]; omega

theorem bitLen_mono (a b : Nat) (h : a ≤ b) : bitLen a ≤ bitLen b := by
  by_cases ha : a = 0
  · subst ha; simp [bitLen]
  · apply Classical.byContradiction
    intro hlt
    have h1 := lt_two_pow_bitLen b
    have h2 := two_pow_le_of_bitLen a ha
    have h3 : (2:Nat) ^ bitLen b ≤ 2 ^ (bitLen a - 1) := Nat.pow_le_pow_right (by decide) (by omega)
    omega

/-- **RSA, every positive modulus and exponent**: the recorded blob is the presented blob and the reported size is the bit length
    of the modulus (the code after the repair of C11-F1) -/
theorem rsa_size_general (e n : Nat) (f sig : Bytes) (he : 0 < e) (hn : 0 < n)
    (hel : bitLen e / 8 + 1 < 2 ^ 32) (hnl : bitLen n / 8 + 1 < 2 ^ 32) (hb : (Spec.rsaBlob e n).length < 2 ^ 32)
    (hf : f.length < 2 ^ 32) (hs : sig.length < 2 ^ 32) :
    measured (Spec.kexReply (Spec.rsaBlob e n) f sig) =
      some { raw := Spec.rsaBlob e n, info := { size := bitLen n, caType := [], caSize := 0 } } := by
  rw [measured_of_parse _ f sig _ hb hf hs (parse_rsa e n he hn hel hnl)]
  simp only [Parsed.size, Parsed.caSize, bitLen_pos_of_pos n hn, if_true, gt_iff_lt, Nat.lt_irrefl, if_false]
  rfl

theorem ed25519_size (pk f sig : Bytes) (hpk : pk.length = 32) (hf : f.length < 2 ^ 32) (hs : sig.length < 2 ^ 32) :
    measured (Spec.kexReply (Spec.ed25519Blob pk) f sig) =
      some { raw := Spec.ed25519Blob pk, info := { size := 256, caType := [], caSize := 0 } } := by
  have hne : pk ≠ [] := by intro h; rw [h] at hpk; simp at hpk
  have hb : (Spec.ed25519Blob pk).length < 2 ^ 32 := by simp [Spec.ed25519Blob, Spec.sstr, u32_length, Spec.ascii, hpk, s]
  rw [measured_of_parse _ f sig _ hb hf hs (parse_ed25519 pk hne (by omega))]
  rfl

theorem ed448_size (pk f sig : Bytes) (hpk : pk.length = 57) (hf : f.length < 2 ^ 32) (hs : sig.length < 2 ^ 32) :
    measured (Spec.kexReply (Spec.ed448Blob pk) f sig) =
      some { raw := Spec.ed448Blob pk, info := { size := 448, caType := [], caSize := 0 } } := by
  have hne : pk ≠ [] := by intro h; rw [h] at hpk; simp at hpk
  have hb : (Spec.ed448Blob pk).length < 2 ^ 32 := by simp [Spec.ed448Blob, Spec.sstr, u32_length, Spec.ascii, hpk, s]
  rw [measured_of_parse _ f sig _ hb hf hs (parse_ed448 pk hne (by omega))]
  rfl

/-! ### certificates: the certified key's size and the signing CA's type and size -/

/-- the certified public key of a host certificate -/
inductive HostPub where
  | rsa (e n : Nat)
  | ed25519 (pk : Bytes)

/-- the signing CA's public key -/
inductive CaKey where
  | rsa (e n : Nat)
  | ed25519 (pk : Bytes)
  | ecdsa (curve : Str) (x y : Bytes)

def HostPub.cert (h : HostPub) (certType : Nat) (f : Spec.CertFields) (ca : Bytes) : Bytes :=
  match h with
  | .rsa e n => Spec.rsaCert e n certType f ca
  | .ed25519 pk => Spec.edCert pk certType f ca

/-- well-formed: positive RSA numbers that fit the length fields / a 32-byte Ed25519 key -/
def HostPub.ok : HostPub → Prop
  | .rsa e n => 0 < e ∧ 0 < n ∧ bitLen e / 8 + 1 < 2 ^ 32 ∧ bitLen n / 8 + 1 < 2 ^ 32
  | .ed25519 pk => pk.length = 32

/-- the size the certificate line must show for the certified key -/
def HostPub.bits : HostPub → Nat
  | .rsa _ n => bitLen n
  | .ed25519 _ => 256

def CaKey.blob : CaKey → Bytes
  | .rsa e n => Spec.rsaBlob e n
  | .ed25519 pk => Spec.ed25519Blob pk
  | .ecdsa c x y => Spec.ecdsaBlob c x y

def CaKey.ok : CaKey → Prop
  | .rsa e n => 0 < e ∧ 0 < n ∧ bitLen e / 8 + 1 < 2 ^ 32 ∧ bitLen n / 8 + 1 < 2 ^ 32
  | .ed25519 _ => True
  | .ecdsa c x y => c ∈ curves ∧ 1 + (x.length + y.length) < 2 ^ 32

def CaKey.type : CaKey → Str
  | .rsa _ _ => tRsa
  | .ed25519 _ => tEd25519
  | .ecdsa c _ _ => s "ecdsa-sha2-" ++ c

/-- RSA: the bit length of the modulus; Ed25519: 256; ECDSA: eight times the coordinate length, made even (`__adjust_key_size`) -/
def CaKey.bits : CaKey → Nat
  | .rsa _ n => bitLen n
  | .ed25519 _ => 256
  | .ecdsa _ x y => adjustKeySize ((x.length + y.length) / 2)

theorem caInfo_of (c : CaKey) (hc : c.ok) : ∃ l b, caInfo c.blob = .ok (c.type, l, b) ∧ (if b > 0 then b else adjustKeySize l) = c.bits := by
  cases c with
  | rsa e n =>
    obtain ⟨he, hn, hel, hnl⟩ := hc
    exact ⟨_, _, caInfo_rsa e n he hn hel hnl, by simp only [bitLen_pos_of_pos n hn, if_true]; rfl⟩
  | ed25519 pk => exact ⟨32, 0, caInfo_ed25519 pk, (by decide : (if 0 > 0 then 0 else adjustKeySize 32) = 256)⟩
  | ecdsa cv x y =>
    obtain ⟨h1, h2⟩ := hc
    exact ⟨_, 0, caInfo_ecdsa cv h1 x y h2, rfl⟩

theorem parse_cert (h : HostPub) (c : CaKey) (f : Spec.CertFields) (hh : h.ok) (hc : c.ok) (hf : f.fits) (hnn : f.nonce ≠ [])
    (hcl : c.blob.length < 2 ^ 32) :
    ∃ p, parseHostKey (h.cert 2 f c.blob) = .ok p ∧ p.size = h.bits ∧ p.caType = c.type ∧ p.caSize = c.bits := by
  obtain ⟨l, b, hl, hbits⟩ := caInfo_of c hc
  cases h with
  | rsa e n =>
    obtain ⟨he, hn, hel, hnl⟩ := hh
    refine ⟨{ keyType := Spec.rsaCertKind, nLen := bitLen n / 8 + 1, nBits := bitLen n, caType := c.type, caNLen := l, caNBits := b }, ?_, ?_⟩
    · show parseHostKey (Spec.rsaCert e n 2 f c.blob) = _
      rw [parse_rsaCert e n 2 f c.blob he hn hel hnl hf.1, parseCaKey_tail f c.blob hf hcl, hl]
      rfl
    · refine ⟨?_, rfl, hbits⟩
      simp only [Parsed.size, bitLen_pos_of_pos n hn, if_true]; rfl
  | ed25519 pk =>
    have hpk : pk.length = 32 := hh
    have hne : pk ≠ [] := by intro h0; rw [h0] at hpk; simp at hpk
    refine ⟨{ keyType := Spec.edCertKind, nLen := pk.length, nBits := 0, caType := c.type, caNLen := l, caNBits := b }, ?_, ?_⟩
    · show parseHostKey (Spec.edCert pk 2 f c.blob) = _
      rw [parse_edCert pk 2 f c.blob hne (by omega) hnn hf.1, parseCaKey_tail f c.blob hf hcl, hl]
      rfl
    · refine ⟨?_, rfl, hbits⟩
      show (if 0 > 0 then 0 else adjustKeySize pk.length) = 256
      rw [hpk]; rfl

/-- **certificates**: for an RSA or Ed25519 host certificate (type 2) signed by an RSA, Ed25519 or ECDSA CA, the record holds the
    presented blob, the certified key's size, the CA's key type and the CA's size — whatever the nonce, serial, key id,
    principals, validity, critical options, extensions, reserved field and signature are -/
theorem cert_sizes (h : HostPub) (c : CaKey) (f : Spec.CertFields) (kf sig : Bytes) (hh : h.ok) (hc : c.ok) (hf : f.fits) (hnn : f.nonce ≠ [])
    (hcl : c.blob.length < 2 ^ 32) (hb : (h.cert 2 f c.blob).length < 2 ^ 32) (hkf : kf.length < 2 ^ 32) (hs : sig.length < 2 ^ 32) :
    measured (Spec.kexReply (h.cert 2 f c.blob) kf sig) =
      some { raw := h.cert 2 f c.blob, info := { size := h.bits, caType := c.type, caSize := c.bits } } := by
  obtain ⟨p, hp, h1, h2, h3⟩ := parse_cert h c f hh hc hf hnn hcl
  rw [measured_of_parse _ kf sig p hb hkf hs hp, h1, h2, h3]

/-- ECDSA CA sizes for the three NIST curves: 32-, 48- and 66-byte coordinates give 256, 384 and **528** (P-521; observation D24) -/
theorem ecdsa_ca_bits (cv : Str) (x y : Bytes) :
    (x.length = 32 → y.length = 32 → (CaKey.ecdsa cv x y).bits = 256) ∧
    (x.length = 48 → y.length = 48 → (CaKey.ecdsa cv x y).bits = 384) ∧
    (x.length = 66 → y.length = 66 → (CaKey.ecdsa cv x y).bits = 528) := by
  refine ⟨?_, ?_, ?_⟩ <;> intro hx hy <;> simp only [CaKey.bits, hx, hy] <;> decide

/-- a certificate of any other type (user certificates are type 1): no CA details are recorded -/
theorem cert_wrong_type (e n ct : Nat) (f : Spec.CertFields) (ca : Bytes) (he : 0 < e) (hn : 0 < n)
    (hel : bitLen e / 8 + 1 < 2 ^ 32) (hnl : bitLen n / 8 + 1 < 2 ^ 32) (hnonce : f.nonce.length < 2 ^ 32) (hct : ct ≠ 2) (hlt : ct < 2 ^ 32) :
    parseHostKey (Spec.rsaCert e n ct f ca) = .ok { keyType := Spec.rsaCertKind, nLen := bitLen n / 8 + 1, nBits := bitLen n, caType := [], caNLen := 0, caNBits := 0 } := by
  rw [parse_rsaCert e n ct f ca he hn hel hnl hnonce, parseCaKey_tail_other ct hct hlt]
  rfl

/-! ### rating thresholds -/

/-- severity of the notes one probe adds: 2 = a failure, 1 = a warning only, 0 = nothing -/
def sev (fw : List Str × List Str) : Nat := if fw.1 ≠ [] then 2 else if fw.2 ≠ [] then 1 else 0

/-- **plain (non-certificate) host keys with RSA limits** — in particular the RSA family: below 2048 one failure
    `using small N-bit modulus`; from 2048 up to but excluding 3072 the 2048-bit warning and no failure; from 3072 nothing -/
theorem rsa_thresholds (c : Cfg) (name : Str) (hecc : isEcc name = false) (hdss : name ≠ tDss) (size : Nat) (hpos : 0 < size) :
    comments c name false size [] 0 =
      if size < 2048 then ([smallText size], []) else if size < 3072 then ([], [c.two2k]) else ([], []) := by
  unfold comments limits
  simp only [hecc, isEcc_nil, not_ecdsa_nil, Bool.false_eq_true, if_false]
  have h0 : size > 0 ∨ 0 > 0 := Or.inl hpos
  rw [if_pos h0]
  by_cases h1 : size < 2048
  · have : size < 3072 := by omega
    simp [h1, this, hdss]
  · by_cases h2 : size < 3072
    · simp [h1, h2, hdss]
    · simp [h1, h2]

theorem rsa_family_limits : ∀ n ∈ cfg.rsaFamily, isEcc n = false ∧ n ≠ tDss := by decide +kernel

/-- the three clauses for the RSA family of /repo, as severities -/
theorem rsa_family_severity (name : Str) (hn : name ∈ cfg.rsaFamily) (size : Nat) (hpos : 0 < size) :
    sev (comments cfg name false size [] 0) = if size < 2048 then 2 else if size < 3072 then 1 else 0 := by
  obtain ⟨h1, h2⟩ := rsa_family_limits name hn
  rw [rsa_thresholds cfg name h1 h2 size hpos]
  by_cases a : size < 2048
  · simp [a, sev]
  · by_cases b : size < 3072
    · simp [a, b, sev]
    · simp [a, b, sev]

/-- **the rating never gets worse as a key grows** (measured sizes) -/
theorem rating_antitone (name : Str) (hn : name ∈ cfg.rsaFamily) (s₁ s₂ : Nat) (h1 : 0 < s₁) (h : s₁ ≤ s₂) :
    sev (comments cfg name false s₂ [] 0) ≤ sev (comments cfg name false s₁ [] 0) := by
  rw [rsa_family_severity name hn s₁ h1, rsa_family_severity name hn s₂ (by omega)]
  split <;> split <;> (try split) <;> (try split) <;> omega

/-- … and in terms of the presented moduli themselves: a larger modulus is never rated worse -/
theorem rating_antitone_keys (name : Str) (hn : name ∈ cfg.rsaFamily) (n₁ n₂ : Nat) (h1 : 0 < n₁) (h : n₁ ≤ n₂) :
    sev (comments cfg name false (bitLen n₂) [] 0) ≤ sev (comments cfg name false (bitLen n₁) [] 0) :=
  rating_antitone name hn _ _ (bitLen_pos_of_pos n₁ h1) (bitLen_mono n₁ n₂ h)

/-- **certificates with RSA limits on both keys** (RSA host certificates signed by an RSA-family CA): a certified key or CA key
    below 2048 bits is a failure naming the key and its size; one from 2048 up to but excluding 3072 is the 2048-bit warning
    (once); from 3072 nothing.  `caSize = 0` = no CA key was found. -/
theorem cert_thresholds (c : Cfg) (name caType : Str) (hn : isEcc name = false) (hc : isEcc caType = false) (size caSize : Nat)
    (hpos : 0 < size ∨ 0 < caSize) :
    comments c name true size caType caSize =
      ((if size < 2048 then [smallHostText size] else []) ++ (if 0 < caSize ∧ caSize < 2048 then [smallCaText caSize] else []),
       if (2048 ≤ size ∧ size < 3072) ∨ (2048 ≤ caSize ∧ caSize < 3072) then [c.two2k] else []) := by
  unfold comments limits
  simp only [hn, hc, not_ecdsa_of_not_ecc caType hc, Bool.false_eq_true, if_false]
  have h0 : size > 0 ∨ caSize > 0 := hpos
  rw [if_pos h0]
  by_cases a : size < 2048 <;> by_cases b : size < 3072 <;> by_cases d : caSize < 2048 <;> by_cases e : caSize < 3072 <;>
    by_cases z : 0 < caSize <;> simp [a, b, d, e, z] <;> omega

/-- **Ed25519 host certificates signed by an RSA-family CA**: the 256-bit certified key adds nothing; the CA key is rated by the RSA limits -/
theorem edcert_ca_thresholds (c : Cfg) (name caType : Str) (hn : isEcc name = true) (hc : isEcc caType = false) (size caSize : Nat)
    (hsz : 256 ≤ size) :
    comments c name true size caType caSize =
      (if 0 < caSize ∧ caSize < 2048 then [smallCaText caSize] else [],
       if 2048 ≤ caSize ∧ caSize < 3072 then [c.two2k] else []) := by
  unfold comments limits
  simp only [hn, hc, not_ecdsa_of_not_ecc caType hc, Bool.false_eq_true, if_false, if_true]
  have h0 : size > 0 ∨ caSize > 0 := Or.inl (by omega)
  rw [if_pos h0]
  have a : ¬ size < 256 := by omega
  have a' : ¬ size < 224 := by omega
  by_cases d : caSize < 2048 <;> by_cases e : caSize < 3072 <;> by_cases z : 0 < caSize <;> simp [a, a', d, e, z] <;> omega

theorem cert_names_limits :
    (∀ n ∈ [Spec.rsaCertKind, s "rsa-sha2-256-cert-v01@openssh.com", s "rsa-sha2-512-cert-v01@openssh.com"], isEcc n = false) ∧
    isEcc Spec.edCertKind = true ∧ (∀ n ∈ cfg.rsaFamily, isEcc n = false) := by decide +kernel

/-- the CA-key rating never gets worse as the CA key grows (RSA limits; any fixed certified key) -/
theorem ca_rating_antitone (c : Cfg) (name caType : Str) (hn : isEcc name = false) (hc : isEcc caType = false) (size c₁ c₂ : Nat)
    (h1 : 0 < c₁) (h : c₁ ≤ c₂) :
    sev (comments c name true size caType c₂) ≤ sev (comments c name true size caType c₁) := by
  rw [cert_thresholds c name caType hn hc size c₁ (Or.inr h1), cert_thresholds c name caType hn hc size c₂ (Or.inr (by omega))]
  unfold sev
  have h2 : 0 < c₂ := by omega
  by_cases a : size < 2048 <;> by_cases b : size < 3072 <;> by_cases d : c₁ < 2048 <;> by_cases e : c₁ < 3072 <;>
    by_cases d' : c₂ < 2048 <;> by_cases e' : c₂ < 3072 <;> simp [a, b, d, e, d', e', h1, h2] <;> omega

/-! ### RSA-family fan-out -/

section fanout
variable {σ : Type}

/-- a database entry after `d[1].extend(fails); d[2].extend(warns)` -/
def edited (fw : List Str × List Str) (e : Entry) : Entry := { e with desc := extendDesc fw.1 fw.2 e.desc }

/-- the family's types come first in `HOST_KEY_TYPES`, are not certificate types, and are exactly `RSA_FAMILY`; no later type is in the family -/
theorem table_facts :
    (∀ t ∈ cfg.types.take 3, cfg.rsaFamily.contains t.name = true ∧ t.cert = false) ∧
    (∀ t ∈ cfg.types.drop 3, cfg.rsaFamily.contains t.name = false) ∧
    cfg.rsaFamily.Nodup ∧ (cfg.types.take 3).map (·.name) = cfg.rsaFamily := by decide +kernel

/-- every type `perform_test` can probe has an entry in the rating database of /repo: the `KeyError` of the edit is unreachable -/
theorem types_in_db : ∀ t ∈ cfg.types, (DBm.lookup Gen.ssh2db Report.keyC t.name).isSome = true := by decide +kernel

/-- the passes over the family's types, when the first *offered* member's probe is answered: one connection, all three records, all three entries edited alike -/
theorem family_prefix (c : Cfg) (srv : σ → Str → Outcome × σ) (keys : List Str) (pre post : List HostKeyType) (t : HostKeyType) (st : St σ)
    (hfam : ∀ u ∈ pre ++ t :: post, c.rsaFamily.contains u.name = true ∧ u.cert = false)
    (hpre : ∀ u ∈ pre, keys.contains u.name = false) (ht : keys.contains t.name = true)
    (hh : st.halt = none) (hp : st.parsed.contains t.name = false)
    (o : Outcome) (s' : σ) (r : HKRec) (db' : DB) (hs : srv st.srv t.name = (o, s')) (hr : probeResult o = .got r)
    (he : editAll st.db c.rsaFamily (comments c t.name false r.info.size r.info.caType r.info.caSize).1
            (comments c t.name false r.info.size r.info.caType r.info.caSize).2 = some db') :
    (pre ++ t :: post).foldl (step c srv keys) st =
      { st with srv := s', probes := st.probes ++ [t.name],
                hostKeys := c.rsaFamily.foldl (fun h n => setHostKey h n r) (setHostKey st.hostKeys t.name r),
                db := db', parsed := st.parsed ++ c.rsaFamily } := by
  have ht' := hfam t (by simp)
  rw [List.foldl_append, foldl_not_offered c srv keys pre st hpre, List.foldl_cons,
    step_family_got c srv keys st t o s' r db' hh hp ht ht'.1 ht'.2 hs hr he]
  apply foldl_parsed
  intro u hu
  have := (hfam u (by simp [hu])).1
  simp only [List.contains_eq_mem, List.mem_append, decide_eq_true_eq] at this ⊢
  exact Or.inr this

/-- **fan-out.**  Whatever the host-key list is (any subset and order of the family's names, any other names around them) and whatever
    the server is: if `t` is the first family member of the table that the list offers and the server answers its probe, then that is
    the only probe connection made for the whole family, all three family names get the same record (size, CA details, blob), and
    all three database entries receive the same additional notes. -/
theorem family_fanout (srv : σ → Str → Outcome × σ) (s0 : σ) (db : DB) (kex keys : List Str)
    (hkex : kex.any (fun k => cfg.kexGroups.contains k) = true)
    (hdb : ∀ n ∈ cfg.rsaFamily, (DBm.lookup db Report.keyC n).isSome = true)
    (pre post : List HostKeyType) (t : HostKeyType) (hsplit : cfg.types.take 3 = pre ++ t :: post)
    (hpre : ∀ u ∈ pre, keys.contains u.name = false) (ht : keys.contains t.name = true)
    (o : Outcome) (s1 : σ) (r : HKRec) (hs : srv s0 t.name = (o, s1)) (hr : probeResult o = .got r) :
    (run cfg srv s0 db kex keys).probes.filter (fun p => cfg.rsaFamily.contains p) = [t.name] ∧
    (∀ n ∈ cfg.rsaFamily, dictGet (run cfg srv s0 db kex keys).hostKeys n = some r) ∧
    (∀ n ∈ cfg.rsaFamily, DBm.lookup (run cfg srv s0 db kex keys).db Report.keyC n =
        (DBm.lookup db Report.keyC n).map (edited (comments cfg t.name false r.info.size r.info.caType r.info.caSize))) := by
  obtain ⟨f1, f2, f3, _⟩ := table_facts
  obtain ⟨db', he⟩ := editAll_isSome cfg.rsaFamily db (comments cfg t.name false r.info.size r.info.caType r.info.caSize).1
    (comments cfg t.name false r.info.size r.info.caType r.info.caSize).2 hdb
  have hrun : run cfg srv s0 db kex keys = (cfg.types.drop 3).foldl (step cfg srv keys) ((cfg.types.take 3).foldl (step cfg srv keys) (initSt s0 db)) := by
    unfold run perform
    rw [if_pos hkex, ← List.foldl_append, List.take_append_drop]
  have hfam : ∀ u ∈ pre ++ t :: post, cfg.rsaFamily.contains u.name = true ∧ u.cert = false := by rw [← hsplit]; exact f1
  have hpfx := family_prefix cfg srv keys pre post t (initSt s0 db) hfam hpre ht rfl rfl o s1 r db' hs hr he
  have hview := foldl_other_famView cfg srv keys (cfg.types.drop 3) ((cfg.types.take 3).foldl (step cfg srv keys) (initSt s0 db)) f2
  rw [← hrun, hsplit, hpfx] at hview
  unfold famView at hview
  simp only [Prod.mk.injEq] at hview
  obtain ⟨v1, v2, v3⟩ := hview
  refine ⟨?_, ?_, ?_⟩
  · rw [v3]
    have : t.name ∈ cfg.rsaFamily := by simpa using (hfam t (by simp)).1
    simp [initSt, this]
  · intro n hn
    rw [List.map_inj_left.mp v1 n hn]
    obtain ⟨a1, _, a3⟩ := foldl_setHostKey cfg.rsaFamily (setHostKey (initSt s0 db).hostKeys t.name r) r
      (by intro e he'; simp only [initSt, setHostKey, List.any_nil, Bool.false_eq_true, if_false, List.nil_append, List.mem_singleton] at he'; rw [he'])
    exact dictGet_of_hasKey _ n r (a3 n hn) a1
  · intro n hn
    rw [List.map_inj_left.mp v2 n hn]
    show DBm.lookup db' Report.keyC n = _
    rw [lookup_editAll cfg.rsaFamily f3 db db' _ _ he n, if_pos hn]
    rfl

/-- for every host-key list that offers at least one family name there is such a first offered member (so `family_fanout` applies to
    every non-empty subset and order of the family, with anything else in the list) -/
theorem family_first_offered (keys : List Str) (h : ∃ n ∈ cfg.rsaFamily, n ∈ keys) :
    ∃ pre t post, cfg.types.take 3 = pre ++ t :: post ∧ (∀ u ∈ pre, keys.contains u.name = false) ∧ keys.contains t.name = true := by
  obtain ⟨_, _, _, f4⟩ := table_facts
  obtain ⟨n, hn, hk⟩ := h
  rw [← f4, List.mem_map] at hn
  obtain ⟨u, hu, hun⟩ := hn
  have hsome : ((cfg.types.take 3).find? (fun t => keys.contains t.name)).isSome = true := by
    rw [List.find?_isSome]
    exact ⟨u, hu, by simp [hun, hk]⟩
  cases hf : (cfg.types.take 3).find? (fun t => keys.contains t.name) with
  | none => rw [hf] at hsome; cases hsome
  | some t =>
    obtain ⟨hpt, pre, post, hsp, hall⟩ := List.find?_eq_some_iff_append.mp hf
    exact ⟨pre, t, post, hsp, fun u hu => by simpa using hall u hu, hpt⟩

/-- when no family name is offered: no family probe, no family record, the family's entries untouched -/
theorem family_not_offered (srv : σ → Str → Outcome × σ) (s0 : σ) (db : DB) (kex keys : List Str)
    (h : ∀ n ∈ cfg.rsaFamily, keys.contains n = false) :
    (run cfg srv s0 db kex keys).probes.filter (fun p => cfg.rsaFamily.contains p) = [] ∧
    (∀ n ∈ cfg.rsaFamily, dictGet (run cfg srv s0 db kex keys).hostKeys n = none) ∧
    (∀ n ∈ cfg.rsaFamily, DBm.lookup (run cfg srv s0 db kex keys).db Report.keyC n = DBm.lookup db Report.keyC n) := by
  obtain ⟨_, f2, _, f4⟩ := table_facts
  have hview : famView cfg (run cfg srv s0 db kex keys) = famView cfg (initSt s0 db) := by
    unfold run
    split
    · unfold perform
      rw [← List.take_append_drop 3 cfg.types, List.foldl_append, foldl_not_offered cfg srv keys (cfg.types.take 3) _
        (by intro t ht; apply h; rw [← f4]; exact List.mem_map_of_mem ht)]
      exact foldl_other_famView cfg srv keys _ _ f2
    · rfl
  unfold famView at hview
  simp only [Prod.mk.injEq] at hview
  obtain ⟨v1, v2, v3⟩ := hview
  refine ⟨by rw [v3]; rfl, fun n hn => ?_, fun n hn => ?_⟩
  · rw [List.map_inj_left.mp v1 n hn]; rfl
  · rw [List.map_inj_left.mp v2 n hn]; rfl

end fanout

/-! ### what the report shows for the family (`Report.shownName`, `Report.rawTexts` on the edited database) -/

/-- every member with the record `r` of a plain key is shown as `name (N-bit)` with the same `N` -/
theorem family_shown (hk : List (Str × HKRec)) (r : HKRec) (n : Str) (hn : n ∈ cfg.rsaFamily) (hr : dictGet hk n = some r)
    (hplain : r.info.caSize = 0) (dh : List (Str × Nat)) :
    Report.shownName cfg.rsaFamily Report.keyC n (toReport hk) dh = n ++ Report.s " (" ++ Text.natToStr r.info.size ++ Report.s "-bit)" := by
  unfold Report.shownName
  have hc : ¬ (Report.keyC = Report.kexC) := by decide +kernel
  rw [if_neg hc, if_pos rfl, find_toReport]
  unfold dictGet at hr
  cases hf : hk.find? (·.1 = n) with
  | none => rw [hf] at hr; simp at hr
  | some e =>
    rw [hf] at hr
    simp only [Option.map_some, Option.some.injEq] at hr
    have hcont : cfg.rsaFamily.contains n = true := by simpa using hn
    simp only [Option.map_some, hr, hplain, Nat.lt_irrefl, and_false, if_false, hcont, if_true, gt_iff_lt]

/-- the notes printed for an edited entry: the old failures, then the added ones, the old warnings, then the added ones; the rest unchanged -/
theorem edited_notes (fw : List Str × List Str) (e : Entry) :
    Report.rawTexts (edited fw e) =
      Report.notesOf .fail (DBm.slot e 1) ++ fw.1.map (fun t => ({ level := .fail, text := t } : Report.Note)) ++
      (Report.notesOf .warn (DBm.slot e 2) ++ fw.2.map (fun t => ({ level := .warn, text := t } : Report.Note))) ++
      Report.sinceNote e ++ Report.notesOf .info (DBm.slot e 3) := by
  have h0 : DBm.slot (edited fw e) 0 = DBm.slot e 0 := by
    show (extendDesc fw.1 fw.2 e.desc).getD 0 [] = _; rw [slot_extendDesc]; rfl
  have h1 : DBm.slot (edited fw e) 1 = DBm.slot e 1 ++ fw.1.map some := by
    show (extendDesc fw.1 fw.2 e.desc).getD 1 [] = _; rw [slot_extendDesc]; rfl
  have h2 : DBm.slot (edited fw e) 2 = DBm.slot e 2 ++ fw.2.map some := by
    show (extendDesc fw.1 fw.2 e.desc).getD 2 [] = _; rw [slot_extendDesc]; rfl
  have h3 : DBm.slot (edited fw e) 3 = DBm.slot e 3 := by
    show (extendDesc fw.1 fw.2 e.desc).getD 3 [] = _; rw [slot_extendDesc]; rfl
  have hs : Report.sinceNote (edited fw e) = Report.sinceNote e := by
    unfold Report.sinceNote DBm.versions; rw [h0]
  unfold Report.rawTexts
  rw [h1, h2, h3, hs, notesOf_append, notesOf_append, notesOf_map_some, notesOf_map_some]

/-- **every advertised member shows the same size and the same size notes**: under the hypotheses of `family_fanout`, for a plain key
    (no CA details) each family name `n` is rendered as `n (N-bit)` with the one measured `N`, and its entry prints its own old
    notes plus the same added failure / warning notes -/
theorem family_uniform_report {σ : Type} (srv : σ → Str → Outcome × σ) (s0 : σ) (db : DB) (kex keys : List Str)
    (hkex : kex.any (fun k => cfg.kexGroups.contains k) = true)
    (hdb : ∀ n ∈ cfg.rsaFamily, (DBm.lookup db Report.keyC n).isSome = true)
    (pre post : List HostKeyType) (t : HostKeyType) (hsplit : cfg.types.take 3 = pre ++ t :: post)
    (hpre : ∀ u ∈ pre, keys.contains u.name = false) (ht : keys.contains t.name = true)
    (o : Outcome) (s1 : σ) (r : HKRec) (hs : srv s0 t.name = (o, s1)) (hr : probeResult o = .got r) (hplain : r.info.caSize = 0)
    (dh : List (Str × Nat)) (n : Str) (hn : n ∈ cfg.rsaFamily) (e : Entry) (he : DBm.lookup db Report.keyC n = some e) :
    Report.shownName cfg.rsaFamily Report.keyC n (toReport (run cfg srv s0 db kex keys).hostKeys) dh =
        n ++ Report.s " (" ++ Text.natToStr r.info.size ++ Report.s "-bit)" ∧
    ∃ e', DBm.lookup (run cfg srv s0 db kex keys).db Report.keyC n = some e' ∧
      Report.rawTexts e' =
        Report.notesOf .fail (DBm.slot e 1) ++
          (comments cfg t.name false r.info.size r.info.caType r.info.caSize).1.map (fun x => ({ level := .fail, text := x } : Report.Note)) ++
        (Report.notesOf .warn (DBm.slot e 2) ++
          (comments cfg t.name false r.info.size r.info.caType r.info.caSize).2.map (fun x => ({ level := .warn, text := x } : Report.Note))) ++
        Report.sinceNote e ++ Report.notesOf .info (DBm.slot e 3) := by
  obtain ⟨_, h2, h3⟩ := family_fanout srv s0 db kex keys hkex hdb pre post t hsplit hpre ht o s1 r hs hr
  refine ⟨family_shown _ r n hn (h2 n hn) hplain dh, edited _ e, ?_, edited_notes _ e⟩
  rw [h3 n hn, he]; rfl

/-- the added notes do not depend on which member was probed: for a plain key they are the threshold notes of the measured size -/
theorem family_notes_by_size (name : Str) (hn : name ∈ cfg.rsaFamily) (size : Nat) (hpos : 0 < size) :
    comments cfg name false size [] 0 =
      if size < 2048 then ([smallText size], []) else if size < 3072 then ([], [cfg.two2k]) else ([], []) := by
  obtain ⟨h1, h2⟩ := rsa_family_limits name hn
  exact rsa_thresholds cfg name h1 h2 size hpos

/-! ### fingerprints -/

/-- **the bytes that are hashed are the presented blob**: for every reply payload whatsoever, the recorded `raw_hostkey_bytes` is
    exactly the first string (`K_S`) of the payload -/
theorem fingerprint_source (payload : Bytes) (r : HKRec) (h : measured payload = some r) :
    ∃ n rest, getBytes payload = .ok (r.raw, n, rest) := by
  unfold measured at h
  simp only [probeResult] at h
  unfold recvReply at h
  cases h1 : getBytes payload with
  | error e => simp [h1, bind, Except.bind] at h
  | ok v1 =>
    obtain ⟨blob, n, rest⟩ := v1
    refine ⟨n, rest, ?_⟩
    simp only [h1, bind, Except.bind] at h
    cases h2 : getBytes rest with
    | error e => simp [h2] at h
    | ok v2 =>
      simp only [h2] at h
      cases h3 : getBytes v2.2.2 with
      | error e => simp [h3] at h
      | ok v3 =>
        simp only [h3] at h
        cases h4 : parseHostKey blob with
        | error e => simp [h4] at h
        | ok p =>
          simp only [h4, pure, Except.pure, Option.some.injEq] at h
          rw [← h]

/-- **labels**: every text fingerprint entry has a non-certificate label, the only RSA-family label is `ssh-rsa`, the hashed bytes
    are those of a recorded host key with that label, and no label occurs twice -/
theorem fingerprint_labels (hk : List (Str × HKRec)) :
    (∀ p ∈ textFps cfg.rsaFamily hk, isCert p.1 = false ∧ (cfg.rsaFamily.contains p.1 = true → p.1 = tRsa) ∧
        ∃ e ∈ hk, fpLabel cfg.rsaFamily e.1 = p.1 ∧ e.2.raw = p.2) ∧
    ((textFps cfg.rsaFamily hk).map (·.1)).Nodup := by
  refine ⟨?_, nodup_of_sorted _ (sorted_textFps _ hk)⟩
  intro p hp
  rw [mem_textFps] at hp
  obtain ⟨hc, e, he, hl, hr⟩ := textFpDict_sound cfg.rsaFamily hk p.1 p.2 hp
  refine ⟨hc, ?_, e, he, hl, hr⟩
  intro hfam
  rw [← hl] at hfam ⊢
  unfold fpLabel at hfam ⊢
  split
  · rfl
  · next hn => rw [if_neg hn] at hfam; exact absurd hfam hn

/-- every recorded non-certificate host key is represented in the text list under its label -/
theorem fingerprint_complete (hk : List (Str × HKRec)) (e : Str × HKRec) (he : e ∈ hk) (hc : isCert (fpLabel cfg.rsaFamily e.1) = false) :
    ∃ raw, (fpLabel cfg.rsaFamily e.1, raw) ∈ textFps cfg.rsaFamily hk := by
  have := textFpDict_complete cfg.rsaFamily hk e he hc
  unfold keysOf at this
  rw [List.mem_map] at this
  obtain ⟨p, hp, hpl⟩ := this
  exact ⟨p.2, by rw [mem_textFps, ← hpl]; exact hp⟩

/-- **text and JSON list the same entries**, label by label and byte for byte, whenever records that share a label share their bytes
    (after a scan the three RSA-family records are copies of one record: `family_fanout`) -/
theorem fingerprints_text_eq_json (hk : List (Str × HKRec)) (hn : (keysOf hk).Nodup) (hd : LabelDet cfg.rsaFamily hk) :
    textFps cfg.rsaFamily hk = jsonFps cfg.rsaFamily hk := textFps_eq_jsonFps _ hk hn hd

/-- **after every scan** — any server state machine, any key-exchange and host-key lists — the text report and the JSON document
    list the same fingerprint entries: same labels, same hashed bytes, same order -/
theorem run_fingerprints_agree {σ : Type} (srv : σ → Str → Outcome × σ) (s0 : σ) (db : DB) (kex keys : List Str) :
    textFps cfg.rsaFamily (run cfg srv s0 db kex keys).hostKeys = jsonFps cfg.rsaFamily (run cfg srv s0 db kex keys).hostKeys := by
  obtain ⟨h1, h2, _⟩ := run_inv cfg srv s0 db kex keys
  exact fingerprints_text_eq_json _ h1 (labelDet_of_famSame _ _ (by decide +kernel) h1 h2)

/-- … and the host-key types recorded by a scan are distinct, with one shared record for the RSA family -/
theorem run_records {σ : Type} (srv : σ → Str → Outcome × σ) (s0 : σ) (db : DB) (kex keys : List Str) :
    (keysOf (run cfg srv s0 db kex keys).hostKeys).Nodup ∧ FamSame cfg.rsaFamily (run cfg srv s0 db kex keys).hostKeys := by
  obtain ⟨h1, h2, _⟩ := run_inv cfg srv s0 db kex keys
  exact ⟨h1, h2⟩

/-- without that hypothesis the two views can differ: `build_struct` lets the *last non-`ssh-rsa`* family record win, the text report the last one -/
theorem fingerprints_differ_witness :
    textFps cfg.rsaFamily [(s "rsa-sha2-256", ⟨[1], ⟨0, [], 0⟩⟩), (s "ssh-rsa", ⟨[2], ⟨0, [], 0⟩⟩)] = [(tRsa, [2])] ∧
    jsonFps cfg.rsaFamily [(s "rsa-sha2-256", ⟨[1], ⟨0, [], 0⟩⟩), (s "ssh-rsa", ⟨[2], ⟨0, [], 0⟩⟩)] = [(tRsa, [1])] := by decide +kernel

/-- the printed lines: the JSON array is the verbose text list with the `SHA256:` / `MD5:` prefixes cut off -/
theorem fingerprint_lines_agree (h256 hmd5 : Bytes → Bytes) (hk : List (Str × HKRec)) (hn : (keysOf hk).Nodup) (hd : LabelDet cfg.rsaFamily hk) :
    jsonFpEntries h256 hmd5 cfg.rsaFamily hk =
      (textFpLines h256 hmd5 cfg.rsaFamily true hk).map (fun l => (l.1, l.2.1, l.2.2.drop (l.2.1.length + 1))) := by
  unfold jsonFpEntries textFpLines
  rw [← fingerprints_text_eq_json hk hn hd]
  have hall : (textFps cfg.rsaFamily hk).filter (fun e => fpShown true e.1) = textFps cfg.rsaFamily hk := by
    apply List.filter_eq_self.mpr; intro a _; rfl
  rw [hall]
  induction textFps cfg.rsaFamily hk with
  | nil => rfl
  | cons x xs ih =>
    simp only [List.flatMap_cons, List.map_append, if_true, List.map_cons, List.map_nil] at ih ⊢
    rw [← ih]
    rfl

/-! ### fingerprint text format -/

/-- unpadded base64 (RFC 4648 §3.2): the encoder without the `=` fill -/
def b64NoPad : Bytes → Str
  | a :: b :: c :: rest =>
    let n := a.toNat * 65536 + b.toNat * 256 + c.toNat
    b64Char (n / 262144) :: b64Char (n / 4096) :: b64Char (n / 64) :: b64Char n :: b64NoPad rest
  | [a, b] =>
    let n := a.toNat * 65536 + b.toNat * 256
    [b64Char (n / 262144), b64Char (n / 4096), b64Char (n / 64)]
  | [a] =>
    let n := a.toNat * 65536
    [b64Char (n / 262144), b64Char (n / 4096)]
  | [] => []

theorem b64Char_ne_eq (n : Nat) : b64Char n ≠ '=' := by
  have h : ∀ i, i < 64 → b64Alphabet.getD i 'A' ≠ '=' := by decide +kernel
  exact h (n % 64) (Nat.mod_lt _ (by decide))

theorem b64NoPad_no_eq (d : Bytes) : ∀ c ∈ b64NoPad d, c ≠ '=' := by
  induction d using b64NoPad.induct with
  | case1 a b c rest ih =>
    intro x hx
    simp only [b64NoPad, List.mem_cons] at hx
    rcases hx with rfl | rfl | rfl | rfl | hx
    · exact b64Char_ne_eq _
    · exact b64Char_ne_eq _
    · exact b64Char_ne_eq _
    · exact b64Char_ne_eq _
    · exact ih x hx
  | case2 a b =>
    intro x hx
    simp only [b64NoPad, List.mem_cons, List.not_mem_nil, or_false] at hx
    rcases hx with rfl | rfl | rfl <;> exact b64Char_ne_eq _
  | case3 a =>
    intro x hx
    simp only [b64NoPad, List.mem_cons, List.not_mem_nil, or_false] at hx
    rcases hx with rfl | rfl <;> exact b64Char_ne_eq _
  | case4 => intro x hx; simp [b64NoPad] at hx

theorem b64_eq_pad (d : Bytes) : ∃ k, b64 d = b64NoPad d ++ List.replicate k '=' := by
  induction d using b64NoPad.induct with
  | case1 a b c rest ih =>
    obtain ⟨k, hk⟩ := ih
    exact ⟨k, by simp only [b64, b64NoPad, hk, List.cons_append]⟩
  | case2 a b => exact ⟨1, rfl⟩
  | case3 a => exact ⟨2, rfl⟩
  | case4 => exact ⟨0, rfl⟩

theorem rstripEq_pad (x : Str) (k : Nat) (h : ∀ c ∈ x, c ≠ '=') : rstripEq (x ++ List.replicate k '=') = x := by
  unfold rstripEq
  rw [List.reverse_append, List.reverse_replicate]
  have h1 : ∀ (k : Nat) (y : Str), (List.replicate k '=' ++ y).dropWhile (· = '=') = y.dropWhile (· = '=') := by
    intro k y
    induction k with
    | zero => rfl
    | succ k ih => simp [List.replicate_succ, ih]
  rw [h1]
  have h2 : x.reverse.dropWhile (· = '=') = x.reverse := by
    cases hx : x.reverse with
    | nil => rfl
    | cons c cs =>
      have : c ≠ '=' := h c (by rw [← List.mem_reverse, hx]; simp)
      simp [this]
  rw [h2, List.reverse_reverse]

/-- **`SHA256:` + unpadded base64** of the digest, for a digest of any length: `rstrip('=')` removes exactly the fill characters -/
theorem sha256_format (digest : Bytes) : sha256Text digest = s "SHA256:" ++ b64NoPad digest := by
  unfold sha256Text
  obtain ⟨k, hk⟩ := b64_eq_pad digest
  rw [hk, rstripEq_pad _ k (b64NoPad_no_eq digest)]

/-- **`MD5:` + colon-separated byte pairs**; each pair is the two lower-case hexadecimal digits of the byte -/
theorem md5_format (digest : Bytes) : md5Text digest = s "MD5:" ++ Text.join [':'] (digest.map hexByte) := rfl

theorem hexByte_digits : ∀ n, n < 256 →
    hexByte (UInt8.ofNat n) = ["0123456789abcdef".toList.getD (n / 16) '0', "0123456789abcdef".toList.getD (n % 16) '0'] := by decide +kernel

/-! ### rated by the true bit length (the statement at full strength; C11-F1 — sizes taken from the byte length of the encoding — is repaired) -/

/-- **an RSA host key is reported and rated by the bit length of its modulus, for every modulus**: below 2048 bits the failure
    `using small N-bit modulus` with `N` the bit length, from 2048 up to but excluding 3072 the 2048-bit warning only, from 3072 nothing —
    under whichever RSA-family name it is probed -/
theorem rating_by_true_bits (name : Str) (hname : name ∈ cfg.rsaFamily) (e n : Nat) (f sig : Bytes) (he : 0 < e) (hn : 0 < n)
    (hel : bitLen e / 8 + 1 < 2 ^ 32) (hnl : bitLen n / 8 + 1 < 2 ^ 32) (hb : (Spec.rsaBlob e n).length < 2 ^ 32)
    (hf : f.length < 2 ^ 32) (hs : sig.length < 2 ^ 32) :
    ∃ r, measured (Spec.kexReply (Spec.rsaBlob e n) f sig) = some r ∧ r.raw = Spec.rsaBlob e n ∧ r.info.size = bitLen n ∧
      comments cfg name false r.info.size r.info.caType r.info.caSize =
        if bitLen n < 2048 then ([smallText (bitLen n)], []) else if bitLen n < 3072 then ([], [cfg.two2k]) else ([], []) :=
  ⟨_, rsa_size_general e n f sig he hn hel hnl hb hf hs, rfl, rfl, family_notes_by_size name hname _ (bitLen_pos_of_pos n hn)⟩

/-- **… and so are the certified key and the CA key of an RSA host certificate signed by an RSA CA** -/
theorem cert_rating_by_true_bits (name : Str)
    (hname : name ∈ [Spec.rsaCertKind, s "rsa-sha2-256-cert-v01@openssh.com", s "rsa-sha2-512-cert-v01@openssh.com"])
    (e n e' n' : Nat) (f : Spec.CertFields) (kf sig : Bytes) (hh : (HostPub.rsa e n).ok) (hc : (CaKey.rsa e' n').ok) (hf : f.fits) (hnn : f.nonce ≠ [])
    (hcl : (CaKey.rsa e' n').blob.length < 2 ^ 32) (hb : ((HostPub.rsa e n).cert 2 f (CaKey.rsa e' n').blob).length < 2 ^ 32)
    (hkf : kf.length < 2 ^ 32) (hs : sig.length < 2 ^ 32) :
    ∃ r, measured (Spec.kexReply ((HostPub.rsa e n).cert 2 f (CaKey.rsa e' n').blob) kf sig) = some r ∧
      r.info.size = bitLen n ∧ r.info.caSize = bitLen n' ∧
      comments cfg name true r.info.size r.info.caType r.info.caSize =
        ((if bitLen n < 2048 then [smallHostText (bitLen n)] else []) ++ (if 0 < bitLen n' ∧ bitLen n' < 2048 then [smallCaText (bitLen n')] else []),
         if (2048 ≤ bitLen n ∧ bitLen n < 3072) ∨ (2048 ≤ bitLen n' ∧ bitLen n' < 3072) then [cfg.two2k] else []) := by
  refine ⟨_, cert_sizes (.rsa e n) (.rsa e' n') f kf sig hh hc hf hnn hcl hb hkf hs, rfl, rfl, ?_⟩
  have h1 : isEcc name = false := cert_names_limits.1 name hname
  have h2 : isEcc tRsa = false := cert_names_limits.2.2 tRsa (by decide +kernel)
  exact cert_thresholds cfg name tRsa h1 h2 _ _ (Or.inl (bitLen_pos_of_pos n hh.2.1))

/-- the 2047-bit key that used to be shown as 2048-bit and only warned: now a failure naming 2047 bits -/
theorem repaired_witness :
    bitLen (2 ^ 2046) = 2047 ∧ comments cfg tRsa false (bitLen (2 ^ 2046)) [] 0 = ([s "using small 2047-bit modulus"], []) := by decide +kernel

/-! ### observations recorded with the property (D24): not RSA-family clauses -/

/-- `ssh-ed448` is rated with the RSA limits: `using small 448-bit modulus` -/
theorem ed448_rated_small : comments cfg tEd448 false 448 [] 0 = ([smallText 448], []) := by decide +kernel

/-! ### non-vacuity -/

example : measured (Spec.kexReply (Spec.rsaBlob 65537 (2 ^ 1023 + 1)) [0, 0, 0, 1, 5] [1, 2]) =
    some { raw := Spec.rsaBlob 65537 (2 ^ 1023 + 1), info := { size := 1024, caType := [], caSize := 0 } } := by decide +kernel
example : (measured (Spec.kexReply (Spec.rsaBlob 3 (2 ^ 2046 + 1)) [] [])).map (·.info.size) = some 2047 := by decide +kernel
example : (measured (Spec.kexReply (Spec.edCert (List.replicate 32 7) 2 ⟨List.replicate 32 9, 1, [104], [], 0, 5, [], [], [], [1]⟩
      (Spec.ecdsaBlob (s "nistp521") (List.replicate 66 1) (List.replicate 66 2))) [3] [4])).map (·.info) =
    some { size := 256, caType := s "ecdsa-sha2-nistp521", caSize := 528 } := by decide +kernel
example : comments cfg tRsa false 1024 [] 0 = ([s "using small 1024-bit modulus"], []) := by decide +kernel
example : comments cfg Spec.rsaCertKind true 4096 tRsa 1024 = ([s "using small 1024-bit CA key modulus"], []) := by decide +kernel
example : sha256Text [0, 255, 16] = s "SHA256:AP8Q" ∧ sha256Text [251] = s "SHA256:+w" ∧ md5Text [10, 11, 255] = s "MD5:0a:0b:ff" := by decide +kernel

end SshAudit.C11
