/- Helper lemmas for the policy evaluator (C06, C05).  Core Lean only. -/
import SshAudit.Model.Policy
namespace SshAudit.Pol

/-- the bookkeeping invariant: `ret` is true exactly while no error has been recorded -/
def Inv (st : St) : Prop := st.1 = st.2.isEmpty

@[simp] theorem failWith_fst (st : St) (f : Str) (r : List Str) (o : Option (List Str)) (a : List Str) :
    (failWith st f r o a).1 = false := rfl

theorem failWith_snd (st : St) (f : Str) (r : List Str) (o : Option (List Str)) (a : List Str) :
    (failWith st f r o a).2 = st.2 ++ [{ field := f, expectedRequired := r, expectedOptional := o.getD [[]], actual := a }] := rfl

theorem failWith_inv (st : St) (f : Str) (r : List Str) (o : Option (List Str)) (a : List Str) : Inv (failWith st f r o a) := by
  simp [Inv, failWith]

theorem stepIf_fst (bad : Bool) (st : St) (f : Str) (r : List Str) (o : Option (List Str)) (a : List Str) :
    (stepIf bad st f r o a).1 = (st.1 && !bad) := by
  cases bad <;> simp [stepIf]

theorem stepIf_inv (bad : Bool) (st : St) (f : Str) (r : List Str) (o : Option (List Str)) (a : List Str) (h : Inv st) :
    Inv (stepIf bad st f r o a) := by
  cases bad
  · simpa [stepIf] using h
  · simp only [stepIf, if_true]; exact failWith_inv ..

/-- Boolean form of "this host-key type is fine" -/
def hkOk (p : Policy) (peer : Peer) (sizes : List (Str × HKS)) (t : Str) : Bool :=
  match lookup sizes t, lookup peer.hostKeys t with
  | some exp, some act =>
    !sizeBad p.allowLarger act.size exp.size &&
      (if exp.caType.length > 0 && exp.caSize > 0 then (act.caType == exp.caType && !sizeBad p.allowLarger act.caSize exp.caSize) else true)
  | _, _ => true

def dhOk (p : Policy) (peer : Peer) (sizes : List (Str × Nat)) (t : Str) : Bool :=
  match lookup sizes t, lookup peer.dhSizes t with
  | some exp, some act => !sizeBad p.allowLarger act exp
  | _, _ => true

theorem hostKeySizeStep_fst (p : Policy) (peer : Peer) (sizes : List (Str × HKS)) (st : St) (t : Str) :
    (hostKeySizeStep p peer sizes st t).1 = (st.1 && hkOk p peer sizes t) := by
  unfold hostKeySizeStep hkOk
  cases h1 : lookup sizes t with
  | none => simp
  | some exp =>
    cases h2 : lookup peer.hostKeys t with
    | none => simp
    | some act =>
      simp only
      by_cases hca : (decide (exp.caType.length > 0) && decide (exp.caSize > 0)) = true
      · simp only [hca, if_true]
        by_cases hne : (act.caType != exp.caType) = true
        · have : (act.caType == exp.caType) = false := by simpa using hne
          simp [hne, this]
        · have : (act.caType == exp.caType) = true := by simpa using hne
          simp [hne, stepIf_fst, this, Bool.and_assoc]
      · simp only [hca]; simp [stepIf_fst]

theorem hostKeySizeStep_inv (p : Policy) (peer : Peer) (sizes : List (Str × HKS)) (st : St) (t : Str) (h : Inv st) :
    Inv (hostKeySizeStep p peer sizes st t) := by
  unfold hostKeySizeStep
  split
  · simp only
    split
    · split
      · exact failWith_inv ..
      · exact stepIf_inv _ _ _ _ _ _ (stepIf_inv _ _ _ _ _ _ h)
    · exact stepIf_inv _ _ _ _ _ _ h
  · exact h

theorem dhSizeStep_fst (p : Policy) (peer : Peer) (sizes : List (Str × Nat)) (st : St) (t : Str) :
    (dhSizeStep p peer sizes st t).1 = (st.1 && dhOk p peer sizes t) := by
  unfold dhSizeStep dhOk
  cases h1 : lookup sizes t with
  | none => simp
  | some exp =>
    cases h2 : lookup peer.dhSizes t with
    | none => simp
    | some act => simp [stepIf_fst]

theorem dhSizeStep_inv (p : Policy) (peer : Peer) (sizes : List (Str × Nat)) (st : St) (t : Str) (h : Inv st) :
    Inv (dhSizeStep p peer sizes st t) := by
  unfold dhSizeStep
  split
  · exact stepIf_inv _ _ _ _ _ _ h
  · exact h

theorem foldl_fst {α} (step : St → α → St) (ok : α → Bool) (hs : ∀ st a, (step st a).1 = (st.1 && ok a))
    (ts : List α) (st : St) : (ts.foldl step st).1 = (st.1 && ts.all ok) := by
  induction ts generalizing st with
  | nil => simp
  | cons t ts ih => simp [List.foldl_cons, ih, hs, Bool.and_assoc]

theorem foldl_inv {α} (step : St → α → St) (hs : ∀ st a, Inv st → Inv (step st a)) (ts : List α) (st : St) (h : Inv st) :
    Inv (ts.foldl step st) := by
  induction ts generalizing st with
  | nil => exact h
  | cons t ts ih => exact ih _ (hs _ _ h)

/-! ### sorting keeps membership -/

theorem mem_insertSorted (k x : Str) (l : List Str) : x ∈ insertSorted k l ↔ x = k ∨ x ∈ l := by
  induction l with
  | nil => simp [insertSorted]
  | cons y ys ih =>
    simp only [insertSorted]
    split
    · simp [ih]; constructor
      · rintro (h | h | h) <;> simp [h]
      · rintro (h | h | h) <;> simp [h]
    · simp

theorem mem_sortStrs (x : Str) (l : List Str) : x ∈ sortStrs l ↔ x ∈ l := by
  induction l with
  | nil => simp [sortStrs]
  | cons y ys ih =>
    have : sortStrs (y :: ys) = insertSorted y (sortStrs ys) := rfl
    rw [this, mem_insertSorted, ih]; simp

theorem lookup_some_mem {α} (l : List (Str × α)) (k : Str) (v : α) (h : lookup l k = some v) : k ∈ l.map (·.1) := by
  unfold lookup at h
  cases hf : l.find? (·.1 = k) with
  | none => simp [hf] at h
  | some kv =>
    have := List.find?_some hf
    have hm := List.mem_of_find?_eq_some hf
    simp only [decide_eq_true_eq] at this
    exact List.mem_map.mpr ⟨kv, hm, this⟩

end SshAudit.Pol
