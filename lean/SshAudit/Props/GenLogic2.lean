/-
  Regenerated logic against the hand-written model, second unit (round 15): statement blocks and lambdas.

  `SshAudit.Gen.Logic.<name>` of `Gen/Logic2.lean` are written by `harness/translate_logic.py` from the Python source on every check whose
  plugin lists them in `GEN_LOGIC`.  A `block` is the run of statements the table selects inside a bigger function, read as a function from
  its (typed) free variables to the locals it leaves behind; the theorems say that this function is the one the property proofs are about.

  Proof style as in `GenLogic.lean`: unfold both sides, normalise the Python primitives, finish with `grind` / `omega` — nothing refers to the
  order of branches, to the names of locals or to the way a comparison is written.
-/
import SshAudit.Gen.Logic2
import SshAudit.Gen.Tables
import SshAudit.Lemmas.Py
import SshAudit.Model.HostKey
import SshAudit.Model.Wire
import SshAudit.Model.Multi
import SshAudit.Model.Report
import SshAudit.Model.Output
import SshAudit.Model.Banner
import SshAudit.Model.Gex
import SshAudit.Model.Target
set_option linter.unusedSimpArgs false
namespace SshAudit.GenLogic
open SshAudit

/-! ### ssh_socket.py `send_packet` (C10): padding and length field -/

/-- the two numbers `send_packet` computes from the payload: the padding length and the `packet_length` field -/
theorem send_packet_framing_eq_model (p : Bytes) :
    Gen.Logic.send_packet_framing p = (((Wire.padLen p.length : Nat) : Int), ((p.length + Wire.padLen p.length + 1 : Nat) : Int)) := by
  simp only [Gen.Logic.send_packet_framing, Wire.padLen]
  grind

/-- … which satisfy RFC 4253 section 6 outright: at least 4 bytes of padding, fewer than 12, and 4 + 1 + payload + padding a multiple of 8 -/
theorem send_packet_framing_rfc (p : Bytes) :
    let r := Gen.Logic.send_packet_framing p
    4 ≤ r.1 ∧ r.1 < 12 ∧ (4 + r.2) % 8 = 0 ∧ r.2 = 1 + (p.length : Int) + r.1 := by
  simp only [Gen.Logic.send_packet_framing]
  grind

example : Gen.Logic.send_packet_framing [] = (11, 12) ∧ Gen.Logic.send_packet_framing [1, 2, 3] = (8, 12)
    ∧ Gen.Logic.send_packet_framing [1, 2, 3, 4, 5, 6, 7] = (4, 12) := by decide

/-! ### ssh_audit.py `output_algorithm` (C02): one step of the status fold -/

/-- the `if / elif` that updates `program_retval` for one note: failure wins, a warning never lowers a failure, anything else keeps the status -/
theorem status_step_eq_model (level : Str) (st : Int) :
    Gen.Logic.status_step level st =
      if level = "fail".toList then 3 else if level = "warn".toList ∧ st ≠ 3 then 2 else st := by
  simp only [Gen.Logic.status_step]
  grind

theorem levelName_fail : Output.levelName .fail = ['f', 'a', 'i', 'l'] := by decide
theorem levelName_warn : Output.levelName .warn = ['w', 'a', 'r', 'n'] := by decide
theorem levelName_info : Output.levelName .info = ['i', 'n', 'f', 'o'] := by decide

/-- … and folding it over the levels of a note list is `Report.foldStatus`, the function C02's theorems are about -/
theorem status_fold_eq_model (notes : List Report.Note) (st : Nat) :
    notes.foldl (fun (a : Int) n => Gen.Logic.status_step (Output.levelName n.level) a) (st : Int) = (Report.foldStatus st notes : Nat) := by
  unfold Report.foldStatus
  induction notes generalizing st with
  | nil => rfl
  | cons n ns ih =>
    simp only [List.foldl_cons]
    have h : Gen.Logic.status_step (Output.levelName n.level) (st : Int) =
        ((match n.level with | .fail => 3 | .warn => if st ≠ 3 then 2 else st | .info => st : Nat) : Int) := by
      rw [status_step_eq_model]
      have e1 : "fail".toList = ['f', 'a', 'i', 'l'] := by decide
      have e2 : "warn".toList = ['w', 'a', 'r', 'n'] := by decide
      cases n.level <;> simp [levelName_fail, levelName_warn, levelName_info, e1, e2] <;> grind
    rw [h]
    exact ih _

example : Gen.Logic.status_step "warn".toList 3 = 3 ∧ Gen.Logic.status_step "warn".toList 0 = 2 ∧ Gen.Logic.status_step "fail".toList 2 = 3
    ∧ Gen.Logic.status_step "info".toList 2 = 2 := by decide

/-! ### ssh_audit.py `main` (C08): one step of the multi-target status fold -/

theorem indexOfNat_eq_findIdx? (xs : List Int) (v : Int) : Py.indexOfNat xs v = xs.findIdx? (· = v) := by
  induction xs with
  | nil => rfl
  | cons x xs ih =>
    simp only [Py.indexOfNat, List.findIdx?_cons, ih]
    by_cases h : x = v <;> simp [h]

/-- the ranked list the block builds is the table the translator of the data reads (`Gen.rankedReturnCodes`), and the step is `Multi.rankStep`
    whenever both statuses are in that list; otherwise `.index()` raises (`none`) -/
theorem rank_step_eq_model (w ret : Int) :
    Gen.Logic.rank_step w ret =
      match Multi.rank Gen.rankedReturnCodes w, Multi.rank Gen.rankedReturnCodes ret with
      | some _, some _ => some (Multi.rankStep Gen.rankedReturnCodes ret w)
      | _, _ => none := by
  have hl : ([(0 : Int), 2, 3, 1, -1] : List Int) = Gen.rankedReturnCodes := by decide
  simp only [Gen.Logic.rank_step, Py.indexOf, indexOfNat_eq_findIdx?, hl, Multi.rankStep, Multi.rank]
  cases h1 : List.findIdx? (fun x => decide (x = w)) Gen.rankedReturnCodes <;>
    cases h2 : List.findIdx? (fun x => decide (x = ret)) Gen.rankedReturnCodes <;> simp <;> grind

example : Gen.Logic.rank_step 1 3 = some 1 ∧ Gen.Logic.rank_step 3 1 = some 1 ∧ Gen.Logic.rank_step (-1) 1 = some (-1)
    ∧ Gen.Logic.rank_step 2 0 = some 2 ∧ Gen.Logic.rank_step 7 0 = none := by decide

/-! ### ssh_socket.py `read_packet` (C09 / C10): the length arithmetic and the two rejection tests -/

/-- SSH-2: `payload_length` and `check_size` from the two length fields (as integers: the payload length is negative when the padding
    length exceeds the packet length — the case the D16 repair rejects) -/
theorem read_packet2_lengths_eq_model (plen pad : Nat) :
    Gen.Logic.read_packet2_lengths (plen : Int) (pad : Int) = ((plen : Int) - (pad : Int) - 1, ((plen + 4 : Nat) : Int)) := by
  simp only [Gen.Logic.read_packet2_lengths]
  grind

/-- SSH-1: padding `8 - len % 8`, payload = the length field, `check_size` their sum -/
theorem read_packet1_lengths_eq_model (plen : Nat) :
    Gen.Logic.read_packet1_lengths (plen : Int) = (((Wire.padLen1 plen : Nat) : Int), (plen : Int), ((Wire.padLen1 plen + plen : Nat) : Int)) := by
  simp only [Gen.Logic.read_packet1_lengths, Wire.padLen1]
  grind

/-- the block-size test: `check_size % block_size != 0` (a `ZeroDivisionError` for a block size of 0, which the code never sets) -/
theorem read_packet_bad_block_eq_model (cs b : Nat) :
    Gen.Logic.read_packet_bad_block (cs : Int) (b : Int) = if b = 0 then none else some (decide (cs % b ≠ 0)) := by
  simp only [Gen.Logic.read_packet_bad_block, Py.mod]
  by_cases hb : b = 0
  · simp [hb]
  · have : ¬ ((b : Int) = 0) := by omega
    simp only [this, hb, if_false, Option.bind_some, Int.fmod_eq_emod_of_nonneg (cs : Int) (Int.natCast_nonneg b)]
    congr 1
    rw [← Int.natCast_emod]
    grind

/-- the length test: the payload must hold the packet type (and, in SSH-1, the CRC) -/
theorem read_packet_bad_length_eq_model (pl sshv : Int) :
    Gen.Logic.read_packet_bad_length pl sshv = decide (pl < (if sshv = 1 then 5 else 1)) := by
  simp only [Gen.Logic.read_packet_bad_length]
  grind

/-- together these are exactly the condition under which the model's `Wire.readPacket` ends in `sysExit 1` -/
theorem read_packet2_reject_iff_model (plen pad : Nat) :
    let l := Gen.Logic.read_packet2_lengths (plen : Int) (pad : Int)
    (Gen.Logic.read_packet_bad_block l.2 8 = some true ∨ Gen.Logic.read_packet_bad_length l.1 2 = true) ↔ ((plen + 4) % 8 ≠ 0 ∨ plen < pad + 2) := by
  have h := read_packet_bad_block_eq_model (plen + 4) 8
  simp only [read_packet2_lengths_eq_model, read_packet_bad_length_eq_model]
  rw [show ((8 : Nat) : Int) = 8 from rfl] at h
  rw [h]
  simp
  omega

/-- … and for SSH-1 the condition of `Wire.readPacket1` -/
theorem read_packet1_reject_iff_model (plen : Nat) :
    let l := Gen.Logic.read_packet1_lengths (plen : Int)
    (Gen.Logic.read_packet_bad_block l.2.2 8 = some true ∨ Gen.Logic.read_packet_bad_length l.2.1 1 = true) ↔
      ((Wire.padLen1 plen + plen) % 8 ≠ 0 ∨ plen < 5) := by
  have h := read_packet_bad_block_eq_model (Wire.padLen1 plen + plen) 8
  simp only [read_packet1_lengths_eq_model, read_packet_bad_length_eq_model]
  rw [show ((8 : Nat) : Int) = 8 from rfl] at h
  rw [h]
  simp
  omega

/-! ### gextest.py `GEXTest.run` (C12): the early exit of the probe loop and the follow-up flag (`-1` = no modulus obtained) -/

/-- `if bits >= smallest_modulus > 0: break` is the test of `Gex.loop` -/
theorem gex_early_exit_eq_model (b : Nat) (sm : Option Nat) :
    Gen.Logic.gex_early_exit (b : Int) (encSize sm) = (match sm with | some s => decide (b ≥ s ∧ s > 0) | none => false) := by
  cases sm <;> simp [Gen.Logic.gex_early_exit, encSize] <;> omega

/-- `openssh_test_updated` after the second pass is the `upd` of `Gex.run` -/
theorem gex_followup_updated_eq_model (r : Option Nat) :
    Gen.Logic.gex_followup_updated (encSize r) = (match r with | some n => decide (n > 0 ∧ n ≠ 2048) | none => false) := by
  cases r <;> simp [Gen.Logic.gex_followup_updated, encSize] <;> grind

/-! ### auditconf.py (C18): the port range -/

theorem port_out_of_range_eq_model (v : Int) :
    Gen.Logic.port_out_of_range v = (match Target.checkPort v with | .error _ => true | .ok _ => false) := by
  simp only [Gen.Logic.port_out_of_range, Target.checkPort]
  by_cases h : v < 1 ∨ v > 65535 <;> simp [h] <;> omega

/-! ### utils.py `is_print_ascii` (C16): the character filter -/

theorem is_print_ascii_char_eq_model (n : Nat) : Gen.Logic.is_print_ascii_char (n : Int) = Banner.isPrintCode n := by
  simp only [Gen.Logic.is_print_ascii_char, Banner.isPrintCode]
  grind

/-! ### hostkeytest.py `perform_test` (C11): the size notes of one probed host key -/

theorem pEd_lit : HostKey.pEd = ['s', 's', 'h', '-', 'e', 'd', '2', '5', '5', '1', '9'] := by decide
theorem pEcdsa_lit : HostKey.pEcdsa = ['e', 'c', 'd', 's', 'a', '-', 's', 'h', 'a', '2', '-', 'n', 'i', 's', 't', 'p'] := by decide
theorem tDss_lit : HostKey.tDss = ['s', 's', 'h', '-', 'd', 's', 's'] := by decide
theorem smallText_lit (n : Nat) : HostKey.smallText n = ['u', 's', 'i', 'n', 'g', ' ', 's', 'm', 'a', 'l', 'l', ' '] ++ Text.natToStr n ++ ['-', 'b', 'i', 't', ' ', 'm', 'o', 'd', 'u', 'l', 'u', 's'] := by
  simp [HostKey.smallText, HostKey.s]
theorem smallHostText_lit (n : Nat) : HostKey.smallHostText n = ['u', 's', 'i', 'n', 'g', ' ', 's', 'm', 'a', 'l', 'l', ' '] ++ Text.natToStr n ++ ['-', 'b', 'i', 't', ' ', 'h', 'o', 's', 't', 'k', 'e', 'y', ' ', 'm', 'o', 'd', 'u', 'l', 'u', 's'] := by
  simp [HostKey.smallHostText, HostKey.s]
theorem smallCaText_lit (n : Nat) : HostKey.smallCaText n = ['u', 's', 'i', 'n', 'g', ' ', 's', 'm', 'a', 'l', 'l', ' '] ++ Text.natToStr n ++ ['-', 'b', 'i', 't', ' ', 'C', 'A', ' ', 'k', 'e', 'y', ' ', 'm', 'o', 'd', 'u', 'l', 'u', 's'] := by
  simp [HostKey.smallCaText, HostKey.s]
theorem nsaText_lit : HostKey.nsaText = "CA key uses elliptic curves that are suspected as being backdoored by the U.S. National Security Agency".toList := rfl
theorem two2k_lit : (['2', '0', '4', '8', '-', 'b', 'i', 't', ' ', 'm', 'o', 'd', 'u', 'l', 'u', 's', ' ', 'o', 'n', 'l', 'y', ' ', 'p', 'r', 'o', 'v', 'i', 'd', 'e', 's', ' ', '1', '1', '2', '-', 'b', 'i', 't', 's', ' ', 'o', 'f', ' ', 's', 'y', 'm', 'm', 'e', 't', 'r', 'i', 'c', ' ', 's', 't', 'r', 'e', 'n', 'g', 't', 'h'] : Str) = Gen.two2kWarning := by decide
theorem smallEcc_lit : (['2', '2', '4', '-', 'b', 'i', 't', ' ', 'E', 'C', 'C', ' ', 'm', 'o', 'd', 'u', 'l', 'u', 's', ' ', 'o', 'n', 'l', 'y', ' ', 'p', 'r', 'o', 'v', 'i', 'd', 'e', 's', ' ', '1', '1', '2', '-', 'b', 'i', 't', 's', ' ', 'o', 'f', ' ', 's', 'y', 'm', 'm', 'e', 't', 'r', 'i', 'c', ' ', 's', 't', 'r', 'e', 'n', 'g', 't', 'h'] : Str) = Gen.smallEccWarning := by decide

seal HostKey.pEd HostKey.pEcdsa HostKey.tDss HostKey.smallText HostKey.smallHostText HostKey.smallCaText HostKey.nsaText Gen.two2kWarning
  Gen.smallEccWarning Text.startsWith Text.natToStr

/-- the block that rates a probed host key / CA key by size, started on the empty comment lists the loop gives it, is `HostKey.comments`
    for the warning texts of the current tables -/
theorem hostkey_comments_eq_model (cfg : HostKey.Cfg) (h2 : cfg.two2k = Gen.two2kWarning) (he : cfg.smallEcc = Gen.smallEccWarning)
    (name : Str) (cert : Bool) (size : Nat) (caType : Str) (caSize : Nat) :
    Gen.Logic.hostkey_comments name cert (size : Int) caType (caSize : Int) [] [] = HostKey.comments cfg name cert size caType caSize := by
  simp only [Gen.Logic.hostkey_comments, two2k_lit, smallEcc_lit, fmtD_natCast, ← smallText_lit, ← smallHostText_lit, ← smallCaText_lit,
    ← pEd_lit, ← pEcdsa_lit, ← tDss_lit, ← h2, ← he]
  simp only [HostKey.comments, HostKey.limits, HostKey.isEcc, nsaText_lit]
  generalize "CA key uses elliptic curves that are suspected as being backdoored by the U.S. National Security Agency".toList = tn
  rcases Bool.eq_false_or_eq_true (Text.startsWith name HostKey.pEd) with h1 | h1 <;>
  rcases Bool.eq_false_or_eq_true (Text.startsWith name HostKey.pEcdsa) with h2 | h2 <;>
  rcases Bool.eq_false_or_eq_true (Text.startsWith caType HostKey.pEd) with h3 | h3 <;>
  rcases Bool.eq_false_or_eq_true (Text.startsWith caType HostKey.pEcdsa) with h4 | h4 <;>
  cases cert <;>
  simp only [h1, h2, h3, h4, Bool.or_self, Bool.or_true, Bool.true_or, Bool.false_or, Bool.or_false, if_true, if_false, reduceIte,
    Bool.false_eq_true, beq_self_eq_true, Bool.true_and, Bool.and_true, Bool.false_and, Bool.and_false, List.nil_append,
    List.contains_nil, Bool.not_false, Bool.not_true] <;> grind

end SshAudit.GenLogic
