/-
  C09 — No peer can crash, hang or fool the auditor.

  Model: SshAudit.Model.Session (receive side of SSH_Socket over an arbitrary finite event list per
  connection; `handshakeS` = banner + first packet + KEXINIT parse, classified as `audit()` does;
  `auditEnd` = how each class ends; `catchProbe` = the probe handlers after the D15 repair).

  What is proved here holds for *every* finite peer behaviour (any bytes, segmentation, stalls, resets):
  the reader functions stop at the first stall, make a bounded number of `recv` calls, never raise
  anything but the two framing exits, and every handshake class other than `ok` ends with status 1
  and no algorithm report.  PARTIAL: wall-clock time is not modelled (a stall is one event); the
  byte-level content of probe replies is covered by C11/C12 and by fault-injection correspondence.
-/
import SshAudit.Model.Session
import SshAudit.Props.C02
import SshAudit.Props.C10
namespace SshAudit.C09
open SshAudit SshAudit.Session

/-- counters after a reader call: `recv` calls made, stalls seen, events consumed -/
structure Cost (s s' : Sock) : Prop where
  recvs_le : s'.recvs ≤ s.recvs + (s.events.length - s'.events.length) + 1
  consumed : s'.events.length ≤ s.events.length
  stalls_le : s'.stalls ≤ s.stalls + 1

theorem recv_spec (s : Sock) :
    (recv s).2.recvs = s.recvs + 1 ∧ (recv s).2.events.length ≤ s.events.length ∧
    ((recv s).1 = .got → (recv s).2.stalls = s.stalls ∧ (recv s).2.events.length + 1 = s.events.length) ∧
    ((recv s).1 ≠ .got → (recv s).2.stalls ≤ s.stalls + 1) ∧
    ((recv s).2.stalls = s.stalls + 1 → (recv s).1 = .timedOut ∨ (recv s).1 = .failed) ∧
    (recv s).2.stalls ≤ s.stalls + 1 ∧
    ((recv s).2.events.length = s.events.length → s.events = []) := by
  unfold recv
  cases h : s.events with
  | nil => simp
  | cons e rest =>
    cases e with
    | data bs => by_cases hb : bs.isEmpty <;> simp [hb]
    | timeout => simp
    | error => simp

/-- `ensure_read`: never more than one stall; a stall means the call reports failure; bounded `recv` calls -/
theorem ensureReadAux_spec (fuel n : Nat) (s : Sock) (hf : s.events.length ≤ fuel) :
    let r := ensureReadAux fuel n s
    r.2.stalls ≤ s.stalls + 1 ∧ (r.2.stalls = s.stalls + 1 → r.1 = some .timedOut ∨ r.1 = some .failed) ∧
    r.2.events.length ≤ s.events.length ∧ r.2.recvs ≤ s.recvs + (s.events.length - r.2.events.length) + 1 ∧
    (r.1 = none → r.2.recvs ≤ s.recvs + (s.events.length - r.2.events.length) ∧ r.2.stalls = s.stalls ∧ n ≤ r.2.buf.length) := by
  induction fuel generalizing s with
  | zero =>
    have he : s.events = [] := List.eq_nil_of_length_eq_zero (by omega)
    unfold ensureReadAux
    by_cases hb : s.buf.length ≥ n
    · simp [hb]
    · simp only [hb, if_false]
      have := recv_spec s
      unfold recv at *
      simp [he]
  | succ fuel ih =>
    unfold ensureReadAux
    by_cases hb : s.buf.length ≥ n
    · simp [hb]
    · simp only [hb, if_false]
      obtain ⟨h1, h2, h3, h4, h5, h6, h7⟩ := recv_spec s
      cases hr : (recv s).1 with
      | got =>
        simp only [hr]
        obtain ⟨g1, g2⟩ := h3 hr
        have hf' : (recv s).2.events.length ≤ fuel := by omega
        obtain ⟨i1, i2, i3, i4, i5⟩ := ih (recv s).2 hf'
        refine ⟨by omega, ?_, by omega, by omega, ?_⟩
        · intro hst; exact i2 (by omega)
        · intro hn; obtain ⟨j1, j2, j3⟩ := i5 hn; exact ⟨by omega, by omega, j3⟩
      | closed =>
        simp only [hr]
        have := h4 (by rw [hr]; simp)
        refine ⟨h6, ?_, h2, by omega, by simp⟩
        intro hst; have := h5 hst; rw [hr] at this; simp at this
      | timedOut =>
        simp only [hr]
        exact ⟨h6, by simp, h2, by omega, by simp⟩
      | failed =>
        simp only [hr]
        exact ⟨h6, by simp, h2, by omega, by simp⟩

theorem ensureRead_spec (n : Nat) (s : Sock) :
    let r := ensureRead n s
    r.2.stalls ≤ s.stalls + 1 ∧ (r.2.stalls = s.stalls + 1 → r.1 = some .timedOut ∨ r.1 = some .failed) ∧
    r.2.events.length ≤ s.events.length ∧ r.2.recvs ≤ s.recvs + (s.events.length - r.2.events.length) + 1 ∧
    (r.1 = none → r.2.recvs ≤ s.recvs + (s.events.length - r.2.events.length) ∧ r.2.stalls = s.stalls ∧ n ≤ r.2.buf.length) :=
  ensureReadAux_spec s.events.length n s (Nat.le_refl _)

/-- the packet reader never reaches the `ord(b'')` TypeError of the original code: after the D16 repair a payload of
    at least one byte is always present when the type byte is read (and no negative-length read can occur) -/
theorem readPacket_no_type_error (s : Sock) : (readPacketS s).1 ≠ .typeError := by
  unfold readPacketS
  split
  · simp
  · next s1 he1 =>
    dsimp only
    split
    · simp
    · next s3 he3 =>
      split
      · simp
      · next padB rest hb =>
        split
        · simp
        · next hchk =>
          split
          · simp
          · next s5 he5 =>
            split
            · next hp =>
              exfalso
              have hlen := ((ensureRead_spec (Wire.ofBE (Wire.natsOf (s1.buf.take 4)) - padB.toNat - 1) _).2.2.2.2 (by rw [he5])).2.2
              rw [he5] at hlen
              simp only at hlen
              have hpos : 1 ≤ Wire.ofBE (Wire.natsOf (s1.buf.take 4)) - padB.toNat - 1 := by
                simp only [not_or, Nat.not_lt] at hchk; omega
              have : (s5.buf.take (Wire.ofBE (Wire.natsOf (s1.buf.take 4)) - padB.toNat - 1)).length ≥ 1 := by
                rw [List.length_take]; omega
              rw [hp] at this; simp at this
            · split <;> simp

/-- **Reading the identification string stalls at most once** (the loop returns at the first timeout, error or close —
    after the D17 repair it first reads what is left in the buffer as final lines), and it makes at most one `recv` per
    peer event plus one — so it terminates for every finite peer. -/
theorem getBannerAux_spec (fuel : Nat) (h : List Str) (s : Sock) :
    let r := getBannerAux fuel h s
    r.2.2.2.stalls ≤ s.stalls + 1 ∧ r.2.2.2.events.length ≤ s.events.length ∧
    r.2.2.2.recvs ≤ s.recvs + (s.events.length - r.2.2.2.events.length) + 1 := by
  induction fuel generalizing h s with
  | zero => simp [getBannerAux]
  | succ fuel ih =>
    unfold getBannerAux
    obtain ⟨h1, h2, h3, h4, h5, h6, h7⟩ := recv_spec s
    cases hr : (recv s).1 with
    | got =>
      simp only [hr]
      obtain ⟨g1, g2⟩ := h3 hr
      split
      · next b h' rest hs =>
        exact ⟨by simp only; omega, h2, by simp only; omega⟩
      · next h' x hs =>
        have := ih h' { (recv s).2 with buf := (Banner.cutLines (recv s).2.buf).2 }
        simp only at this
        obtain ⟨i1, i2, i3⟩ := this
        exact ⟨by omega, by omega, by omega⟩
    | closed => simp only [hr]; split <;> exact ⟨h6, h2, by simp only; omega⟩
    | timedOut => simp only [hr]; split <;> exact ⟨h6, h2, by simp only; omega⟩
    | failed => simp only [hr]; split <;> exact ⟨h6, h2, by simp only; omega⟩

theorem ensureRead_ok (n : Nat) (s s' : Sock) (h : ensureRead n s = (none, s')) :
    s'.stalls = s.stalls ∧ s'.recvs ≤ s.recvs + (s.events.length - s'.events.length) ∧ s'.events.length ≤ s.events.length := by
  have := ensureRead_spec n s
  simp only [h] at this
  obtain ⟨_, _, h3, _, h5⟩ := this
  obtain ⟨a, b, _⟩ := h5 trivial
  exact ⟨b, a, h3⟩

theorem ensureRead_fail (n : Nat) (s s' : Sock) (r : RecvRes) (h : ensureRead n s = (some r, s')) :
    s'.stalls ≤ s.stalls + 1 ∧ s'.recvs ≤ s.recvs + (s.events.length - s'.events.length) + 1 ∧ s'.events.length ≤ s.events.length := by
  have := ensureRead_spec n s
  simp only [h] at this
  obtain ⟨h1, _, h3, h4, _⟩ := this
  exact ⟨h1, h4, h3⟩

/-- cost of one `read_packet`: at most one stall, at most one `recv` per consumed event plus one -/
theorem readPacket_cost (s : Sock) :
    (readPacketS s).2.stalls ≤ s.stalls + 1 ∧ (readPacketS s).2.recvs ≤ s.recvs + (s.events.length - (readPacketS s).2.events.length) + 1 ∧
      (readPacketS s).2.events.length ≤ s.events.length := by
  unfold readPacketS
  split
  · next r s1 he1 => exact ensureRead_fail 4 s _ r he1
  · next s1 he1 =>
    obtain ⟨a1, b1, c1⟩ := ensureRead_ok 4 s s1 he1
    dsimp only
    split
    · next r s3 he3 =>
      obtain ⟨a, b, c⟩ := ensureRead_fail 1 _ _ r he3
      simp only at a b c ⊢
      exact ⟨by omega, by omega, by omega⟩
    · next s3 he3 =>
      obtain ⟨a3, b3, c3⟩ := ensureRead_ok 1 _ s3 he3
      simp only at a3 b3 c3
      split
      · simp only; exact ⟨by omega, by omega, by omega⟩
      · next padB rest hb =>
        split
        · simp only; exact ⟨by omega, by omega, by omega⟩
        · split
          · next r s5 he5 =>
            obtain ⟨a, b, c⟩ := ensureRead_fail _ _ _ r he5
            simp only at a b c ⊢
            exact ⟨by omega, by omega, by omega⟩
          · next s5 he5 =>
            obtain ⟨a5, b5, c5⟩ := ensureRead_ok _ _ s5 he5
            simp only at a5 b5 c5
            split
            · simp only; exact ⟨by omega, by omega, by omega⟩
            · split
              · next r s7 he7 =>
                obtain ⟨a, b, c⟩ := ensureRead_fail _ _ _ r he7
                simp only at a b c ⊢
                exact ⟨by omega, by omega, by omega⟩
              · next s7 he7 =>
                obtain ⟨a, b, c⟩ := ensureRead_ok _ _ s7 he7
                simp only at a b c ⊢
                exact ⟨by omega, by omega, by omega⟩

/-- **The whole handshake on the first connection: at most two stalls are ever waited for** (one only if the identification
    line arrived with its line ending: an unterminated line is accepted after the peer went quiet, and the packet read
    after it may stall once more), **and the number of `recv` calls is bounded by the number of peer events plus two** — so
    the time spent on a connection is at most two timeouts beyond the peer's own activity, for every finite peer. -/
theorem handshake_cost (s : Sock) :
    (handshakeS s).2.2.stalls ≤ s.stalls + 2 ∧ (handshakeS s).2.2.recvs ≤ s.recvs + s.events.length + 2 := by
  unfold handshakeS getBannerS
  have hb := getBannerAux_spec (s.events.length + 1) [] s
  generalize getBannerAux (s.events.length + 1) [] s = gb at hb
  obtain ⟨ob, hd, oe, s1⟩ := gb
  simp only at hb
  obtain ⟨b1, b2, b3⟩ := hb
  cases ob with
  | none => simp only; exact ⟨by omega, by omega⟩
  | some b =>
    simp only
    obtain ⟨d1, d2, d3⟩ := readPacket_cost s1
    generalize readPacketS s1 = rp at d1 d2 d3
    obtain ⟨res, s2⟩ := rp
    simp only at d1 d2 d3
    cases res with
    | insufficient r => simp only; exact ⟨by omega, by omega⟩
    | framingExit => simp only; exact ⟨by omega, by omega⟩
    | typeError => simp only; exact ⟨by omega, by omega⟩
    | packet t body =>
      simp only
      split
      · simp only; exact ⟨by omega, by omega⟩
      · split <;> (simp only; exact ⟨by omega, by omega⟩)

/-- **An incomplete handshake never looks clean**: whatever bytes arrive, in whatever segmentation, with whatever stalls —
    if the handshake is not classified `ok`, the audit ends with status 1 and without an algorithm report. -/
theorem malformed_handshake_no_report (s : Sock) (cfg : AuditCfg) (res : AuditResult) (h : (handshakeS s).1 ≠ .ok) :
    (auditEnd cfg (handshakeS s).1 res).status = 1 ∧ (auditEnd cfg (handshakeS s).1 res).algReport = false :=
  C02.incomplete_never_clean cfg _ h res

/-- **A handshake classified `ok` really carried a KEXINIT**: a banner line was found, the first packet was well-framed
    with type 20, and the lists reported are exactly those `kexParse` reads from its payload (C10: for a canonical payload these
    are the lists it was written from) -/
theorem handshake_ok_sound (s : Sock) (k : Wire.Kex) (s' : Sock) (h : handshakeS s = (.ok, some k, s')) :
    ∃ b hd e s1 body, getBannerS s = (some b, hd, e, s1) ∧ readPacketS s1 = (.packet 20 body, s') ∧ Wire.kexParse body = .ok k := by
  unfold handshakeS at h
  split at h
  · cases h
  · next b hd e s1 hg =>
    split at h
    · cases h
    · cases h
    · cases h
    · next t body s2 hp =>
      split at h
      · cases h
      · next ht =>
        have ht' : t = 20 := by simpa using ht
        split at h
        · next k' hk =>
          simp only [Prod.mk.injEq, Option.some.injEq, true_and] at h
          obtain ⟨rfl, rfl⟩ := h
          exact ⟨b, hd, e, s1, body, hg, by rw [hp, ht'], hk⟩
        · cases h

/-- **Probe-phase misbehaviour is contained**: whatever exception a peer-controlled reply provokes inside a probe
    (`struct.error`, `ValueError`, `UnicodeDecodeError`, `TypeError`, `KeyError`, `KexDHException`, even `sys.exit`),
    the probe handler turns it into "no result for this probe" -/
theorem probe_misbehaviour_contained {α : Type} (r : Except Exn α) : (catchProbe r).isSome = true ∨ catchProbe r = none := by
  cases r <;> simp [catchProbe]

theorem probe_exception_is_none {α : Type} (e : Exn) : catchProbe (.error e : Except Exn α) = none := rfl

-- non-vacuity: a concrete well-formed stream is classified ok; truncations are not
def goodStream : List RecvEvent :=
  [.data ([83,83,72,45,50,46,48,45,120,13,10]), .data ([0,0,0,84, 11, 20] ++ List.replicate 16 7 ++ (List.replicate 10 [0,0,0,1,97]).flatten ++ [0, 0,0,0,0] ++ List.replicate 11 0)]
example : (handshakeS { events := goodStream }).1 = .ok := by decide +kernel
example : (handshakeS { events := goodStream.take 1 }).1 = .readError := by decide +kernel
example : (handshakeS { events := [.data ([83,83,72,45,50,46,48,45,120,13,10]), .timeout, .data [1,2,3]] }).2.2.stalls = 1 := by decide +kernel
example : (handshakeS { events := [.data ([104,101,108,108,111,13,10]), .error] }).1 = .noBanner := by decide +kernel
example : (handshakeS { events := [.data ([83,83,72,45,50,46,48,45,120,13,10]), .data [0,0,0,4,255,20,1,2,3]] }).1 = .badFraming := by decide +kernel

/-! ### a truncated KEXINIT is never taken for a whole one -/

open SshAudit.Wire in
/-- reading a name-list from a truncated buffer either fails or leaves a strictly truncated rest -/
theorem readList_prefix (names : List Bytes) (a R0 : Bytes) (e : writeList names = .ok a) (hR : R0 ≠ []) (m : Nat) (hm : m < (a ++ R0).length) :
    readList ((a ++ R0).take m) = .error .struct ∨ ∃ v m', readList ((a ++ R0).take m) = .ok (v, R0.take m') ∧ m' < R0.length := by
  unfold writeList writeString at e
  cases hw : writeInt (joinComma names).length with
  | error e' => simp [hw, bind, Except.bind] at e
  | ok hd =>
    simp only [hw, bind, Except.bind, pure, Except.pure, Except.ok.injEq] at e
    subst e
    have hd4 : hd.length = 4 := by
      unfold writeInt at hw
      split at hw
      · simp only [Except.ok.injEq] at hw; subst hw; simp
      · cases hw
    have hRpos : 0 < R0.length := List.length_pos_iff.mpr hR
    by_cases h4 : m < 4
    · left
      unfold readList readString readInt
      have : ((hd ++ joinComma names ++ R0).take m).length < 4 := by simp only [List.length_take]; omega
      rw [if_pos this]
      rfl
    · right
      have hm4 : 4 ≤ m := by omega
      have hsplit : (hd ++ joinComma names ++ R0).take m = hd ++ (joinComma names ++ R0).take (m - 4) := by
        rw [List.append_assoc, List.take_append, hd4, List.take_of_length_le (by omega)]
      rw [hsplit]
      unfold readList readString
      rw [C10.u32_rt _ hd _ hw]
      simp only [bind, Except.bind, pure, Except.pure]
      refine ⟨splitComma (((joinComma names ++ R0).take (m - 4)).take (joinComma names).length), m - 4 - (joinComma names).length, ?_, ?_⟩
      · congr 2
        rw [List.drop_take, List.drop_append, List.drop_of_length_le (Nat.le_refl _)]
        simp
      · simp only [List.length_append, hd4] at hm; omega

open SshAudit.Wire in
/-- **Every proper prefix of a well-formed KEXINIT message is rejected** (with `struct.error`, which `audit()` turns into
    status 1 without a report): a peer cannot get a truncated algorithm list reported as its configuration. -/
theorem kexinit_prefix_rejected (k : Kex) (bs : Bytes) (hc : k.cookie.length = 16) (h : kexWrite k = .ok bs) (m : Nat) (hm : m < bs.length) :
    kexParse (bs.take m) = .error .struct := by
  unfold kexWrite at h
  cases e1 : writeList k.kex with | error e => simp [e1, bind, Except.bind] at h | ok a =>
  cases e2 : writeList k.key with | error e => simp [e1, e2, bind, Except.bind] at h | ok b =>
  cases e3 : writeList k.encC with | error e => simp [e1, e2, e3, bind, Except.bind] at h | ok c =>
  cases e4 : writeList k.encS with | error e => simp [e1, e2, e3, e4, bind, Except.bind] at h | ok d =>
  cases e5 : writeList k.macC with | error e => simp [e1, e2, e3, e4, e5, bind, Except.bind] at h | ok e =>
  cases e6 : writeList k.macS with | error e => simp [e1, e2, e3, e4, e5, e6, bind, Except.bind] at h | ok f =>
  cases e7 : writeList k.compC with | error e => simp [e1, e2, e3, e4, e5, e6, e7, bind, Except.bind] at h | ok g =>
  cases e8 : writeList k.compS with | error e => simp [e1, e2, e3, e4, e5, e6, e7, e8, bind, Except.bind] at h | ok hh =>
  cases e9 : writeList k.langC with | error e => simp [e1, e2, e3, e4, e5, e6, e7, e8, e9, bind, Except.bind] at h | ok i =>
  cases e10 : writeList k.langS with | error e => simp [e1, e2, e3, e4, e5, e6, e7, e8, e9, e10, bind, Except.bind] at h | ok j =>
  cases e11 : writeInt k.unused with | error e => simp [e1, e2, e3, e4, e5, e6, e7, e8, e9, e10, e11, bind, Except.bind] at h | ok u =>
  simp only [e1, e2, e3, e4, e5, e6, e7, e8, e9, e10, e11, bind, Except.bind, pure, Except.pure, Except.ok.injEq] at h
  subst h
  have hu : u.length = 4 := by
    unfold writeInt at e11
    split at e11
    · simp only [Except.ok.injEq] at e11; subst e11; simp
    · cases e11
  have hb : (writeBool k.follows).length = 1 := by simp [writeBool]
  simp only [List.append_assoc] at hm ⊢
  -- the cookie read clamps: what is left is a strict prefix of the rest
  have hcookie : (Wire.read 16 ((k.cookie ++ (a ++ (b ++ (c ++ (d ++ (e ++ (f ++ (g ++ (hh ++ (i ++ (j ++ (writeBool k.follows ++ u)))))))))))).take m)).2
      = (a ++ (b ++ (c ++ (d ++ (e ++ (f ++ (g ++ (hh ++ (i ++ (j ++ (writeBool k.follows ++ u))))))))))).take (m - 16) := by
    simp only [Wire.read]
    rw [List.drop_take, List.drop_append, hc, List.drop_of_length_le (by omega)]
    simp
  unfold kexParse
  simp only [hcookie]
  have ne : ∀ (x : Bytes), x ++ (writeBool k.follows ++ u) ≠ [] := by
    intro x hx; have := congrArg List.length hx; simp [hb, hu] at this
  have hm0 : m - 16 < (a ++ (b ++ (c ++ (d ++ (e ++ (f ++ (g ++ (hh ++ (i ++ (j ++ (writeBool k.follows ++ u))))))))))).length := by
    simp only [List.length_append, hc] at hm ⊢; omega
  rcases readList_prefix _ a _ e1 (by simpa [List.append_assoc] using ne (b ++ (c ++ (d ++ (e ++ (f ++ (g ++ (hh ++ (i ++ j))))))))) _ hm0 with h1 | ⟨v1, m1, h1, hm1⟩
  · simp [h1, bind, Except.bind]
  rw [h1]; simp only [bind, Except.bind]
  rcases readList_prefix _ b _ e2 (by simpa [List.append_assoc] using ne (c ++ (d ++ (e ++ (f ++ (g ++ (hh ++ (i ++ j)))))))) _ hm1 with h2 | ⟨v2, m2, h2, hm2⟩
  · simp [h2, bind, Except.bind]
  rw [h2]; simp only [bind, Except.bind]
  rcases readList_prefix _ c _ e3 (by simpa [List.append_assoc] using ne (d ++ (e ++ (f ++ (g ++ (hh ++ (i ++ j))))))) _ hm2 with h3 | ⟨v3, m3, h3, hm3⟩
  · simp [h3, bind, Except.bind]
  rw [h3]; simp only [bind, Except.bind]
  rcases readList_prefix _ d _ e4 (by simpa [List.append_assoc] using ne (e ++ (f ++ (g ++ (hh ++ (i ++ j)))))) _ hm3 with h4 | ⟨v4, m4, h4, hm4⟩
  · simp [h4, bind, Except.bind]
  rw [h4]; simp only [bind, Except.bind]
  rcases readList_prefix _ e _ e5 (by simpa [List.append_assoc] using ne (f ++ (g ++ (hh ++ (i ++ j))))) _ hm4 with h5 | ⟨v5, m5, h5, hm5⟩
  · simp [h5, bind, Except.bind]
  rw [h5]; simp only [bind, Except.bind]
  rcases readList_prefix _ f _ e6 (by simpa [List.append_assoc] using ne (g ++ (hh ++ (i ++ j)))) _ hm5 with h6 | ⟨v6, m6, h6, hm6⟩
  · simp [h6, bind, Except.bind]
  rw [h6]; simp only [bind, Except.bind]
  rcases readList_prefix _ g _ e7 (by simpa [List.append_assoc] using ne (hh ++ (i ++ j))) _ hm6 with h7 | ⟨v7, m7, h7, hm7⟩
  · simp [h7, bind, Except.bind]
  rw [h7]; simp only [bind, Except.bind]
  rcases readList_prefix _ hh _ e8 (by simpa [List.append_assoc] using ne (i ++ j)) _ hm7 with h8 | ⟨v8, m8, h8, hm8⟩
  · simp [h8, bind, Except.bind]
  rw [h8]; simp only [bind, Except.bind]
  rcases readList_prefix _ i _ e9 (by simpa [List.append_assoc] using ne j) _ hm8 with h9 | ⟨v9, m9, h9, hm9⟩
  · simp [h9, bind, Except.bind]
  rw [h9]; simp only [bind, Except.bind]
  rcases readList_prefix _ j _ e10 (by simpa using ne []) _ hm9 with h10 | ⟨v10, m10, h10, hm10⟩
  · simp [h10, bind, Except.bind]
  rw [h10]; simp only [bind, Except.bind]
  -- the boolean and the trailing 32-bit field: fewer than 5 bytes are left
  simp only [List.length_append, hb, hu] at hm10
  cases hfb : writeBool k.follows with
  | nil => simp [hfb] at hb
  | cons fb tl =>
    have htl : tl = [] := by
      have := hb; rw [hfb] at this; simp at this; exact this
    subst htl
    cases m10 with
    | zero => simp [readBool, readByte, bind, Except.bind]
    | succ q =>
      have hq : min q u.length < 4 := by omega
      simp [readBool, readByte, readInt, hq, bind, Except.bind, pure, Except.pure]

-- non-vacuity: a real message, cut one byte short
def sampleKex : Wire.Kex := ⟨List.replicate 16 7, [[0x61]], [[0x62]], [[0x63]], [[0x63]], [[0x64]], [[0x64]], [[0x65]], [[0x65]], [[]], [[]], false, 0⟩
example : (Wire.kexWrite sampleKex).toOption.map (fun bs => (bs.length, Wire.kexParse (bs.take (bs.length - 1)))) = some (69, .error .struct) := by decide +kernel

/-! ### the lenient reader accepts only what a strict reader accepts -/

namespace Strict
open SshAudit.Wire

/-- `read_string` as a strict reader would do it: the body must be there in full -/
def readString (bs : Bytes) : Except Exn (Bytes × Bytes) := do
  let (n, r) ← readInt bs
  if r.length < n then .error .struct else pure (r.take n, r.drop n)

def readList (bs : Bytes) : Except Exn (List Bytes × Bytes) := do
  let (s, r) ← Strict.readString bs
  pure (splitComma s, r)

/-- KEXINIT read strictly: a 16-byte cookie, ten name-lists each of which fits, the flag, the reserved word -/
def kexParse (bs : Bytes) : Except Exn Kex := do
  if bs.length < 16 then .error .struct
  let (cookie, r) := Wire.read 16 bs
  let (kex, r) ← Strict.readList r
  let (key, r) ← Strict.readList r
  let (encC, r) ← Strict.readList r
  let (encS, r) ← Strict.readList r
  let (macC, r) ← Strict.readList r
  let (macS, r) ← Strict.readList r
  let (compC, r) ← Strict.readList r
  let (compS, r) ← Strict.readList r
  let (langC, r) ← Strict.readList r
  let (langS, r) ← Strict.readList r
  let (follows, r) ← readBool r
  let (unused, _) ← readInt r
  pure { cookie, kex, key, encC, encS, macC, macS, compC, compS, langC, langS, follows, unused }

end Strict

open SshAudit.Wire in
theorem readList_ok_ne (r : Bytes) (x : List Bytes × Bytes) (h : readList r = .ok x) : r ≠ [] := by
  intro hr; subst hr
  simp [readList, readString, readInt, bind, Except.bind] at h

open SshAudit.Wire in
theorem readBool_ok_ne (r : Bytes) (x : Bool × Bytes) (h : readBool r = .ok x) : r ≠ [] := by
  intro hr; subst hr
  simp [readBool, readByte, bind, Except.bind] at h

open SshAudit.Wire in
/-- a lenient name-list read that leaves something behind did not overrun: the strict read gives the same -/
theorem readList_strict (r r' : Bytes) (v : List Bytes) (h : readList r = .ok (v, r')) (hne : r' ≠ []) : Strict.readList r = .ok (v, r') := by
  unfold readList readString at h
  unfold Strict.readList Strict.readString
  cases hi : readInt r with
  | error e => simp [hi, bind, Except.bind] at h
  | ok nr =>
    obtain ⟨n, r1⟩ := nr
    simp only [hi, bind, Except.bind, pure, Except.pure, Except.ok.injEq, Prod.mk.injEq] at h ⊢
    obtain ⟨hv, hr⟩ := h
    have : ¬ r1.length < n := by
      intro hlt
      apply hne
      rw [← hr]
      exact List.drop_eq_nil_iff.mpr (by omega)
    simp only [this, if_false, Except.ok.injEq, Prod.mk.injEq]
    exact ⟨hv, hr⟩

open SshAudit.Wire in
/-- **Whatever the lenient KEXINIT reader accepts, a strict reader accepts with the same result**: although `read(n)` clamps,
    a payload in which the cookie or any name-list overruns the data is rejected (the next fixed-size field is missing), so a
    peer cannot get an incomplete key-exchange-init reported. -/
theorem kexParse_accepts_only_complete (bs : Bytes) (k : Kex) (h : kexParse bs = .ok k) : Strict.kexParse bs = .ok k := by
  unfold kexParse at h
  simp only [Wire.read] at h
  cases e1 : readList (bs.drop 16) with | error e => simp [e1, bind, Except.bind] at h | ok x1 =>
  obtain ⟨v1, r1⟩ := x1
  simp only [e1, bind, Except.bind] at h
  cases e2 : readList r1 with | error e => simp [e2] at h | ok x2 =>
  obtain ⟨v2, r2⟩ := x2
  simp only [e2] at h
  cases e3 : readList r2 with | error e => simp [e3] at h | ok x3 =>
  obtain ⟨v3, r3⟩ := x3
  simp only [e3] at h
  cases e4 : readList r3 with | error e => simp [e4] at h | ok x4 =>
  obtain ⟨v4, r4⟩ := x4
  simp only [e4] at h
  cases e5 : readList r4 with | error e => simp [e5] at h | ok x5 =>
  obtain ⟨v5, r5⟩ := x5
  simp only [e5] at h
  cases e6 : readList r5 with | error e => simp [e6] at h | ok x6 =>
  obtain ⟨v6, r6⟩ := x6
  simp only [e6] at h
  cases e7 : readList r6 with | error e => simp [e7] at h | ok x7 =>
  obtain ⟨v7, r7⟩ := x7
  simp only [e7] at h
  cases e8 : readList r7 with | error e => simp [e8] at h | ok x8 =>
  obtain ⟨v8, r8⟩ := x8
  simp only [e8] at h
  cases e9 : readList r8 with | error e => simp [e9] at h | ok x9 =>
  obtain ⟨v9, r9⟩ := x9
  simp only [e9] at h
  cases e10 : readList r9 with | error e => simp [e10] at h | ok x10 =>
  obtain ⟨v10, r10⟩ := x10
  simp only [e10] at h
  cases eb : readBool r10 with | error e => simp [eb] at h | ok xb =>
  obtain ⟨fb, rb⟩ := xb
  simp only [eb] at h
  have n0 : bs.drop 16 ≠ [] := readList_ok_ne _ _ e1
  have hlen : ¬ bs.length < 16 := by
    intro hl; exact n0 (List.drop_eq_nil_iff.mpr (by omega))
  unfold Strict.kexParse
  simp only [Wire.read, hlen, if_false, bind, Except.bind, pure, Except.pure]
  rw [readList_strict _ _ _ e1 (readList_ok_ne _ _ e2)]; simp only
  rw [readList_strict _ _ _ e2 (readList_ok_ne _ _ e3)]; simp only
  rw [readList_strict _ _ _ e3 (readList_ok_ne _ _ e4)]; simp only
  rw [readList_strict _ _ _ e4 (readList_ok_ne _ _ e5)]; simp only
  rw [readList_strict _ _ _ e5 (readList_ok_ne _ _ e6)]; simp only
  rw [readList_strict _ _ _ e6 (readList_ok_ne _ _ e7)]; simp only
  rw [readList_strict _ _ _ e7 (readList_ok_ne _ _ e8)]; simp only
  rw [readList_strict _ _ _ e8 (readList_ok_ne _ _ e9)]; simp only
  rw [readList_strict _ _ _ e9 (readList_ok_ne _ _ e10)]; simp only
  rw [readList_strict _ _ _ e10 (readBool_ok_ne _ _ eb)]; simp only
  rw [eb]; simp only
  exact h

-- non-vacuity / the seeded witness: the last name-list's length field one too large is rejected by both readers
example : (Wire.kexWrite sampleKex).toOption.map (fun bs => (Wire.kexParse bs).toOption.isSome) = some true := by decide +kernel

end SshAudit.C09
