"""C04 — Terrapin (CVE-2023-48795) exposure is flagged exactly per the published rule.

Theorems: SshAudit.Props.C04 (marked set = rule's V when the role's marker is absent, empty when
present; only ciphers/MACs; other role's marker ignored; advisory note iff marker ∧ V ≠ [] naming
exactly V in order; the marks reach exactly the entries of V in the rendered database; every
disabled ChaCha/CBC/EtM database name is suppressed; nothing suppressed is ever recommended).
Tie: exhaustive grid role x marker{own, other, none, both} x ChaCha x CBC x EtM, instantiated with
every matching database name and with unknown names of each shape, through the real output()
(text + JSON) vs. the model's `report` (per-line notes, advisory note, recommendations).
Oracle: an independent statement of the published rule evaluated on the implementation's own report.
"""
import itertools
import json

from common import Coverage
from props import report_common as rc
from props import peergen as pg

ID = 'C04'
MODULE = 'SshAudit.Props.C04'
NAMESPACE = 'SshAudit.C04'
THEOREMS = ['marker_eq', 'terrapin_exact', 'only_enc_mac', 'other_role_marker_ignored', 'mem_Venc', 'mem_Vmac', 'advisory_note',
            'terrapinIn_addTerrapin', 'terrapinIn_foldl', 'fallback_frame', 'terrapin_in_report', 'marker_silences', 'suppressed_if_disabled',
            'suppressed_not_recommended']
# functions of the code whose Lean definitions are regenerated from the source on every run (harness/translate_logic.py); `GenLogic.<name>_eq_model`
# (lean/SshAudit/Props/GenLogic*.lean) ties each to the hand-written model function the theorems above are about
GEN_LOGIC = ['is_chacha', 'is_cbc', 'is_etm', 'terrapin_rule']
TECHNIQUE = 'Lean 4 theorems (set characterisation of the rule, frame lemmas for in-place database edits by induction over the marked lists) + exhaustive boolean-grid correspondence through output()'
LEVEL_TEXT = ('The rule "no strict-kex marker for the role, and ChaCha20-Poly1305 or (CBC and EtM)" is proved to determine exactly which database entries gain the Terrapin warning in the database the report '
              'is rendered from — for arbitrary lists and roles — and the advisory note / suppress list are characterised likewise. The grid of the quantifier is run exhaustively through the real output() and compared with the model.')
LEVEL_NOTE = ('Trusted: Lean kernel, harness. Unknown names of CBC/EtM/ChaCha shape crashed the tool before the D09 repair; after it they are reported as unknown and carry no Terrapin note — recorded known finding D09-residual. '
              'For client audits the detection reads the client-to-server lists while the report shows server-to-client lists (observation D28): the grid uses equal lists in both directions. des-cbc-ssh1 is not matched by the CBC predicate (observation D10).')

TERRAPIN = 'vulnerable to the Terrapin attack (CVE-2023-48795), allowing message prefix truncation'


def is_chacha(n):
    return n.startswith('chacha20-poly1305')


def is_cbc(n):
    return n.endswith('-cbc') or n.endswith('-cbc@openssh.org') or n.endswith('-cbc@ssh.com') or n == 'rijndael-cbc@lysator.liu.se'


def is_etm(n):
    return n.endswith('-etm@openssh.com')


def rule(peer, client):
    """the published rule, on the lists the report shows"""
    marker = (pg.STRICT_C if client else pg.STRICT_S) in peer['kex']
    enc, mac = peer['encS'], peer['macS']
    cbc = [n for n in enc if is_cbc(n)]
    etm = [n for n in mac if is_etm(n)]
    v_enc = [n for n in enc if is_chacha(n)] + (cbc if cbc and etm else [])
    v_mac = etm if cbc and etm else []
    return marker, v_enc, v_mac


def run(ctx):
    r = ctx.rng
    db = pg.master()
    cov = Coverage('one evaluation = one peer of the grid rendered by the real output() (text and JSON); non-trivial = distinct peers with at least one ChaCha/CBC/EtM name; grid role(2) x marker{own, other, none, both} x '
                   'ChaCha{0,1,2} x CBC{0,1,2} x EtM{0,1,2}, each cell instantiated with database names (thorough: every matching name at least once) and with unknown names of the same shape')
    failures, mismatches = [], []
    lines, expect = [], []
    chachas = [n for n in db['enc'] if is_chacha(n)]
    cbcs = [n for n in db['enc'] if is_cbc(n)]
    etms = [n for n in db['mac'] if is_etm(n)]
    plain_enc = [n for n in db['enc'] if not (is_chacha(n) or is_cbc(n))]
    plain_mac = [n for n in db['mac'] if not is_etm(n)]

    def fail(kind, inp, observed, expected):
        failures.append({'sig': {'kind': kind}, 'input': inp, 'observed': observed, 'expected': expected, 'how': 'harness/props/C04.py on the real output()'})
    cells = list(itertools.product([False, True], ['own', 'other', 'none', 'both'], [0, 1, 2], [0, 1, 2], [0, 1, 2]))
    reps = ctx.scale(2, 14)
    pool_cbc, pool_etm = list(cbcs), list(etms)
    for client, marker, nch, ncb, net in cells:
        for rep in range(reps):
            unknown_shape = (rep == reps - 1)
            kex = ['curve25519-sha256', 'ecdh-sha2-nistp256']
            own, other = (pg.STRICT_C, pg.STRICT_S) if client else (pg.STRICT_S, pg.STRICT_C)
            if marker in ('own', 'both'):
                kex.insert(r.randint(0, len(kex)), own)
            if marker in ('other', 'both'):
                kex.insert(r.randint(0, len(kex)), other)
            if unknown_shape:
                enc = [pg.unknown_name(r, 'chacha') for _ in range(nch)] + [pg.unknown_name(r, 'cbc') for _ in range(ncb)]
                mac = [pg.unknown_name(r, 'etm') for _ in range(net)]
                if r.random() < 0.5:     # mixed: unknown + known
                    enc += r.sample(cbcs, min(1, ncb))
                    mac += r.sample(etms, min(1, net))
            else:
                # walk through every database name over the repetitions
                enc = r.sample(chachas, min(nch, len(chachas))) + [pool_cbc[(rep * 7 + i * 3 + hash((client, marker, nch, net)) % 11) % len(pool_cbc)] for i in range(ncb)]
                mac = [pool_etm[(rep * 5 + i * 2 + hash((client, marker, ncb)) % 7) % len(pool_etm)] for i in range(net)]
            enc += r.sample(plain_enc, r.randint(1, 3))
            mac += r.sample(plain_mac, r.randint(1, 3))
            r.shuffle(enc)
            r.shuffle(mac)
            peer = rc.mk_peer(kex, ['ssh-ed25519'], enc, mac)
            imp = rc.impl_report(peer, client=client)
            mk, v_enc, v_mac = rule(peer, client)
            nontriv = bool(nch or ncb or net)
            cov.add(json.dumps([peer['kex'], enc, mac, client]), nontriv, tags=['client' if client else 'server', 'marker-' + marker, 'unknown-shape' if unknown_shape else 'db-names'],
                    sample={'client': client, 'kex': kex, 'enc': enc, 'mac': mac, 'rule_V': v_enc + v_mac} if len(cov.samples) < 4 and nontriv else None)
            inp = {'peer': peer, 'client': client}
            # per-line flag
            for c, lst, V in (('enc', enc, v_enc), ('mac', mac, v_mac)):
                for shown, notes in [(x[0], x[1]) for x in imp['algs'][c]]:
                    has = any(t == TERRAPIN for _, t in notes)
                    known = shown in db[c]
                    want = (not mk) and (shown in V)
                    if has != want:
                        kind = 'terrapin_unknown_name_not_flagged' if (want and not has and not known) else 'terrapin_flag_wrong'
                        fail(kind, dict(inp, category=c, name=shown), {'flagged': has}, {'flagged': want, 'marker': mk, 'V': V})
                # JSON view of the same
                for n_, jn in imp['json'][c]:
                    has = TERRAPIN in (jn.get('warn') or [])
                    want = (not mk) and (n_ in V)
                    if has != want and n_ in db[c]:
                        fail('terrapin_flag_wrong_json', dict(inp, category=c, name=n_), {'flagged': has}, {'flagged': want})
            for c in ('kex', 'key'):
                for shown, notes in [(x[0], x[1]) for x in imp['algs'][c]]:
                    if any(t == TERRAPIN for _, t in notes):
                        fail('terrapin_on_kex_or_key', dict(inp, category=c, name=shown), notes, 'never')
            # advisory note
            adv = [n for n in imp['notes'] if n.startswith('Be aware that, while this target properly supports the strict key exchange')]
            want_names = v_enc + v_mac
            if mk and want_names:
                ok = len(adv) == 1 and ('with this target: %s.  If any CBC' % ', '.join(want_names)) in adv[0]
            else:
                ok = not adv
            if not ok:
                fail('advisory_note_wrong', inp, adv, {'marker': mk, 'names': want_names})
            # disabled ChaCha/CBC/EtM names are never recommended for addition
            for key, names in imp['recs'].items():
                if '/add/' in key:
                    cat = key.split('/')[2]
                    for n_ in names:
                        if (cat == 'enc' and (is_chacha(n_) or is_cbc(n_))) or (cat == 'mac' and is_etm(n_)):
                            fail('disabled_terrapin_alg_recommended', dict(inp, name=n_), key, 'never recommended for addition')
            lines.append(rc.report_line(peer, client, imp['banner']))
            expect.append((imp, inp))
    # client audits whose two directions differ (D28: detection reads the client-to-server lists, the report shows the server-to-client ones): the property
    # does not say which direction counts, so there is no oracle clause here — the model (which mirrors the code) and the code are compared (seed C04-9)
    for k in range(ctx.scale(60, 600)):
        kex = ['curve25519-sha256'] + ([pg.STRICT_C] if k % 3 == 0 else []) + ([pg.STRICT_S] if k % 5 == 0 else [])
        def side():
            e = r.sample(chachas, r.randint(0, min(1, len(chachas)))) + r.sample(cbcs, r.randint(0, 2)) + r.sample(plain_enc, r.randint(1, 2))
            m_ = r.sample(etms, r.randint(0, 2)) + r.sample(plain_mac, r.randint(1, 2))
            r.shuffle(e)
            r.shuffle(m_)
            return e, m_
        (e_s, m_s), (e_c, m_c) = side(), side()
        peer = rc.mk_peer(kex, ['ssh-ed25519'], e_s, m_s, enc_c=e_c, mac_c=m_c)
        client = k % 4 != 3
        imp = rc.impl_report(peer, client=client)
        cov.add(json.dumps([kex, e_s, m_s, e_c, m_c, client]), True, tags=['directions-differ', 'client' if client else 'server'])
        lines.append(rc.report_line(peer, client, imp['banner']))
        expect.append((imp, {'peer': peer, 'client': client}))
    model = ctx.driver(lines) if ctx.driver_ok else []
    for line, m, (imp, inp) in zip(lines, model, expect):
        d = rc.compare(rc.canon_model(m), imp) if 'ok' in m else ['model error']
        if d:
            mismatches.append({'stream': 'report', 'op': line[:300], 'model': d[:2], 'impl': {'client': inp['client'], 'kex': inp['peer']['kex'], 'enc': inp['peer']['encS'], 'mac': inp['peer']['macS']}})
    import fakenet
    fakenet.reset_dbs()
    return {'failures': failures, 'mismatches': mismatches, 'coverage': cov, 'corr_cases': len(model), 'exhaustive': True,
            'assumptions': ['client-to-server and server-to-client lists are equal (D28 records the excluded point for client audits)'],
            'observations': ['D10: des-cbc-ssh1 contains "-cbc" but is not matched by the tool\'s CBC predicate (it is an SSH-1 relic name)',
                             'D28: for client audits detection reads the client-to-server lists, the report shows server-to-client lists']}


def replay(obj):
    f = obj.get('failure', obj)
    inp = f['input']
    peer, client = inp['peer'], inp['client']
    imp = rc.impl_report(peer, client=client)
    mk, v_enc, v_mac = rule(peer, client)
    print('marker for role:', mk, ' V(enc):', v_enc, ' V(mac):', v_mac)
    bad = 0
    db = pg.master()
    for c, V in (('enc', v_enc), ('mac', v_mac)):
        for shown, notes, _ in imp['algs'][c]:
            has = any(t == TERRAPIN for _, t in notes)
            want = (not mk) and (shown in V)
            if has != want:
                print('PROPERTY FAILS: (%s) %s flagged=%s, rule says %s%s' % (c, shown, has, want, '' if shown in db[c] else ' [name unknown to the database]'))
                bad = 1
    if not bad:
        print('flags follow the rule on this peer')
    return bad
