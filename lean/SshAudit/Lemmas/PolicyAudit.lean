/-
  Helper lemmas for `Props/C02PolicyAudit.lean`: the buffer run of `evaluate_policy` in closed form.
-/
import SshAudit.Model.PolicyAudit
import SshAudit.Lemmas.Output
namespace SshAudit.PolicyAudit
open Pol (s Policy Peer PErr)
open Output

theorem passes_info (lv : Nat) : passes lv .info false = decide (lv = 0) := by
  simp only [passes, getLevel, Bool.false_or]
  by_cases h : lv = 0 <;> simp [h] <;> omega
theorem passes_good (lv : Nat) : passes lv .good false = decide (lv = 0) := by
  simp only [passes, getLevel, Bool.false_or]
  by_cases h : lv = 0 <;> simp [h] <;> omega
theorem passes_warn (lv : Nat) : passes lv .warn false = decide (lv ≤ 1) := by
  simp only [passes, getLevel, Bool.false_or]
  by_cases h : lv ≤ 1 <;> simp [h] <;> omega
theorem passes_fail (lv : Nat) : passes lv .fail false = decide (lv ≤ 2) := by
  simp only [passes, getLevel, Bool.false_or]
  by_cases h : lv ≤ 2 <;> simp [h] <;> omega

theorem paint_info (c : Bool) (t : Str) : paint c .info t = t := by simp [paint, colorOn]

/-- the buffer after `evaluate_policy` on an empty buffer: the closed-form entries, nothing pending, the line ended -/
theorem exec_evalOps (cfg : Cfg) (c : Conf) (pi : PolicyInfo) (res : Pol.St) (o : List (List Str)) :
    exec cfg (evalOpsOf cfg c pi res) ⟨[], [], false, true, o, none⟩ = ⟨closedEntriesOf cfg c pi res, [], false, true, o, none⟩ := by
  unfold evalOpsOf closedEntriesOf
  by_cases hj : cfg.json = true
  · simp [hj, exec, stepG, step, doPrint, passes, paint, colorOn]
  · simp only [hj, if_false, Bool.false_eq_true]
    unfold verdictOps noteOps verdictEntries0 noteEntries
    match hl : cfg.level with
    | 0 =>
      cases hr : res.1 <;> cases ho : pi.outdated <;>
        simp [exec, stepG, step, doPrint, passes_info, passes_good, passes_warn, passes_fail, hl, paint_info, appendToLast]
    | 1 =>
      cases hr : res.1 <;> cases ho : pi.outdated <;>
        simp [exec, stepG, step, doPrint, passes_info, passes_good, passes_warn, passes_fail, hl]
    | 2 =>
      cases hr : res.1 <;> cases ho : pi.outdated <;>
        simp [exec, stepG, step, doPrint, passes_info, passes_good, passes_warn, passes_fail, hl]
    | n + 3 =>
      cases hr : res.1 <;> cases ho : pi.outdated <;>
        simp [exec, stepG, step, doPrint, passes_info, passes_good, passes_warn, passes_fail, hl]

/-! ### what `output()` hands to the buffer on the error path: every text starts with `(`, a blank, `#` or a newline -/

/-- the text an operation carries, if any -/
def opText : Op → Option Str
  | .print _ t _ _ => some t
  | .head t _ => some t
  | .close t _ => some t
  | .v t _ => some t
  | .d t _ => some t
  | _ => none

/-- first character is one of those `output()` starts its lines with -/
def reportHead (t : Str) : Prop := t.head? = some '(' ∨ t.head? = some ' ' ∨ t.head? = some '#' ∨ t.head? = some '\n'

theorem noteLine_head (v : Bool) (l : Report.AlgLine) (pad : Str) (first : Bool) (n : Report.Note) (t : Str)
    (h : noteLine v (algLead l) pad first n = some t) : reportHead t := by
  unfold noteLine at h
  split at h
  · injection h with h; subst h; exact Or.inl rfl
  · split at h
    · injection h with h; subst h
      refine Or.inr (Or.inl ?_)
      simp [algLead, spaces, List.replicate_succ]
    · cases h

theorem algItems_head (cfg : Cfg) (inp : Input) (ls : List Report.AlgLine) : ∀ it ∈ algItems cfg inp ls, reportHead it.text := by
  intro it hit
  simp only [algItems, List.mem_flatMap, List.mem_map] at hit
  obtain ⟨l, _, pr, hpr, rfl⟩ := hit
  have hnp : ∀ first n, ∀ pr ∈ notePair cfg inp l first n, reportHead pr.2.text := by
    intro first n pr hpr
    unfold notePair at hpr
    split at hpr
    · next t ht =>
      simp only [List.mem_singleton] at hpr
      subst hpr
      exact noteLine_head _ _ _ _ _ _ ht
    · cases hpr
  unfold algPairs at hpr
  split at hpr
  · cases hpr
  · next n rest _ =>
    rcases List.mem_append.mp hpr with h | h
    · exact hnp _ _ _ h
    · obtain ⟨m, _, hm⟩ := List.mem_flatMap.mp h
      exact hnp _ _ _ hm

theorem generalItems_head (inp : Input) : ∀ it ∈ generalItems inp, reportHead it.text := by
  intro it hit
  unfold generalItems at hit
  simp only [List.mem_append] at hit
  rcases hit with ((((h | h) | h) | h) | h) | h
  · split at h <;> simp at h; subst h; exact Or.inl rfl
  · split at h <;> simp at h; subst h; exact Or.inl rfl
  · split at h <;> simp at h; subst h; exact Or.inl rfl
  · split at h
    · simp only [List.mem_append] at h
      rcases h with (h | h) | h
      · split at h <;> simp at h
        · rcases h with h | h <;> (subst h; exact Or.inl rfl)
        · subst h; exact Or.inl rfl
      · split at h <;> simp at h; subst h; exact Or.inl rfl
      · split at h <;> simp at h; subst h; exact Or.inl rfl
    · cases h
  · split at h <;> simp at h; subst h; exact Or.inl rfl
  · split at h <;> simp at h; subst h; exact Or.inl rfl

theorem sections_head (cfg : Cfg) (inp : Input) : ∀ sc ∈ sections cfg inp, reportHead sc.title ∧ ∀ it ∈ sc.items, reportHead it.text := by
  intro sc hsc
  unfold sections at hsc
  simp only [List.mem_append, List.mem_cons, List.not_mem_nil, or_false] at hsc
  rcases hsc with ((h | h) | h) | (h | h | h)
  · subst h; exact ⟨Or.inr (Or.inr (Or.inl rfl)), generalItems_head inp⟩
  · subst h
    refine ⟨Or.inr (Or.inr (Or.inl rfl)), ?_⟩
    intro it hit
    simp only [securityItems] at hit
    split at hit
    · split at hit
      · simp at hit; subst hit; exact Or.inl rfl
      · cases hit
    · cases hit
  · split at h
    · simp only [List.mem_cons, List.not_mem_nil, or_false] at h
      rcases h with h | h | h | h <;> subst h <;> exact ⟨Or.inr (Or.inr (Or.inl rfl)), algItems_head cfg inp _⟩
    · cases h
  · subst h
    refine ⟨Or.inr (Or.inr (Or.inl rfl)), ?_⟩
    intro it hit
    simp only [List.mem_flatMap] at hit
    obtain ⟨f, _, hf⟩ := hit
    unfold fpItems at hf
    split at hf
    · split at hf
      · simp at hf; rcases hf with h | h <;> (subst h; exact Or.inl rfl)
      · cases hf
    · simp only [List.mem_append, List.mem_singleton] at hf
      rcases hf with h | h
      · subst h; exact Or.inl rfl
      · split at h
        · simp at h; subst h; exact Or.inl rfl
        · cases h
  · subst h
    refine ⟨?_, ?_⟩
    · unfold recTitle; exact Or.inr (Or.inr (Or.inl rfl))
    · intro it hit
      simp only [List.mem_map] at hit
      obtain ⟨r, _, rfl⟩ := hit
      exact Or.inl rfl
  · subst h
    refine ⟨Or.inr (Or.inr (Or.inl rfl)), ?_⟩
    intro it hit
    unfold infoItems at hit
    simp only [List.mem_append, List.mem_map] at hit
    rcases hit with (h | h) | h
    · split at h <;> simp at h; subst h; exact Or.inl rfl
    · split at h <;> simp at h; subst h; exact Or.inl rfl
    · obtain ⟨n, _, rfl⟩ := h; exact Or.inl rfl

/-- every text `output()` passes to the buffer is the JSON document or starts like a report line -/
theorem outputOps_texts (cfg : Cfg) (inp : Input) : ∀ op ∈ outputOps cfg inp, ∀ t, opText op = some t → t = jsonDoc cfg inp ∨ reportHead t := by
  intro op hop t ht
  unfold outputOps at hop
  rcases List.mem_append.mp hop with h | h
  · obtain ⟨sc, hsc, hops⟩ := List.mem_flatMap.mp h
    obtain ⟨htitle, hitems⟩ := sections_head cfg inp sc hsc
    unfold Sec.ops at hops
    simp only [List.mem_append, List.mem_cons, List.mem_map, List.not_mem_nil, or_false] at hops
    rcases hops with (h | ⟨it, hit, h⟩) | h | h
    · subst h; cases ht
    · subst h; simp only [Item.op, opText, Option.some.injEq] at ht; subst ht; exact Or.inr (hitems it hit)
    · subst h; cases ht
    · subst h; simp only [opText, Option.some.injEq] at ht; subst ht; exact Or.inr htitle
  · unfold finalOps at h
    split at h
    · simp only [List.mem_cons, List.not_mem_nil, or_false] at h
      rcases h with h | h
      · subst h; cases ht
      · subst h; simp only [opText, Option.some.injEq] at ht; exact Or.inl ht.symm
    · split at h
      · simp only [List.mem_singleton] at h
        subst h; simp only [opText, Option.some.injEq] at ht; subst ht
        exact Or.inr (Or.inr (Or.inr (Or.inr rfl)))
      · cases h

end SshAudit.PolicyAudit
