/-
  Regenerated logic against the hand-written model.

  `SshAudit.Gen.Logic.<name>` (file `Gen/Logic.lean`; the two CRC functions are in `Gen/LogicCrc.lean` / `Props/GenLogicCrc.lean`) are written by `harness/translate_logic.py` from the
  Python functions themselves on every check whose plugin declares `GEN_LOGIC`; the theorems `<name>_eq_model` below say that each of
  them is the function the property proofs are about.  A change of the Python function changes the left-hand side; the theorem then
  either still holds (a harmless rewrite) or stops checking (the check reports the property as no longer shown to hold and searches a
  failing input).  Python `int` is `Int`; where the model works on `Nat` (sizes, lengths) the theorem is stated for every natural argument.

  Proof style: unfold both sides, normalise the Python primitives on literal arguments (`Lemmas/Py.lean`), then `grind` — no step
  refers to the order of branches, to the names of locals or to the way a comparison is written.
-/
import SshAudit.Gen.Logic
import SshAudit.Lemmas.Py
import SshAudit.Model.HostKey
import SshAudit.Model.Report
import SshAudit.Model.PolicyAudit
import SshAudit.Model.Version
import SshAudit.Model.Wire
import SshAudit.Model.Gex
set_option linter.unusedSimpArgs false
namespace SshAudit.GenLogic
open SshAudit

/-- the Python primitives on literal arguments, and the text helpers on literal patterns -/
theorem endsWith_singleton (d : Str) (c : Char) : Text.endsWith d [c] = (d.getLast? == some c) := by
  unfold Text.endsWith
  rw [List.getLast?_eq_head?_reverse]
  cases d.reverse with
  | nil => simp
  | cons x xs => simp [List.isPrefixOf]; grind

theorem startsWith_cons (d p : Str) (c : Char) :
    Text.startsWith d (c :: p) = (match d with | [] => false | x :: xs => x == c && Text.startsWith xs p) := by
  cases d <;> simp [Text.startsWith, List.isPrefixOf]; grind

theorem startsWith_nil (d : Str) : Text.startsWith d [] = true := by
  simp [Text.startsWith]

/-! ### kexdh.py -/

/-- `KexDH.__adjust_key_size` (C11): the byte-length rule of the host-key / CA size -/
theorem adjust_key_size_eq_model (n : Nat) : Gen.Logic.adjust_key_size (n : Int) = (HostKey.adjustKeySize n : Nat) := by
  simp only [Gen.Logic.adjust_key_size, HostKey.adjustKeySize, Int.shiftRight_eq_div_pow]
  grind

example : Gen.Logic.adjust_key_size 129 = 1024 ∧ Gen.Logic.adjust_key_size 128 = 1024 ∧ Gen.Logic.adjust_key_size 0 = 0 := by decide

/-! ### policy.py -/

/-- `Policy._normalize_error_field` (C06 / C02): never raises, and shows a one-element list as its element, any other list joined with ", " -/
theorem normalize_error_field_eq_model (f : List Str) : Gen.Logic.normalize_error_field f = some (PolicyAudit.normField f) := by
  unfold Gen.Logic.normalize_error_field PolicyAudit.normField
  rcases f with _ | ⟨x, _ | ⟨y, r⟩⟩ <;> simp [Py.getItem_of_nonneg, Pol.s] <;> grind

/-! ### ssh_audit.py: the per-name tests of `post_process_findings` (C04) -/

theorem is_chacha_eq_model (n : Str) : Gen.Logic.is_chacha n = Report.isChacha n := by
  simp [Gen.Logic.is_chacha, Report.isChacha, Report.s] <;> grind

theorem is_cbc_eq_model (n : Str) : Gen.Logic.is_cbc n = Report.isCbc n := by
  simp [Gen.Logic.is_cbc, Report.isCbc, Report.s] <;> grind

theorem is_etm_eq_model (n : Str) : Gen.Logic.is_etm n = Report.isEtm n := by
  simp [Gen.Logic.is_etm, Report.isEtm, Report.s] <;> grind

example : Gen.Logic.is_cbc "aes128-cbc".toList = true ∧ Gen.Logic.is_cbc "aes128-ctr".toList = false
    ∧ Gen.Logic.is_chacha "chacha20-poly1305@openssh.com".toList = true ∧ Gen.Logic.is_etm "hmac-sha2-256".toList = false := by decide

/-! ### software.py, algorithm.py (C14) -/

theorem length_eight {α} (d : List α) (h : d.length = 8) : ∃ a b c e f g i j, d = [a, b, c, e, f, g, i, j] := by
  match d, h with
  | [a, b, c, e, f, g, i, j], _ => exact ⟨a, b, c, e, f, g, i, j, rfl⟩

/-- `Software._fix_date`: `YYYYMMDD` → `YYYY-MM-DD`, anything else (and `None`) → `None`.  (An eight-character text is taken apart into its
    characters, so any way of slicing it that yields the same pieces is accepted.) -/
theorem fix_date_eq_model (d : Option Str) : Gen.Logic.fix_date d = Version.fixDate d := by
  unfold Gen.Logic.fix_date Version.fixDate
  cases d with
  | none => simp
  | some d =>
    by_cases h : d.length = 8
    · obtain ⟨a, b, c, e, f, g, i, j, rfl⟩ := length_eight d h
      simp [Py.sliceTo_of_nonneg, Py.sliceFrom_of_nonneg, Py.slice_of_nonneg, Py.sliceTo_of_neg, Py.sliceFrom_of_neg] <;> grind
    · simp [h] <;> grind

/-- `Algorithm.get_ssh_version`: product, version text and the client flag of a database descriptor -/
theorem get_ssh_version_eq_model (d : Str) : Gen.Logic.get_ssh_version d = Version.getSshVersion d := by
  unfold Gen.Logic.get_ssh_version Version.getSshVersion Version.productOfDesc
  simp only [endsWith_singleton, startsWith_cons, startsWith_nil]
  simp [Py.sliceTo_of_neg, Py.sliceFrom_of_nonneg, List.dropLast_eq_take, Version.pDropbear, Version.pLibSSH, Version.pOpenSSH] <;> grind

example : Gen.Logic.get_ssh_version "d2020.79C".toList = ("Dropbear SSH".toList, "2020.79".toList, true) := by decide

/-! ### gextest.py (C12), writebuf.py (C10) -/

/-- the `if / elif` chain that rates the measured modulus size: branch 0 (failure) below 2048, branch 1 (warning) below 3072, else none -/
theorem gex_size_class_eq_model (n : Nat) : Gen.Logic.gex_size_class (n : Int) = ((2 - Gex.sizeSeverity n : Nat) : Int) := by
  simp only [Gen.Logic.gex_size_class, Gex.sizeSeverity]
  grind

/-- no hand-written function of its own in the model (`Wire.createMpint` has the expression inline): the byte length `_create_mpint` gives an
    integer of `bits` bits is `bits / 8`, plus one unless the integer is zero -/
theorem mpint_length_eq_model (bits : Nat) (n : Int) :
    Gen.Logic.mpint_length (bits : Int) n = ((bits / 8 + (if n = 0 then 0 else 1) : Nat) : Int) := by
  simp only [Gen.Logic.mpint_length]
  grind

/-- … which is the length `Wire.createMpint` cuts its two's-complement rendering to -/
theorem mpint_length_createMpint (n : Int) :
    Gen.Logic.mpint_length (Wire.bitLen n.natAbs : Int) n = ((Wire.bitLen n.natAbs / 8 + (if n = 0 then 0 else 1) : Nat) : Int) :=
  mpint_length_eq_model _ n

end SshAudit.GenLogic
