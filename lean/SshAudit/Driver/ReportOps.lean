import SshAudit.Driver.WireOps
import SshAudit.Model.Report
import SshAudit.Gen.KexDB
import SshAudit.Gen.Tables
namespace SshAudit.Driver
open SshAudit SshAudit.Report

def decHK (tok : String) : Option (List (Str × HostKeyInfo)) :=
  if tok = "_" then some [] else
  (tok.splitOn ";").mapM fun (e : String) =>
    match e.splitOn ":" with
    | [n, sz, ct, cs] => do
      let n ← decStr n; let sz ← decNat sz; let ct ← decStr ct; let cs ← decNat cs
      pure (n, ({ size := sz, caType := ct, caSize := cs } : HostKeyInfo))
    | _ => none

def decSizes (tok : String) : Option (List (Str × Nat)) :=
  if tok = "_" then some [] else
  (tok.splitOn ";").mapM fun (e : String) =>
    match e.splitOn ":" with
    | [n, sz] => do let n ← decStr n; let sz ← decNat sz; pure (n, sz)
    | _ => none

def levelName : Level → String | .fail => "fail" | .warn => "warn" | .info => "info"
def jnote (n : Note) : J := .arr [.str (levelName n.level).toList, .str n.text]
def jline (l : AlgLine) : J := .obj [("name", .str l.name), ("shown", .str l.shown), ("notes", .arr (l.notes.map jnote)), ("unknown", .bool l.unknown)]
def actionName : Action → String | .del => "del" | .add => "add" | .chg => "chg"
def recLevelName (r : Rec) : String := if recLevel r = 2 then "critical" else if recLevel r = 1 then "warning" else "informational"
def jrec (r : Rec) : J := .arr [.str (recLevelName r).toList, .str (actionName r.action).toList, .str r.cat, .str r.name]
def jopts (o : Option (List (Option Str))) : J := J.ofOpt (fun l => .arr (l.map (J.ofOpt .str))) o
def jjn (n : JNotes) : J := .obj [("fail", jopts n.fail), ("warn", jopts n.warn), ("info", jopts n.info)]

def decPeerR : List String → Option Peer
  | [k, key, ec, es, mc, ms, c, hk, dh] => do
    let kex ← decStrs k; let key ← decStrs key; let encC ← decStrs ec; let encS ← decStrs es
    let macC ← decStrs mc; let macS ← decStrs ms; let compS ← decStrs c; let hostKeys ← decHK hk; let dhSizes ← decSizes dh
    pure { kex, key, encC, encS, macC, macS, compS, hostKeys, dhSizes }
  | _ => none

def reportOp (op : String) (args : List String) : Option J :=
  match op with
  | "report" =>
    match args with
    | role :: sw :: cm :: rn :: rest => do
      let client ← decBool role
      let bsw ← decOptStr sw; let bcm ← decOptStr cm; let rate ← decStr rn
      let peer ← decPeerR rest
      let software := Version.parse bsw bcm
      let pp := postProcess Gen.ssh2db peer client bsw rate
      let r := report Gen.rsaFamily Gen.ssh2db peer client bsw software rate
      let jn (cat : Str) (names : List Str) : J := .arr (names.map fun n => .arr [.str n, jjn (jsonNotes pp.db Gen.failUnknown cat n)])
      pure (jok (.obj [
        ("kex", .arr (r.kex.map jline)), ("key", .arr (r.key.map jline)), ("enc", .arr (r.enc.map jline)), ("mac", .arr (r.mac.map jline)),
        ("status", .nat r.status), ("compression", J.ofStrs r.compression), ("recs", .arr (r.recs.map jrec)), ("notes", J.ofStrs r.notes),
        ("unknown", J.ofStrs r.unknown), ("suppress", J.ofStrs pp.suppress), ("marker", .bool pp.marker),
        ("vulnerable", .arr (pp.vulnerable.map fun (c, n) => .arr [.str c, .str n])),
        ("json", .obj [("kex", jn kexC peer.kex), ("key", jn keyC peer.key), ("enc", jn encC peer.encS), ("mac", jn macC peer.macS)])]))
    | _ => none
  | "ssh1.masks" =>
    match args with
    | [c, a] => do
      let c ← decNat c; let a ← decNat a
      pure (jok (.arr [J.ofStrs (maskNames Gen.ssh1Ciphers 0 c), J.ofStrs (maskNames Gen.ssh1Auths 1 a)]))
    | _ => none
  | "lookup.notes" =>
    match args with
    | [cat, n] => do
      let cat ← decStr cat; let n ← decStr n
      pure (jok (match algTexts Gen.ssh2db cat n with
        | some (ts, unk) => .obj [("notes", .arr (ts.map jnote)), ("unknown", .bool unk)]
        | none => .null))
    | _ => none
  | _ => none

end SshAudit.Driver
