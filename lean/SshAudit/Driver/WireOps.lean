import SshAudit.Driver.Json
import SshAudit.Model.Wire
namespace SshAudit.Driver
open SshAudit SshAudit.Wire

def exnName : Exn → String
  | .struct => "struct" | .value => "value" | .unicode => "unicode" | .type => "type" | .key => "key"
  | .index => "index" | .kexdh => "kexdh" | .sysExit c => s!"sysexit({c})"

def jerr (e : Exn) : J := .obj [("err", .str (exnName e).toList)]
def jok (v : J) : J := .obj [("ok", v)]
def jres {α} (f : α → J) : Except Exn α → J | .ok a => jok (f a) | .error e => jerr e
def jbad : J := .obj [("err", .str "bad-op".toList)]

def jread {α} (f : α → J) : Except Exn (α × Bytes) → J := jres (fun (a, r) => .arr [f a, J.ofBytes r])
def jbl (l : List Bytes) : J := .arr (l.map J.ofBytes)

def jkex (k : Kex) : J := .obj [
  ("cookie", J.ofBytes k.cookie), ("kex", jbl k.kex), ("key", jbl k.key), ("encC", jbl k.encC), ("encS", jbl k.encS),
  ("macC", jbl k.macC), ("macS", jbl k.macS), ("compC", jbl k.compC), ("compS", jbl k.compS),
  ("langC", jbl k.langC), ("langS", jbl k.langS), ("follows", .bool k.follows), ("unused", .nat k.unused)]

def jpkm (p : Pkm) : J := .obj [
  ("cookie", J.ofBytes p.cookie), ("skBits", .nat p.skBits), ("skE", .nat p.skE), ("skN", .nat p.skN),
  ("hkBits", .nat p.hkBits), ("hkE", .nat p.hkE), ("hkN", .nat p.hkN), ("pflags", .nat p.pflags),
  ("cmask", .nat p.cmask), ("amask", .nat p.amask)]

def decBytesList (tok : String) : Option (List Bytes) :=
  if tok = "_" then some [] else (tok.splitOn ",").mapM decBytes

def wireOp (op : String) (args : List String) : Option J :=
  match op, args with
  | "byte.enc", [n] => do let n ← decNat n; pure (jres J.ofBytes (writeByte n))
  | "byte.dec", [h] => do let b ← decBytes h; pure (jread J.nat (readByte b))
  | "bool.enc", [v] => do let v ← decBool v; pure (jok (J.ofBytes (writeBool v)))
  | "bool.dec", [h] => do let b ← decBytes h; pure (jread .bool (readBool b))
  | "u32.enc", [n] => do let n ← decNat n; pure (jres J.ofBytes (writeInt n))
  | "u32.dec", [h] => do let b ← decBytes h; pure (jread J.nat (readInt b))
  | "string.enc", [h] => do let b ← decBytes h; pure (jres J.ofBytes (writeString b))
  | "string.dec", [h] => do let b ← decBytes h; pure (jread J.ofBytes (readString b))
  | "list.enc", [l] => do let l ← decBytesList l; pure (jres J.ofBytes (writeList l))
  | "list.dec", [h] => do let b ← decBytes h; pure (jread jbl (readList b))
  | "mpint2.enc", [n] => do let n ← decInt n; pure (jres J.ofBytes (writeMpint2 n))
  | "mpint2.dec", [h] => do let b ← decBytes h; pure (jread (fun (i : Int) => .str (toString i).toList) (readMpint2 b))
  | "mpint1.enc", [n] => do let n ← decInt n; pure (jres J.ofBytes (writeMpint1Z n))
  | "mpint1.dec", [h] => do let b ← decBytes h; pure (jread (fun (i : Nat) => .str (toString i).toList) (readMpint1 b))
  | "frame", [h] => do let b ← decBytes h; pure (jres J.ofBytes (frame b))
  | "readpacket", [h] => do
      let b ← decBytes h
      pure (jres (fun o => match o with
        | none => .null
        | some (t, body, rest) => .arr [.nat t, J.ofBytes body, J.ofBytes rest]) (readPacket b))
  | "readpackets", [h] => do
      let b ← decBytes h
      let r := readPackets (b.length + 1) b
      pure (jok (.obj [("packets", .arr (r.1.map (fun p => .arr [.nat p.1, J.ofBytes p.2]))), ("end", match r.2 with | none => .null | some e => .str (exnName e).toList)]))
  | "readpacket1", [h] => do
      let b ← decBytes h
      pure (jres (fun o => match o with
        | none => .null
        | some (t, body, rest) => .arr [.nat t, J.ofBytes body, J.ofBytes rest]) (readPacket1 b))
  | "frame1", [t, d, pd] => do
      let t ← decNat t; let d ← decBytes d; let pd ← decBytes pd
      pure (jok (J.ofBytes (frame1 (UInt8.ofNat t) d pd)))
  | "rfcdecode", [h] => do let b ← decBytes h; pure (jok (J.ofOpt J.ofBytes (rfcDecode b)))
  | "crc", [h] => do let b ← decBytes h; pure (jok (.arr [.nat (crcCalc b), .nat (crcSpec b)]))
  | "kex.parse", [h] => do let b ← decBytes h; pure (jres jkex (kexParse b))
  | "kex.reencode", [h] => do let b ← decBytes h; pure (jres J.ofBytes ((kexParse b).bind kexWrite))
  | "pkm.parse", [h] => do let b ← decBytes h; pure (jres jpkm (pkmParse b))
  | "pkm.reencode", [h] => do let b ← decBytes h; pure (jres J.ofBytes ((pkmParse b).bind pkmWrite))
  | _, _ => none

end SshAudit.Driver
