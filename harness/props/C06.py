"""C06 — Policy verdicts follow the documented matching rules.

Theorems: SshAudit.Props.C06 (evaluate ↔ Satisfied, passed ↔ no errors, subset / larger-keys
monotonicity, strict marker mandatory) about the Lean transcription of Policy.evaluate.
Tie: correspondence of `policy.evaluate` (verdict and the full error list) with the real
Policy.evaluate on the quantifier's own small universe (exhaustive in the thorough tier) plus
random large instances.
Oracle: an independent transcription of the README rules (`violated`), monotonicity checked on
the real code by shrinking lists / growing keys.
"""
import itertools
import json

from common import Coverage
from props.policy_common import (STRICT_S, STRICT_C, policy_tokens, peer_tokens, impl_evaluate, violated, expected_actual_ok)

ID = 'C06'
MODULE = 'SshAudit.Props.C06'
# the policy-audit extension is shared with C02: its clauses about the error list (entries, expected / actual values, field names) are decided here,
# the ones about the exit status and the verdict shown under C02 (each failure carries 'for')
EXTENSIONS = ['props.ext.C02_policyaudit']
NAMESPACE = 'SshAudit.C06'
THEOREMS = ['evaluate_fst', 'passed_iff_no_errors', 'sizeBad_iff', 'listBad_iff', 'markerBad_iff', 'hkOk_iff', 'dhOk_iff',
            'evaluate_iff_satisfied', 'subset_monotone', 'larger_keys_monotone', 'strict_marker_mandatory', 'errors_wellformed']
# functions of the code whose Lean definitions are regenerated from the source on every run (harness/translate_logic.py); `GenLogic.<name>_eq_model`
# (lean/SshAudit/Props/GenLogic*.lean) ties each to the hand-written model function the theorems above are about
GEN_LOGIC = ['normalize_error_field', 'policy_check_kex', 'policy_check_ciphers', 'policy_check_macs', 'policy_check_hostkeys', 'policy_check_compression']
TECHNIQUE = 'Lean 4 theorems (refinement of the evaluator to a declarative spec, invariant over the error bookkeeping) + exhaustive small-universe correspondence with Policy.evaluate'
LEVEL_TEXT = ('The evaluator is transcribed branch by branch into Lean; evaluate ↔ Satisfied (a declarative conjunction from the README), passed ↔ empty error list, '
              'and both monotonicity claims are proved for arbitrary policies and peers. The transcription is compared with the real Policy.evaluate (verdict and complete '
              'error list) on the property\'s own small universe, exhaustively in the thorough tier, plus random large instances.'
              ' The clauses about the printed error list (one block per error record, sorted, each with its field name and the expected / actual values exactly as the record carries them; text and JSON forms agree) are theorems of the shared policy-audit extension (Props/C02PolicyAudit) and are decided here.')
LEVEL_NOTE = ('Trusted: Lean kernel; correspondence harness; the policy/peer objects are built directly (manual_load) — file parsing is covered by C05. '
              'Errors accumulate across evaluate() calls on one Policy object (D29): safe in the tool because every target gets a deep copy; modelled (evaluate2 op) and compared. '
              'The text rendering of the error block is compared literally for a sample, not proved.')

NAMES = ['a', 'b', 'c', STRICT_S]


def all_lists(maxlen, names=NAMES):
    out = [[]]
    for n in range(1, maxlen + 1):
        out.extend([list(t) for t in itertools.product(names, repeat=n)])
    return out


def base_peer():
    return {'banner_str': 'SSH-2.0-OpenSSH_9.0', 'has_kex': True, 'comp': ['none'], 'key': ['a'], 'kex': ['a'], 'enc': ['a'], 'mac': ['a'],
            'host_keys': {}, 'dh': {}}


def gen_cases(ctx):
    r = ctx.rng
    cases = []
    lists = all_lists(3)
    flags = [(False, False), (True, False), (False, True), (True, True)]
    fields = [('host_keys', 'key'), ('kex', 'kex'), ('ciphers', 'enc'), ('macs', 'mac')]
    pairs = list(itertools.product(lists, lists))
    if ctx.tier != 'thorough':
        pairs = r.sample(pairs, 1800)
    for pk, qk in fields:
        for pl, ql in pairs:
            for sub, larger in (flags if ctx.tier == 'thorough' else [r.choice(flags), (True, False)]):
                p = {pk: pl, 'subset': sub, 'larger': larger}
                q = base_peer()
                q[qk] = ql
                if pk == 'host_keys':
                    for opt in ([None, [], ['b'], ['a', 'c']] if ctx.tier == 'thorough' else [r.choice([None, ['b'], ['a', 'c'], []])]):
                        p2 = dict(p)
                        p2['optional_host_keys'] = opt
                        cases.append((p2, q, ['small-universe', pk]))
                else:
                    # others fixed: one passing, one failing
                    other = r.choice([None, ('ciphers', ['a']), ('ciphers', ['zzz'])]) if pk != 'ciphers' else None
                    p2 = dict(p)
                    if other:
                        p2[other[0]] = other[1]
                    cases.append((p2, q, ['small-universe', pk]))
    # size maps over boundary values x CA types
    sizes = [2047, 2048, 2049, 3071, 3072, 4096, 999, 9999, 10000, 16384]     # incl. values with a different number of decimal digits
    cas = [('', 0), ('ssh-rsa', 2048), ('ssh-rsa', 4096), ('ssh-ed25519', 256), ('', 4096), ('ssh-rsa', 0)]
    combos = list(itertools.product(sizes, sizes, cas, cas, [False, True]))
    if ctx.tier != 'thorough':
        combos = r.sample(combos, 700)
    for es, as_, (ect, ecs), (act, acs), larger in combos:
        p = {'hostkey_sizes': {'ssh-rsa': {'hostkey_size': es, 'ca_key_type': ect, 'ca_key_size': ecs}, 'zz-absent': {'hostkey_size': 1}},
             'dh_modulus_sizes': {'gex': es, 'gex-absent': 5}, 'larger': larger, 'subset': r.random() < 0.3}
        q = base_peer()
        q['host_keys'] = {'ssh-rsa': {'hostkey_size': as_, 'ca_key_type': act, 'ca_key_size': acs}}
        q['dh'] = {'gex': as_}
        cases.append((p, q, ['sizes']))
    # banner / compression / no-kex
    for b in (None, 'SSH-2.0-OpenSSH_9.0', 'SSH-2.0-other'):
        for c in (None, ['none'], ['zlib'], []):
            for hk in (True, False):
                q = base_peer()
                q['has_kex'] = hk
                cases.append(({'banner': b, 'compressions': c, 'kex': ['b']}, q, ['banner-comp']))
    # random large instances
    from ssh_audit.ssh2_kexdb import SSH2_KexDB
    db = SSH2_KexDB.MASTER_DB
    for _ in range(ctx.scale(600, 20000)):
        def pick(cat):
            return r.sample(list(db[cat]), r.randint(0, 12))
        q = base_peer()
        q['kex'], q['key'], q['enc'], q['mac'] = pick('kex'), pick('key'), pick('enc'), pick('mac')
        q['host_keys'] = {k: {'hostkey_size': r.choice(sizes), 'ca_key_type': r.choice(['', 'ssh-rsa', 'ssh-ed25519']), 'ca_key_size': r.choice([0, 256, 2048, 4096])}
                          for k in q['key'] if r.random() < 0.5}
        q['dh'] = {k: r.choice(sizes) for k in q['kex'] if 'group-exchange' in k}
        p = {'subset': r.random() < 0.5, 'larger': r.random() < 0.5}

        def near(l):
            l = list(l)
            k = r.choice(['same', 'same', 'drop', 'add', 'swap', 'none', 'dup'])
            if k == 'drop' and l:
                l.pop(r.randrange(len(l)))
            elif k == 'add':
                l.insert(r.randint(0, len(l)), r.choice(['x-extra', STRICT_S, STRICT_C]))
            elif k == 'swap' and len(l) > 1:
                l[0], l[-1] = l[-1], l[0]
            elif k == 'dup' and l:
                l.append(l[0])
            elif k == 'none':
                return None
            return l
        p['kex'], p['host_keys'], p['ciphers'], p['macs'] = near(q['kex']), near(q['key']), near(q['enc']), near(q['mac'])
        if r.random() < 0.5:
            p['optional_host_keys'] = r.sample(q['key'], min(len(q['key']), r.randint(0, 3)))
        if q['host_keys'] and r.random() < 0.7:
            p['hostkey_sizes'] = {k: {'hostkey_size': v['hostkey_size'] + r.choice([0, 0, 0, -1, 1024]), 'ca_key_type': v['ca_key_type'], 'ca_key_size': v['ca_key_size'] + r.choice([0, 0, 1])}
                                  for k, v in q['host_keys'].items()}
        if q['dh'] and r.random() < 0.7:
            p['dh_modulus_sizes'] = {k: v + r.choice([0, 0, -1, 1]) for k, v in q['dh'].items()}
        cases.append((p, q, ['random-large']))
    return cases


def shrink_peer(r, q):
    q2 = json.loads(json.dumps(q))
    for k in ('key', 'kex', 'enc', 'mac'):
        q2[k] = [x for x in q2[k] if x in (STRICT_S, STRICT_C) or r.random() < 0.6]
    return q2


def grow_peer(r, q):
    q2 = json.loads(json.dumps(q))
    for v in q2['host_keys'].values():
        v['hostkey_size'] += r.choice([0, 1, 1024])
        if v.get('ca_key_size', 0) > 0:
            v['ca_key_size'] += r.choice([0, 1, 2048])
    for k in q2['dh']:
        q2['dh'][k] += r.choice([0, 1, 1024])
    return q2


def run(ctx):
    cov = Coverage('one evaluation = one (policy, peer) pair run through the real Policy.evaluate; non-trivial = distinct pairs in which the policy specifies at least one field; '
                   'small universe: all lists of length <=3 over {a,b,c,kex-strict-s} for policy and peer per list field (quick: a seeded sample; thorough: all), all flag combinations, '
                   'optional-host-key subsets, size maps over {999,2047,2048,2049,3071,3072,4096,9999,10000,16384} x CA types, random large instances over the real database names')
    cases = gen_cases(ctx)
    failures, mismatches = [], []
    lines = ['policy.evaluate %s %s' % (policy_tokens(p), peer_tokens(q)) for p, q, _ in cases]
    model = ctx.driver(lines) if ctx.driver_ok else [None] * len(lines)
    r = ctx.rng

    def fail(kind, p, q, observed, expected):
        failures.append({'sig': {'kind': kind}, 'input': {'policy': p, 'peer': q}, 'observed': observed, 'expected': expected,
                         'how': 'props.policy_common.impl_evaluate(policy, peer) on the real Policy.evaluate'})
    for i, ((p, q, tags), line, m) in enumerate(zip(cases, lines, model)):
        res, err_str = impl_evaluate(p, q)
        nontrivial = any(p.get(k) is not None for k in ('banner', 'compressions', 'host_keys', 'kex', 'ciphers', 'macs', 'hostkey_sizes', 'dh_modulus_sizes'))
        cov.add(line, nontrivial, tags=tags + (['pass'] if res['passed'] else ['fail']),
                sample={'policy': p, 'peer': q, 'impl': res} if i % 4001 == 0 else None)
        if m is not None and m.get('ok') != res:
            mismatches.append({'stream': 'policy.evaluate', 'op': line[:600], 'model': m, 'impl': res})
        # oracle 1: verdict and error fields follow the documented rules
        want = violated(p, q)
        got = [e['mismatched_field'] for e in res['errors']]
        if res['passed'] != (not want):
            fail('verdict_not_per_rules', p, q, {'passed': res['passed'], 'errors': got}, {'violated_rules': want})
        elif got != want:
            fail('errors_not_per_rules', p, q, got, want)
        if res['passed'] != (len(res['errors']) == 0):
            fail('passed_vs_errors', p, q, res, 'passed iff the error list is empty')
        for e in res['errors']:
            if not expected_actual_ok(p, q, e):
                fail('error_values', p, q, e, 'error names the field with the policy\'s expected and the peer\'s actual value')
        # oracle 2: monotonicity on the real code
        if res['passed'] and p.get('subset'):
            q2 = shrink_peer(r, q)
            if not all((m_ not in (p.get('kex') or [])) or (m_ in q2['kex']) for m_ in (STRICT_S, STRICT_C)):
                q2 = None
            if q2 is not None:
                res2, _ = impl_evaluate(p, q2)
                cov.add(('shrink', line), True, tags=['monotone-subset'])
                if not res2['passed']:
                    fail('subset_not_monotone', p, q2, res2, 'shrinking a passing peer under subset mode keeps the pass')
        if res['passed'] and p.get('larger'):
            q2 = grow_peer(r, q)
            res2, _ = impl_evaluate(p, q2)
            cov.add(('grow', line), True, tags=['monotone-larger'])
            if not res2['passed']:
                fail('larger_not_monotone', p, q2, res2, 'growing a passing peer\'s keys under larger-keys mode keeps the pass')
    # D29 (accumulation) is modelled: compare a double evaluation
    extra = r.sample(cases, min(len(cases), 300))
    lines2 = ['policy.evaluate2 %s %s' % (policy_tokens(p), peer_tokens(q)) for p, q, _ in extra]
    model2 = ctx.driver(lines2) if ctx.driver_ok else [None] * len(lines2)
    for (p, q, _), line, m in zip(extra, lines2, model2):
        res, _ = impl_evaluate(p, q, twice=True)
        cov.add(line, True, tags=['evaluate-twice'])
        if m is not None and m.get('ok') != res:
            mismatches.append({'stream': 'policy.evaluate2', 'op': line[:600], 'model': m, 'impl': res})
    return {'failures': failures, 'mismatches': mismatches, 'coverage': cov, 'corr_cases': (len(lines) + len(lines2)) if ctx.driver_ok else 0,
            'exhaustive': ctx.tier == 'thorough',
            'assumptions': ['policy and peer objects are constructed directly (Policy(manual_load=True), SSH2_Kex with set_host_key / set_dh_modulus_size); dict key order of hostkey_sizes does not matter because evaluate sorts the keys'],
            'observations': ['D29: Policy._errors accumulates across evaluate() calls on the same object (modelled as errs0; the tool deep-copies the configuration per target)']}


def replay(obj):
    f = obj.get('failure', obj)
    p, q = f['input']['policy'], f['input']['peer']
    res, err_str = impl_evaluate(p, q)
    print('policy:', json.dumps(p))
    print('peer  :', json.dumps(q))
    print('implementation:', json.dumps(res))
    want = violated(p, q)
    print('documented rules violated:', want)
    bad = res['passed'] != (not want) or [e['mismatched_field'] for e in res['errors']] != want
    print('PROPERTY FAILS' if bad else 'verdict follows the rules on this input')
    return 1 if bad else 0
