"""C14 — Software versions are ordered numerically, component by component.

Theorems: SshAudit.Props.C14 (compare_version = component-wise numeric order then product patch order,
antisymmetry, transitivity, version filter of the recommendations, order-safety of the database strings
under Timeframe's string min/max).
Tie: correspondence of every Version model op with software.py / algorithm.py / timeframe.py /
algorithms.py (compare_version both argument flavours, between_versions, Software.parse/display/
_extract_os_version, get_ssh_version, get_since_text, Timeframe.update, get_ssh_timeframe on the
generated databases, the version filter inside get_recommendations).
Search oracle (independent of the model): tuple-of-int comparison + a patch rank per product on the
real Software class (agreement, antisymmetry, transitivity, between), availability of every database
entry through the real get_recommendations, numeric min/max re-implementation of the compatibility time
frame, and end-to-end `(rec) +` lines of whole audits over scripted peers.
"""
import json
import os
import re
import types

from common import Coverage, tstr, tstrs, toptstr, tbool, VERIF

ID = 'C14'
MODULE = 'SshAudit.Props.C14'
NAMESPACE = 'SshAudit.C14'
THEOREMS = ['numCmp_antisymm', 'numCmp_trans', 'compareVersionNumbers_numeric', 'splitOther_grammar',
            'compare_numeric', 'compare_numeric_nat', 'compare_numeric_software', 'compare_numeric_one_digit', 'compare_numeric_one_component', 'compare_numeric_examples',
            'compare_antisymm', 'compare_trans', 'compare_trans_strict', 'compare_sign',
            'openssh_patch_order', 'openssh_p1_same_as_plain', 'dropbear_test_older_than_release',
            'hpn_triple_not_transitive', 'openssh_p0_not_transitive',
            'between_numeric', 'admits_iff_numeric', 'available_iff_numeric', 'release_patch_ok',
            'slotStep_numeric', 'timeframe_fold_numeric', 'db_versions_order_safe', 'db_timeframe_numeric']
EXTENSIONS = ['props.ext.C14_compat']
# functions of the code whose Lean definitions are regenerated from the source on every run (harness/translate_logic.py); `GenLogic.<name>_eq_model`
# (lean/SshAudit/Props/GenLogic*.lean) ties each to the hand-written model function the theorems above are about
GEN_LOGIC = ['fix_date', 'get_ssh_version']
TECHNIQUE = ('Lean 4 theorems (induction over component lists, generic lexicographic-order lemmas, finite case split over the OpenSSH patch grammar, '
             'kernel-evaluated obligation over the regenerated database) about a hand-written model of software.py/algorithm.py/timeframe.py '
             '+ differential correspondence with the Python code + independent numeric oracle on the real classes and on whole audits')
LEVEL_TEXT = ('compare_version = component-wise numeric comparison (then the product patch order) is proved for every pair of dot-separated decimal '
              'versions of any length and any digit count and every patch suffix of the stated shape; antisymmetry and transitivity are proved over the '
              'product patch grammars (OpenSSH ""|p1..p9, any patch for the other products); the recommendation version filter is proved equivalent to '
              '"numerically at least the first version"; Timeframe\'s string min/max is proved numerically right for the version strings the current '
              'databases contain (kernel-evaluated on the regenerated tables).  The model is run by a compiled driver and compared with the real code.')
LEVEL_NOTE = ('Trusted: Lean kernel, the correspondence harness/generators, CPython re/int/str semantics as modelled (ASCII only: \\d = 0-9, \\s = the ten ASCII '
              'white-space characters). The former finding D13-onechar (a ONE-character version followed by a patch suffix, "9p1", was not split and was compared as a '
              'string) is repaired in /repo (3f4ea53); compare_numeric now covers it (compare_numeric_one_digit, compare_numeric_one_component) and its witnesses run first '
              'as a regression corpus. OpenSSH "p0" and patches with text after pN ("p1-hpn") are outside the grammar: non-transitive there (proved as remarks). Timeframe '
              'still compares strings: safe only while db_versions_order_safe holds (it breaks, naming the pair, when e.g. "10.0" is added to the database).')

OPENSSH, DROPBEAR, LIBSSH = 'OpenSSH', 'Dropbear SSH', 'libssh'
PATCHES = {OPENSSH: [''] + ['p%d' % i for i in range(1, 10)],
           DROPBEAR: [''] + ['test%d' % i for i in range(0, 10)],
           LIBSSH: ['']}
VALS = list(range(0, 13)) + [99, 100, 101] + list(range(2013, 2026))
SPLIT_RX = r'^([\d\.]*\d+)(.*)$'      # copy of the expression in compare_version (regex-model validation only)


# ---------------------------------------------------------------- independent spec (oracle side)

def num(v):
    return tuple(int(x) for x in v.split('.'))


def sign(x):
    return (x > 0) - (x < 0)


def patch_rank(product, patch):
    """Release ordering of the product patch suffixes, written down independently of the code."""
    if product == OPENSSH:
        return (1 if patch == '' else int(patch[1:]), '')       # plain release == p1 < p2 < ...
    if product == DROPBEAR:
        return (1, '') if patch == '' else (0, patch)            # testN pre-releases precede the release
    return (0, patch)


def spec_cmp(product, a, b):
    ka, kb = (num(a[0]), patch_rank(product, a[1])), (num(b[0]), patch_rank(product, b[1]))
    return (ka > kb) - (ka < kb)


def split_desc(d):
    cli = d.endswith('C')
    if cli:
        d = d[:-1]
    if d.startswith('d'):
        return DROPBEAR, d[1:], cli
    if d.startswith('l1'):
        return LIBSSH, d[2:], cli
    return OPENSSH, d, cli


def spec_available(product, sver, spatch, v0, for_server=True):
    for d in v0.split(','):
        p, ver, cli = split_desc(d)
        if not ver or p != product or (cli and for_server):
            continue
        if spec_cmp(product, (sver, spatch), (ver, '')) >= 0:
            return True
    return False


def shape_class(*vs):
    """Names the input shape in the failure signature (no shape is excused: D13-onechar is repaired)."""
    return 'one_digit_version_with_patch' if any(len(v[0]) == 1 and v[1] != '' for v in vs) else 'grammar'


# ---------------------------------------------------------------- implementation adapters

def exn_name(e):
    if isinstance(e, ValueError):
        return 'value'
    if isinstance(e, TypeError):
        return 'type'
    if isinstance(e, KeyError):
        return 'key'
    if isinstance(e, IndexError):
        return 'index'
    if isinstance(e, AttributeError):
        return 'attr'
    return 'other:' + type(e).__name__


def guard(f):
    try:
        return {'ok': f()}
    except Exception as e:  # noqa
        return {'err': exn_name(e)}


def mk_sw(product, version, patch, vendor=None, os_=None):
    from ssh_audit.software import Software
    return Software(vendor, product, version, patch, os_)


def sw_dict(s):
    if s is None:
        return None
    return {'vendor': s.vendor, 'product': s.product, 'version': s.version, 'patch': s.patch, 'os': s.os}


def tf_storage(tf):
    st = tf._Timeframe__storage
    return [[p, list(v)] for p, v in st.items()]


def tf_full(tf):
    return {'storage': tf_storage(tf),
            'queries': [[p in tf, tf.get_from(p, True), tf.get_till(p, True), tf.get_from(p, False), tf.get_till(p, False)]
                        for p in (OPENSSH, DROPBEAR, LIBSSH, 'TinySSH')]}


class _CustomAlgs(object):
    pass


def custom_filter(product, version, patch, for_server, v0s):
    """`matches` of get_recommendations for each versions[0] string, observed through a private database."""
    from ssh_audit.algorithms import Algorithms

    class A(Algorithms):
        def __init__(self, db):
            Algorithms.__init__(self, None, None)
            self._db = db

        @property
        def values(self):
            item = Algorithms.Item(2, self._db)
            item.add('kex', [])
            yield item
    db = {'kex': {'alg%d' % i: [[v0]] for i, v0 in enumerate(v0s)}}
    _, rec = A(db).get_recommendations(mk_sw(product, version, patch), for_server)
    add = rec.get(2, {}).get('kex', {}).get('add', {})
    return [('alg%d' % i) in add for i in range(len(v0s))]


def real_algs(kex=(), key=(), enc=(), mac=()):
    from ssh_audit.algorithms import Algorithms
    from ssh_audit.ssh2_kex import SSH2_Kex
    from ssh_audit.ssh2_kexparty import SSH2_KexParty
    from ssh_audit.outputbuffer import OutputBuffer
    party = SSH2_KexParty(list(enc), list(mac), ['none'], [''])
    return Algorithms(None, SSH2_Kex(OutputBuffer(), b'\x00' * 16, list(kex), list(key), party, party, False, 0))


def ssh1_algs(enc, aut):
    from ssh_audit.algorithms import Algorithms
    pkm = types.SimpleNamespace(supported_ciphers=list(enc), supported_authentications=list(aut))
    return Algorithms(pkm, None)


def fresh_dbs():
    from ssh_audit.ssh2_kexdb import SSH2_KexDB
    from ssh_audit.ssh1_kexdb import SSH1_KexDB
    SSH2_KexDB.DB_PER_THREAD.clear()
    SSH1_KexDB.DB_PER_THREAD.clear()


def _Software():
    """the class (private helpers of it that the unit-level streams call may be renamed or inlined by a refactoring: those streams are
    then dropped — the public behaviour is still compared through compare_version / parse / display)"""
    from ssh_audit.software import Software
    return Software


def impl(op, a):
    from ssh_audit.software import Software
    from ssh_audit.algorithm import Algorithm
    from ssh_audit.timeframe import Timeframe
    from ssh_audit.banner import Banner
    if op == 'ver.cmpnum':
        return guard(lambda: Software._compare_version_numbers(a[0], a[1]))
    if op == 'ver.split':
        def run():
            mx = re.match(SPLIT_RX, a[0])
            return [mx.group(1), mx.group(2).strip()] if mx is not None else [a[0], '']
        return guard(run)
    if op == 'ver.compare':
        return guard(lambda: mk_sw(a[0], a[1], a[2]).compare_version(a[3]))
    if op == 'ver.compare.sw':
        return guard(lambda: mk_sw(a[0], a[1], a[2]).compare_version(mk_sw(a[0], a[3], a[4])))
    if op == 'ver.between':
        return guard(lambda: mk_sw(a[0], a[1], a[2]).between_versions(a[3], a[4]))
    if op == 'ver.parse':
        return guard(lambda: sw_dict(Software.parse(Banner((2, 0), a[0], a[1], True))))
    if op == 'ver.os':
        return guard(lambda: Software._extract_os_version(a[0]))
    if op == 'ver.display':
        return guard(lambda: mk_sw(a[1], a[2], a[3], a[0], a[4]).display(a[5]))
    if op == 'ver.sshver':
        return guard(lambda: list(Algorithm.get_ssh_version(a[0])))
    if op == 'ver.since':
        return guard(lambda: Algorithm.get_since_text(a[0]))
    if op == 'ver.tf':
        def run():
            tf = Timeframe()
            for v in a[1]:
                tf.update(v, a[0])
            return tf_full(tf)
        return guard(run)
    if op == 'ver.dbtf':
        def run():
            fresh_dbs()
            if a[1] == 2:
                algs = real_algs(a[2], a[3], a[4], a[5])
            else:
                algs = ssh1_algs(a[3], a[4])
            return tf_full(algs.get_ssh_timeframe(a[0]))
        return guard(run)
    if op == 'ver.dbversions':
        return guard(lambda: [list(x) for x in db_versions()])
    raise KeyError(op)


def db_versions():
    """(product, version) for every descriptor of every versions list in both live databases (order of appearance)."""
    from ssh_audit.ssh2_kexdb import SSH2_KexDB
    from ssh_audit.ssh1_kexdb import SSH1_KexDB
    out = []
    for db in (SSH2_KexDB.MASTER_DB, SSH1_KexDB.MASTER_DB):
        for cat in db.values():
            for desc in cat.values():
                for v in (desc[0] if desc else []):
                    if v is None:
                        continue
                    for d in v.split(','):
                        p, ver, _ = split_desc(d)
                        if ver:
                            out.append((p, ver))
    return out


def toptstrlist(xs):
    return '_' if len(xs) == 0 else ','.join(toptstr(x) for x in xs)


def toptbool(b):
    return '~' if b is None else tbool(b)


def line_of(op, a):
    if op == 'ver.cmpnum':
        return 'ver.cmpnum %s %s' % (tstr(a[0]), tstr(a[1]))
    if op == 'ver.split':
        return 'ver.split %s' % tstr(a[0])
    if op == 'ver.compare':
        return 'ver.compare %s %s %s %s' % (tstr(a[0]), tstr(a[1]), toptstr(a[2]), toptstr(a[3]))
    if op == 'ver.compare.sw':
        return 'ver.compare.sw %s %s %s %s %s' % (tstr(a[0]), tstr(a[1]), toptstr(a[2]), tstr(a[3]), toptstr(a[4]))
    if op == 'ver.between':
        return 'ver.between %s %s %s %s %s' % (tstr(a[0]), tstr(a[1]), toptstr(a[2]), tstr(a[3]), tstr(a[4]))
    if op == 'ver.parse':
        return 'ver.parse %s %s' % (toptstr(a[0]), toptstr(a[1]))
    if op == 'ver.os':
        return 'ver.os %s' % toptstr(a[0])
    if op == 'ver.display':
        return 'ver.display %s %s %s %s %s %s' % (toptstr(a[0]), tstr(a[1]), tstr(a[2]), toptstr(a[3]), toptstr(a[4]), tbool(a[5]))
    if op == 'ver.sshver':
        return 'ver.sshver %s' % tstr(a[0])
    if op == 'ver.since':
        return 'ver.since %s' % toptstrlist(a[0])
    if op == 'ver.tf':
        return 'ver.tf %s %s' % (toptbool(a[0]), ' '.join(toptstrlist(v) for v in a[1]))
    if op == 'ver.dbtf':
        return 'ver.dbtf %s %d %s %s %s %s' % (toptbool(a[0]), a[1], tstrs(a[2]), tstrs(a[3]), tstrs(a[4]), tstrs(a[5]))
    if op == 'ver.dbversions':
        return 'ver.dbversions'
    raise KeyError(op)


# ---------------------------------------------------------------- generators

def gen_comps(r):
    n = r.choice([1, 2, 2, 2, 3, 3, 4])
    pool = r.choice([VALS, VALS, [0, 1, 2, 9, 10, 11, 99, 100, 101], [9, 10], list(range(0, 13))])
    return [r.choice(pool) for _ in range(n)]


def render(r, comps, zeros=0.03):
    return '.'.join(('%02d' % c if (r.random() < zeros and c < 100) else str(c)) for c in comps)


def gen_version(r, product, comps=None):
    comps = gen_comps(r) if comps is None else comps
    return (render(r, comps), r.choice(PATCHES[product]) if r.random() < 0.6 else '')


def mutate_comps(r, comps):
    comps = list(comps)
    k = r.choice(['same', 'inc', 'dec', 'digits', 'append', 'drop', 'append0'])
    i = r.randrange(len(comps))
    if k == 'inc':
        comps[i] += 1
    elif k == 'dec' and comps[i] > 0:
        comps[i] -= 1
    elif k == 'digits':
        comps[i] = {9: 10, 10: 9, 99: 100, 100: 99, 2: 10, 1: 10, 12: 2}.get(comps[i], r.choice([9, 10, 99, 100]))
    elif k == 'append' and len(comps) < 4:
        comps.append(r.choice(VALS))
    elif k == 'append0' and len(comps) < 4:
        comps.append(0)
    elif k == 'drop' and len(comps) > 1:
        comps.pop()
    return comps


def gen_pair(r, product):
    ca = gen_comps(r)
    a = gen_version(r, product, ca)
    if r.random() < 0.55:
        b = gen_version(r, product, mutate_comps(r, ca))
    else:
        b = gen_version(r, product)
    return a, b


JUNK = ['', '.', '..', '7', '7.', '.7', '7.4', '7..4', '7.4.', '10.0', '9.9', '0.10.6', '0.7.0', 'p1', 'p', 'p10', 'p0', 'p1-hpn', 'test3', 'test', 'testX', 'test10',
        'z', '\n', ' ', '\t', 'x', '-', '_', 'C', 'd', 'l1', 'l', '1', '0', '00', '007', 'a', 'Z', '~', '2022.83', '\x1c', '\x0b', 'é', '€', ',']


def gen_junk(r, n=None):
    n = r.choice([0, 1, 1, 2, 2, 3, 4, 6]) if n is None else n
    return ''.join(r.choice(JUNK) for _ in range(n))


SW_PREFIX = ['dropbear_', 'OpenSSH_', 'OpenSSH-', 'OpenSSH.', 'OpenSSH_.', 'OpenSSH_..', 'OpenSSH-_.', 'OpenSSH', 'libssh-', 'libssh_', 'libssh', 'RomSShell_', 'mpSSH_',
             'Cisco-', 'tinyssh_', 'PuTTY_Release_', 'lancom', 'Lancom', 'openssh_', 'dropbear', '', 'X', 'None', 'OpenSSH_for_Windows_']
SW_PATCH = ['', 'p1', 'p2', 'p1-hpn14v1', '-hpn', 'test3', '_test1', '.p1', '-', '_', '.', '..', '-_.x', ' FreeBSD', 'p1 Debian-5', 'rc1', '-1', '1', 'p', '\n', 'p1\nx', 'noconfig']
COMMENTS = [None, '', 'NetBSD', 'NetBSD_Secure_Shell', 'NetBSD_Secure_Shell-20080403', 'NetBSD_Secure_Shell 20080403-hpn13v1', 'NetBSD-2008040', 'NetBSD 200804031', 'NetBSD\n',
            'NetBSD_Secure_Shell\n', 'NetBSD \n', 'NetBSD-20080403\n', 'NetBSD-20080403\nx', 'NetBSDx', 'xNetBSD', 'FreeBSD-20170902', 'FreeBSD localisations 20100308',
            'FreeBSD\tlocalisations--  20100308 x', 'FreeBSD localisation 20100308', 'FreeBSD', 'FreeBSD 2017090', 'x FreeBSD', 'FreeBSDx', 'foo@FreeBSD.org-20091001',
            'f o\no@FreeBSD.org 20091001\n', '@FreeBSD.org-20091001', 'a@b@FreeBSD.org-20091001', 'in RemotelyAnywhere 5.21.422', 'in DesktopAuthority 7.1.091',
            'in RemoteSupportManager 1.0.0.1', 'in RemotelyAnywhere 5', 'in RemotelyAnywhere 5.', 'in RemotelyAnywhere 5.2\n', 'in RemotelyAnywhere 5.2 x', 'in RemotelyAnywhere .5',
            'Debian-5ubuntu1', 'Ubuntu-4ubuntu0.5', 'in FreeBSD', 'NetBSD_Secure_Shell_20080403', 'NetBSD--  \t20080403']


def mutate_text(r, s):
    if s is None:
        return s
    k = r.choice(['none', 'none', 'ins', 'del', 'dup', 'trunc'])
    if k == 'ins':
        i = r.randrange(len(s) + 1)
        return s[:i] + r.choice(JUNK) + s[i:]
    if k == 'del' and s:
        i = r.randrange(len(s))
        return s[:i] + s[i + 1:]
    if k == 'dup' and s:
        i = r.randrange(len(s))
        return s[:i] + s[i] + s[i:]
    if k == 'trunc' and s:
        return s[:r.randrange(len(s))]
    return s


DESCS = ['7.4', 'd2018.76', 'l10.6.0', '8.0C', 'd0.53C', '', 'C', 'd', 'l1', 'l10.5.3C', 'dC', '10.0', 'l', 'l2.0', '6.5', '2.3.0', 'd0.28', 'l10.2', '9.9', 'd2022.83', 'l10.10.6',
         '1.2.2', '2.1.0', '6.6', '6.9', '7.2', '8.2C', 'l1C', 'dd1', ' ', '7.4 ', 'D1.0', '9.9C', '10.0C', '10.1', 'd2013.56', 'd2020.79', 'l10.9.8']


def gen_desc_list(r):
    return ','.join(r.choice(DESCS) for _ in range(r.choice([1, 1, 2, 2, 3, 4])))


def gen_versions(r, dbv):
    k = r.random()
    if k < 0.35:
        return list(r.choice(dbv))
    n = r.choice([0, 1, 1, 2, 3, 3, 4])
    return [r.choice([None, gen_desc_list(r), gen_desc_list(r), '']) for _ in range(n)]


def all_db_version_lists():
    from ssh_audit.ssh2_kexdb import SSH2_KexDB
    from ssh_audit.ssh1_kexdb import SSH1_KexDB
    out = []
    for db in (SSH2_KexDB.MASTER_DB, SSH1_KexDB.MASTER_DB):
        for cat in db.values():
            for desc in cat.values():
                out.append(list(desc[0]))
    return out


def build_corr_cases(ctx, pairs):
    """Correspondence cases beyond the grammar pairs (those are added by run())."""
    r = ctx.rng
    from ssh_audit.ssh2_kexdb import SSH2_KexDB
    from ssh_audit.ssh1_kexdb import SSH1_KexDB
    cases = []
    prods = [OPENSSH, DROPBEAR, LIBSSH, 'TinySSH', 'PuTTY', '', 'X']
    # malformed / boundary stream for the comparison functions
    for _ in range(ctx.scale(4000, 60000)):
        a, b = gen_junk(r), gen_junk(r)
        if r.random() < 0.5:
            a = mutate_text(r, render(r, gen_comps(r), 0.1))
        if r.random() < 0.5:
            b = mutate_text(r, render(r, gen_comps(r), 0.1))
        if hasattr(_Software(), '_compare_version_numbers'):
            cases.append(('ver.cmpnum', [a, b], ['cmpnum-malformed']))
        cases.append(('ver.split', [b + r.choice(SW_PATCH + ['  p1  ', ' \x1c', '\x1fp2\x0b'])], ['split']))
        p = r.choice(prods)
        sp = r.choice([None, '', gen_junk(r, 1), r.choice(SW_PATCH), r.choice(PATCHES[OPENSSH] + PATCHES[DROPBEAR])])
        op = r.choice(['', gen_junk(r, 1), r.choice(SW_PATCH), r.choice(PATCHES[OPENSSH] + PATCHES[DROPBEAR]), ' p1 ', '\tp2\n'])
        cases.append(('ver.compare', [p, a, sp, b + op], ['compare-malformed']))
        cases.append(('ver.compare.sw', [p, a, sp, b, r.choice([None, op])], ['compare-malformed']))
        if r.random() < 0.3:
            cases.append(('ver.between', [p, a, sp, r.choice(['', b, b + op]), r.choice(['', gen_junk(r), a])], ['between-malformed']))
    for p in prods:
        cases.append(('ver.compare', [p, '7.4', None, None], ['compare-none']))
    # Software.parse / _extract_os_version / display
    for _ in range(ctx.scale(5000, 60000)):
        ver = render(r, gen_comps(r), 0.05) if r.random() < 0.8 else gen_junk(r)
        sw = r.choice(SW_PREFIX) + ver + r.choice(SW_PATCH)
        if r.random() < 0.25:
            sw = mutate_text(r, sw)
        c = r.choice(COMMENTS)
        if r.random() < 0.3:
            c = mutate_text(r, c)
        cases.append(('ver.parse', [sw, c], ['parse']))
        if hasattr(_Software(), '_extract_os_version'):
            cases.append(('ver.os', [c], ['os']))
    for sw in [None, '', 'OpenSSH_9.9', 'OpenSSH_10.0', 'OpenSSH_9p1', 'OpenSSH_9', 'OpenSSH_10', 'OpenSSH_10p1', 'dropbear_2022.83', 'dropbear_0.44test3', 'libssh-0.10.6',
               'libssh_0.11.1', 'OpenSSH_7.4p1-hpn14v1', 'OpenSSH_for_Windows_8.1', 'tinyssh_noversion', 'PuTTY_Release_0.80', 'lancom1.2', 'Cisco-1.25', 'mpSSH_0.2.1',
               'RomSShell_5.40', 'OpenSSH_..5', 'OpenSSH_.7.4', 'OpenSSH-_-7.4..p1', 'dropbear_.5', 'dropbear_7', 'dropbear_77', 'tinyssh_a\nb', 'PuTTY_Release_\n']:
        for c in [None, 'FreeBSD-20170902', 'NetBSD_Secure_Shell-20080403']:
            cases.append(('ver.parse', [sw, c], ['parse-boundary']))
    for c in COMMENTS:
        if hasattr(_Software(), '_extract_os_version'):
            cases.append(('ver.os', [c], ['os-boundary']))
    for _ in range(ctx.scale(1500, 20000)):
        p = r.choice(prods + ['RomSShell'])
        cases.append(('ver.display', [r.choice([None, '', 'HP', 'Allegro Software']), p, r.choice(['', '7.4', render(r, gen_comps(r))]),
                                      r.choice([None, '', 'p1', 'p2-hpn', 'p1 x', 'p', 'test3', 'p1\n', 'p1\nx', 'p1 \t']), r.choice([None, '', 'NetBSD', 'FreeBSD (2017-09-02)']),
                                      r.random() < 0.7], ['display']))
    # get_ssh_version / get_since_text / Timeframe
    dbv = all_db_version_lists()
    for d in DESCS + [gen_junk(r) for _ in range(ctx.scale(500, 5000))]:
        cases.append(('ver.sshver', [d], ['sshver']))
    for v in dbv:
        cases.append(('ver.since', [v], ['since-db']))
        for fs in (None, True, False):
            cases.append(('ver.tf', [fs, [v]], ['tf-db-single']))
    for _ in range(ctx.scale(1500, 20000)):
        cases.append(('ver.since', [gen_versions(r, dbv)], ['since']))
        cases.append(('ver.tf', [r.choice([None, True, False]), [gen_versions(r, dbv) for _ in range(r.choice([1, 2, 3, 5, 8]))]], ['tf']))
    # get_ssh_timeframe over the generated databases
    db2, db1 = SSH2_KexDB.MASTER_DB, SSH1_KexDB.MASTER_DB
    for fs in (None, True, False):
        cases.append(('ver.dbtf', [fs, 2] + [list(db2[c]) for c in ('kex', 'key', 'enc', 'mac')], ['dbtf-all']))
        cases.append(('ver.dbtf', [fs, 1, ['ssh-rsa1'], list(db1['enc']), list(db1['aut']), []], ['dbtf-all']))
        cases.append(('ver.dbtf', [fs, 2, [], [], [], []], ['dbtf-empty']))
    for _ in range(ctx.scale(400, 6000)):
        lists = []
        for c in ('kex', 'key', 'enc', 'mac'):
            names = list(db2[c])
            k = r.choice([0, 1, 1, 2, 3, 5, 8])
            l = [r.choice(names) for _ in range(k)]
            if r.random() < 0.2:
                l.insert(r.randrange(len(l) + 1), 'unknown-alg@example.com')
            lists.append(l)
        cases.append(('ver.dbtf', [r.choice([None, True, False]), 2] + lists, ['dbtf']))
    for _ in range(ctx.scale(60, 600)):
        enc = [r.choice(list(db1['enc'])) for _ in range(r.choice([0, 1, 2, 4]))]
        aut = [r.choice(list(db1['aut'])) for _ in range(r.choice([0, 1, 2]))]
        cases.append(('ver.dbtf', [r.choice([None, True, False]), 1, ['ssh-rsa1'], enc, aut, []], ['dbtf-ssh1']))
    cases.append(('ver.dbversions', [], ['dbversions']))
    return cases


# ---------------------------------------------------------------- oracle checks (each is replayable from its input dict)

def cmp_impl(product, a, b, as_software):
    s = mk_sw(product, a[0], a[1] or None)
    if as_software:
        return s.compare_version(mk_sw(product, b[0], b[1] or None))
    return s.compare_version(b[0] + b[1])


def check(inp):
    """Evaluates one oracle input on the real implementation; returns a list of (sig, observed, expected)."""
    k = inp['check']
    out = []
    if k == 'compare':
        p, a, b = inp['product'], tuple(inp['a']), tuple(inp['b'])
        cls = shape_class(a, b)
        want = spec_cmp(p, a, b)
        for flavour in (False, True):
            got = cmp_impl(p, a, b, flavour)
            back = cmp_impl(p, b, a, flavour)
            if sign(got) != want:
                out.append(({'kind': 'compare_not_numeric', 'class': cls}, {'compare_version': got, 'argument': 'Software' if flavour else 'str'}, want))
            if got != -back:
                out.append(({'kind': 'compare_not_antisymmetric', 'class': cls}, {'a_vs_b': got, 'b_vs_a': back, 'argument': 'Software' if flavour else 'str'}, 'a_vs_b == -b_vs_a'))
    elif k == 'compare_after':
        # the judgement for (product, a, b) must not depend on what was compared before: the same strings are first compared as releases of the other products
        p, a, b = inp['product'], tuple(inp['a']), tuple(inp['b'])
        for q in inp['before']:
            for x, y in ((a, b), (b, a)):
                try:
                    cmp_impl(q, x, y, False)
                    cmp_impl(q, x, y, True)
                except Exception:
                    pass
        want = spec_cmp(p, a, b)
        for flavour in (False, True):
            got = cmp_impl(p, a, b, flavour)
            back = cmp_impl(p, b, a, flavour)
            if sign(got) != want:
                out.append(({'kind': 'compare_depends_on_history', 'class': 'grammar'}, {'compare_version': got, 'argument': 'Software' if flavour else 'str', 'compared_before_as': inp['before']}, want))
            elif got != -back:
                out.append(({'kind': 'compare_depends_on_history', 'class': 'grammar'}, {'a_vs_b': got, 'b_vs_a': back, 'compared_before_as': inp['before']}, 'a_vs_b == -b_vs_a'))
    elif k == 'trans':
        p, a, b, c = inp['product'], tuple(inp['a']), tuple(inp['b']), tuple(inp['c'])
        cls = shape_class(a, b, c)
        ab, bc, ac = cmp_impl(p, a, b, False), cmp_impl(p, b, c, False), cmp_impl(p, a, c, False)
        bad = (ab <= 0 and bc <= 0 and not ac <= 0) or (ab >= 0 and bc >= 0 and not ac >= 0) or \
              (ab < 0 and bc <= 0 and not ac < 0) or (ab <= 0 and bc < 0 and not ac < 0) or (ab == 0 and bc == 0 and ac != 0)
        if bad:
            out.append(({'kind': 'compare_not_transitive', 'class': cls}, {'a_vs_b': ab, 'b_vs_c': bc, 'a_vs_c': ac}, 'transitive'))
    elif k == 'between':
        p, a, lo, hi = inp['product'], tuple(inp['a']), inp['from'], inp['till']
        got = mk_sw(p, a[0], a[1] or None).between_versions(lo, hi)
        want = (lo == '' or spec_cmp(p, a, (lo, '')) >= 0) and (hi == '' or spec_cmp(p, a, (hi, '')) <= 0)
        if got != want:
            out.append(({'kind': 'between_not_numeric', 'class': 'grammar'}, got, want))
    elif k == 'available':
        from ssh_audit.ssh2_kexdb import SSH2_KexDB
        p, ver, patch, fs = inp['product'], inp['version'], inp['patch'], inp['for_server']
        fresh_dbs()
        _, rec = real_algs().get_recommendations(mk_sw(p, ver, patch or None), fs)
        for cat, entries in SSH2_KexDB.MASTER_DB.items():
            add = rec.get(2, {}).get(cat, {}).get('add', {})
            for n, desc in entries.items():
                v0 = desc[0][0] if desc[0] else None
                faults = sum(len(desc[i]) for i in (1, 2) if len(desc) > i)
                eligible = v0 is not None and faults == 0 and not (cat == 'key' and ('-cert-' in n or n.startswith('sk-'))) \
                    and not (cat == 'kex' and (n.startswith('ext-info-') or n.startswith('kex-strict-')))
                if not eligible:
                    continue
                want = spec_available(p, ver, patch, v0, fs)
                if (n in add) != want:
                    out.append(({'kind': 'availability_not_numeric', 'class': 'database'}, {'algorithm': n, 'versions': v0, 'recommended_add': n in add}, want))
    elif k == 'timeframe':
        fresh_dbs()
        lists, fs = inp['lists'], inp['for_server']
        got = dict((p, v) for p, v in tf_storage(real_algs(*lists).get_ssh_timeframe(fs)))
        want = spec_timeframe(lists, fs)
        if got != want:
            out.append(({'kind': 'timeframe_not_numeric', 'class': 'database'}, got, want))
    elif k == 'dbpair':
        p, a, b = inp['product'], inp['a'], inp['b']
        if (a < b) != (num(a) < num(b)) and num(a) != num(b):
            out.append(({'kind': 'db_versions_not_order_safe', 'class': 'database'}, {'string_less': a < b}, {'numeric_less': num(a) < num(b)}))
    elif k == 'e2e':
        got, want, code = e2e(inp['banner'])
        if got != want:
            out.append(({'kind': 'recommendation_lines_not_numeric', 'class': 'audit'}, {'missing': sorted(want - got), 'unexpected': sorted(got - want), 'exit': code}, 'the (rec) + lines of the numeric spec'))
    else:
        raise KeyError(k)
    return out


def spec_timeframe(lists, fs):
    """Timeframe as the code defines it (which descriptor of a list counts for which slot) but with numeric
    max for the 'from' slots and numeric min for the 'till' slots."""
    from ssh_audit.ssh2_kexdb import SSH2_KexDB
    store = {}

    def upd(versions, pos):
        chosen = {}
        for d in (versions or '').split(','):
            p, ver, cli = split_desc(d)
            if not ver or (cli and pos < 2) or (not cli and pos > 1 and p in chosen):
                continue
            chosen[p] = ver
        for p, ver in chosen.items():
            slots = store.setdefault(p, [None] * 4)
            prev = slots[pos]
            if prev is None or (pos % 2 == 0 and num(prev) < num(ver)) or (pos % 2 == 1 and num(prev) > num(ver)):
                slots[pos] = ver
    for cat, names in zip(('kex', 'key', 'enc', 'mac'), lists):
        for n in names:
            desc = SSH2_KexDB.MASTER_DB[cat].get(n)
            if desc is None:
                continue
            vs = desc[0]
            for i in range(min(3, len(vs))):
                if fs in (None, True) and i < 2:
                    upd(vs[i], i)
                if fs in (None, False) and (i % 2 == 0 or len(vs) == 2):
                    upd(vs[i], 2 if i == 0 else 3)
    return store


E2E_LISTS = dict(kex=('curve25519-sha256',), key=('ssh-ed25519',), enc=('aes256-ctr',), mac=('hmac-sha2-256',))


def e2e(banner):
    """Whole audit of a scripted peer; returns (names on `(rec) +` lines, names expected by the numeric spec, exit code)."""
    import fakenet
    from ssh_audit.ssh2_kexdb import SSH2_KexDB
    srv = fakenet.simple_server(banner=banner.encode(), **E2E_LISTS)
    net = fakenet.FakeNet({('10.0.0.1', 22): srv})
    code, text = fakenet.run_main(['-n', '--skip-rate-test', '10.0.0.1'], net)
    got = set()
    for m in re.finditer(r'^\(rec\) \+(.+?)\s*-- (kex|key|enc|mac) algorithm to append', text, re.M):
        got.add((m.group(2), m.group(1)))
    m = re.match(r'^SSH-2\.0-(OpenSSH_|libssh-|libssh_|dropbear_)(\d+(?:\.\d+)*)(p\d|test\d)?$', banner)
    product = {'OpenSSH_': OPENSSH, 'libssh-': LIBSSH, 'libssh_': LIBSSH, 'dropbear_': DROPBEAR}[m.group(1)]
    ver, patch = m.group(2), m.group(3) or ''
    want = set()
    for cat, entries in SSH2_KexDB.MASTER_DB.items():
        for n, desc in entries.items():
            v0 = desc[0][0] if desc[0] else None
            faults = sum(len(desc[i]) for i in (1, 2) if len(desc) > i)
            if v0 is None or faults or n in E2E_LISTS[cat]:
                continue
            if (cat == 'key' and ('-cert-' in n or n.startswith('sk-'))) or (cat == 'kex' and (n.startswith('ext-info-') or n.startswith('kex-strict-'))):
                continue
            # post_process_findings (Terrapin) never recommends enabling chacha20-poly1305, CBC ciphers or ETM MACs the peer has switched off
            if n.startswith('chacha20-poly1305') or n.endswith('-etm@openssh.com') or n.endswith('-cbc') or n.endswith('-cbc@openssh.org') \
               or n.endswith('-cbc@ssh.com') or n == 'rijndael-cbc@lysator.liu.se':
                continue
            if spec_available(product, ver, patch, v0, True):
                want.add((cat, n))
    fresh_dbs()
    return got, want, code


# ---------------------------------------------------------------- run

CORPUS = [
    # D13-onechar witnesses (repaired in /repo, 3f4ea53): a one-character version followed by a patch suffix
    {'check': 'compare', 'product': OPENSSH, 'a': ['10', ''], 'b': ['9', 'p1']},
    {'check': 'compare', 'product': OPENSSH, 'a': ['3', ''], 'b': ['3', 'p1']},
    {'check': 'compare', 'product': OPENSSH, 'a': ['9', 'p1'], 'b': ['10', 'p1']},
    {'check': 'compare', 'product': OPENSSH, 'a': ['3', 'p2'], 'b': ['3', 'p1']},
    {'check': 'compare', 'product': DROPBEAR, 'a': ['9', ''], 'b': ['9', 'test3']},
    {'check': 'compare', 'product': DROPBEAR, 'a': ['10', 'test1'], 'b': ['9', 'test3']},
    {'check': 'trans', 'product': OPENSSH, 'a': ['10', ''], 'b': ['9', 'p7'], 'c': ['10', '']},
    {'check': 'trans', 'product': OPENSSH, 'a': ['3', ''], 'b': ['3', 'p1'], 'c': ['3', 'p2']},
    # D13 witnesses (repaired in /repo): multi-digit components
    {'check': 'compare', 'product': OPENSSH, 'a': ['10.0', ''], 'b': ['9.9', '']},
    {'check': 'compare', 'product': OPENSSH, 'a': ['10.0', 'p1'], 'b': ['9.9', 'p2']},
    {'check': 'compare', 'product': LIBSSH, 'a': ['0.10.6', ''], 'b': ['0.7.0', '']},
    {'check': 'compare', 'product': LIBSSH, 'a': ['0.11.1', ''], 'b': ['0.9.8', '']},
    {'check': 'compare', 'product': DROPBEAR, 'a': ['2022.83', ''], 'b': ['0.53.1', '']},
    {'check': 'compare', 'product': DROPBEAR, 'a': ['2011.54', 'test3'], 'b': ['2011.54', '']},
    {'check': 'compare', 'product': OPENSSH, 'a': ['7.4', ''], 'b': ['7.4', 'p1']},
    {'check': 'compare', 'product': OPENSSH, 'a': ['7.4', 'p2'], 'b': ['7.4', 'p1']},
    {'check': 'compare', 'product': OPENSSH, 'a': ['7.10', ''], 'b': ['7.9', '']},
    {'check': 'compare', 'product': OPENSSH, 'a': ['7.4.1', ''], 'b': ['7.4', '']},
    {'check': 'compare', 'product': OPENSSH, 'a': ['100', ''], 'b': ['99', 'p1']},
    {'check': 'trans', 'product': OPENSSH, 'a': ['9.9', ''], 'b': ['10.0', ''], 'c': ['10.1', 'p1']},
    {'check': 'between', 'product': OPENSSH, 'a': ['10.0', 'p1'], 'from': '9.9', 'till': '10.1'},
    {'check': 'between', 'product': LIBSSH, 'a': ['0.10.6', ''], 'from': '0.9.8', 'till': '0.11.1'},
]
E2E_BANNERS = ['SSH-2.0-OpenSSH_9.9', 'SSH-2.0-OpenSSH_10.0', 'SSH-2.0-OpenSSH_10.1', 'SSH-2.0-OpenSSH_6.4', 'SSH-2.0-OpenSSH_10.0p2',
               'SSH-2.0-libssh-0.9.8', 'SSH-2.0-libssh-0.10.6', 'SSH-2.0-libssh_0.11.1', 'SSH-2.0-libssh-0.5.2',
               'SSH-2.0-dropbear_2022.83', 'SSH-2.0-dropbear_0.52', 'SSH-2.0-dropbear_2013.62']


def corpus_inputs():
    out = list(CORPUS)
    d = os.path.join(VERIF, 'corpus')
    if os.path.isdir(d):
        for p in sorted(os.listdir(d)):
            if p.startswith('C14') and p.endswith('.json'):
                out.extend(json.load(open(os.path.join(d, p))))
    return out


def run(ctx):
    r = ctx.rng
    cov = Coverage('one evaluation per oracle input: an ordered pair (compare: agreement with the numeric spec for both argument flavours + antisymmetry), a triple '
                   '(transitivity), a between query, one (server version, whole database) availability sweep, one time frame, one database version pair, one whole audit; '
                   'non-trivial = the versions of the input are not all identical strings. Versions: 1-4 components from {0..12, 99..101, 2013..2025} '
                   '(occasionally zero-padded), product patch suffixes OpenSSH ""|p1..p9, Dropbear ""|test0..test9, libssh ""; 55% of the pairs are one-component edits of each other')
    failures, mismatches = [], []
    inputs = []

    def add(inp, nontrivial, tags):
        inputs.append((inp, nontrivial, tags))
    for inp in corpus_inputs():
        add(inp, True, ['corpus'])
    products = [OPENSSH, DROPBEAR, LIBSSH]
    # exhaustive small block: all pairs of 1-2 component versions over {0,1,9,10,11,99,100} with every patch (OpenSSH), without patch for the others
    small = [0, 1, 9, 10, 11, 99, 100]
    vs = [str(a) for a in small] + ['%d.%d' % (a, b) for a in small for b in small]
    if ctx.tier == 'thorough':
        for p in products:
            for a in vs:
                for b in vs:
                    add({'check': 'compare', 'product': p, 'a': [a, ''], 'b': [b, r.choice(PATCHES[p])]}, a != b, ['pairs-exhaustive-block'])
    else:
        for _ in range(3000):
            p = r.choice(products)
            a, b = r.choice(vs), r.choice(vs)
            add({'check': 'compare', 'product': p, 'a': [a, r.choice(PATCHES[p])], 'b': [b, r.choice(PATCHES[p])]}, a != b, ['pairs-small-block'])
    for _ in range(ctx.scale(1500, 20000)):
        p = r.choice(products)
        a, b = r.choice(vs), r.choice(vs)
        if r.random() < 0.6:
            b = a
        others = [q for q in products if q != p]
        r.shuffle(others)
        add({'check': 'compare_after', 'product': p, 'a': [a, r.choice(PATCHES[p])], 'b': [b, r.choice(PATCHES[p])], 'before': others}, True, ['history'])
    pairs = []
    for _ in range(ctx.scale(40000, 1000000)):
        p = r.choice(products)
        a, b = gen_pair(r, p)
        pairs.append((p, a, b))
        add({'check': 'compare', 'product': p, 'a': list(a), 'b': list(b)}, a != b, ['pairs', p, '%d-vs-%d-components' % (a[0].count('.') + 1, b[0].count('.') + 1)])
    for _ in range(ctx.scale(15000, 300000)):
        p = r.choice(products)
        a, b = gen_pair(r, p)
        ca = [int(x) for x in a[0].split('.')]
        c = gen_version(r, p, mutate_comps(r, r.choice([ca, [int(x) for x in b[0].split('.')]]))) if r.random() < 0.7 else gen_version(r, p)
        add({'check': 'trans', 'product': p, 'a': list(a), 'b': list(b), 'c': list(c)}, not (a == b == c), ['triples', p])
    for _ in range(ctx.scale(4000, 60000)):
        p = r.choice(products)
        a, b = gen_pair(r, p)
        c = gen_version(r, p, mutate_comps(r, [int(x) for x in a[0].split('.')]))
        add({'check': 'between', 'product': p, 'a': list(a), 'from': r.choice(['', b[0], b[0]]), 'till': r.choice(['', c[0], c[0]])}, True, ['between', p])
    # availability sweeps over the whole live database
    servers = [(OPENSSH, v, pa) for v in ('1.2.2', '2.3.0', '3.9', '5.9', '6.4', '6.5', '7.3', '7.4', '8.0', '8.5', '9.0', '9.8', '9.9', '10.0', '10.1', '10', '11.0', '99.0', '100.1') for pa in ('', 'p1', 'p2')]
    servers += [(LIBSSH, v, '') for v in ('0.2', '0.5.2', '0.6.0', '0.7.0', '0.8.0', '0.9.8', '0.10.6', '0.11.1', '0.100.0', '1.0.0', '10.0')]
    servers += [(DROPBEAR, v, pa) for v in ('0.28', '0.52', '0.53', '0.53.1', '2011.54', '2013.56', '2013.62', '2016.73', '2018.76', '2020.79', '2022.83', '2025.88', '10000.1') for pa in ('', 'test3')]
    for _ in range(ctx.scale(40, 600)):
        p = r.choice(products)
        v, pa = gen_version(r, p)
        servers.append((p, v, pa))
    # systematically: every first-appeared version of the database, its neighbours in the last component, the same with a component dropped or a .0 appended
    seen_srv = set(servers)
    for p, v in db_versions():
        if p not in PATCHES:
            continue
        comps = [int(x) for x in v.split('.')]
        cands = [comps, comps[:-1] + [comps[-1] + 1], comps + [0], comps + [1]]
        if comps[-1] > 0:
            cands.append(comps[:-1] + [comps[-1] - 1])
        if len(comps) > 1:
            cands += [comps[:-1], comps[:-1] + [0] if comps[-1] else comps[:-1]]
        for c in cands:
            if not c:
                continue
            sv = '.'.join(str(x) for x in c)
            for pa in ([''] if p == LIBSSH else ['', r.choice(PATCHES[p][1:])]):
                if (p, sv, pa) not in seen_srv:
                    seen_srv.add((p, sv, pa))
                    servers.append((p, sv, pa))
    for p, v, pa in servers:
        for fs in (True, False):
            add({'check': 'available', 'product': p, 'version': v, 'patch': pa, 'for_server': fs}, True, ['availability-sweep', p])
    # time frames
    from ssh_audit.ssh2_kexdb import SSH2_KexDB
    db2 = SSH2_KexDB.MASTER_DB
    for fs in (None, True, False):
        add({'check': 'timeframe', 'lists': [list(db2[c]) for c in ('kex', 'key', 'enc', 'mac')], 'for_server': fs}, True, ['timeframe-all'])
    for _ in range(ctx.scale(300, 5000)):
        lists = [[r.choice(list(db2[c])) for _ in range(r.choice([0, 1, 2, 3, 6]))] for c in ('kex', 'key', 'enc', 'mac')]
        add({'check': 'timeframe', 'lists': lists, 'for_server': r.choice([None, True, False])}, True, ['timeframe'])
    # every same-product pair of database version strings
    byprod = {}
    for p, v in db_versions():
        byprod.setdefault(p, [])
        if v not in byprod[p]:
            byprod[p].append(v)
    for p, lst in byprod.items():
        for a in lst:
            for b in lst:
                add({'check': 'dbpair', 'product': p, 'a': a, 'b': b}, a != b, ['db-version-pairs'])
    for b in E2E_BANNERS:
        add({'check': 'e2e', 'banner': b}, True, ['audit-e2e'])

    # ---- correspondence: the grammar pairs (both flavours) + everything else
    cases = []
    for p, a, b in pairs:
        cases.append(('ver.compare', [p, a[0], a[1] or None, b[0] + b[1]], ['corr-compare']))
        cases.append(('ver.compare.sw', [p, a[0], a[1] or None, b[0], b[1] or None], ['corr-compare']))
    for inp, _, _ in inputs:
        if inp['check'] == 'between':
            cases.append(('ver.between', [inp['product'], inp['a'][0], inp['a'][1] or None, inp['from'], inp['till']], ['corr-between']))
    cases += build_corr_cases(ctx, pairs)
    lines = [line_of(op, a) for op, a, _ in cases]
    model = ctx.driver(lines) if ctx.driver_ok else [None] * len(lines)
    corr_hist = {}
    for (op, a, tags), line, m in zip(cases, lines, model):
        res = impl(op, a)
        corr_hist[op] = corr_hist.get(op, 0) + 1
        if m is not None and m != res:
            if len(mismatches) < 50:
                mismatches.append({'stream': tags[0], 'op': line[:400], 'args': json.dumps(a)[:300], 'model': m, 'impl': res})
    n_corr = len(cases)
    # the version filter: model op vs. the real loop observed through a private database and through the live one
    filt_lines, filt_expect = [], []
    for _ in range(ctx.scale(300, 4000)):
        p = r.choice([OPENSSH, DROPBEAR, LIBSSH, 'TinySSH'])
        v, pa = gen_version(r, p if p in PATCHES else OPENSSH)
        if r.random() < 0.15:
            v = mutate_text(r, v)
        fs = r.random() < 0.6
        v0s = [gen_desc_list(r) for _ in range(12)] + [render(r, mutate_comps(r, gen_comps(r))) + r.choice(['', 'C']), 'd' + render(r, gen_comps(r)), 'l1' + render(r, gen_comps(r))]
        got = custom_filter(p, v, pa or None, fs, v0s)
        for v0, g in zip(v0s, got):
            filt_lines.append('ver.filter %s %s %s 0 %s %s' % (tstr(p), tstr(v), toptstr(pa or None), tbool(fs), tstr(v0)))
            filt_expect.append(g)
    if ctx.driver_ok:
        for line, m, g in zip(filt_lines, ctx.driver(filt_lines), filt_expect):
            if m != {'ok': g}:
                if len(mismatches) < 50:
                    mismatches.append({'stream': 'filter', 'op': line[:400], 'model': m, 'impl': {'ok': g}})
        n_corr += len(filt_lines)
        corr_hist['ver.filter'] = len(filt_lines)

    # ---- oracle
    for inp, nontrivial, tags in inputs:
        res = check(inp)
        cov.add(json.dumps(inp, sort_keys=True), nontrivial, tags=tags,
                sample={'input': inp, 'failures': len(res)} if cov.evaluations % 9973 == 0 else None)
        for sig, observed, expected in res:
            failures.append({'sig': sig, 'input': inp, 'observed': observed, 'expected': expected,
                             'how': 'harness/props/C14.py check(input) on the real ssh_audit classes'})
    # ---- comparisons made by several threads at once (as the worker threads of a multi-target scan make them): every thread keeps getting the
    # answers it gets alone.  A schedule-dependent stage: a run that passes proves nothing, a failure is a failure (seed C14-11: a class-level
    # memo written in two statements)
    fails_c = concurrent_compare(r)
    cov.add(('concurrent-compare',), True, tags=['concurrent-compare'])
    for f in fails_c[:3]:
        failures.append({'sig': {'kind': 'compare_differs_under_concurrency'}, 'input': f['input'], 'observed': f['observed'], 'expected': f['expected'],
                         'how': 'harness/props/C14.py concurrent_compare(): real Software.compare_version from 4 threads'})
    # minimal failures first
    failures.sort(key=lambda f: len(json.dumps(f['input'])))
    for k, v in sorted(corr_hist.items()):
        cov.hist['corr:' + k] = v
    return {'failures': failures, 'mismatches': mismatches, 'coverage': cov, 'corr_cases': n_corr if ctx.driver_ok else 0,
            'assumptions': ['ASCII input: \\d is 0-9 and \\s / str.strip() are the ten ASCII white-space characters (banner text reaches Software.parse through Utils.to_print_ascii; database strings are ASCII); '
                            'non-ASCII digits and spaces are not generated',
                            'int() of a component is modelled as the decimal value of its digits (CPython refuses more than 4300 digits; not generated)',
                            'the version filter of get_recommendations is observed through the "add" recommendations of a private database (entries without failure/warning notes)',
                            'Timeframe string min/max is numerically right only under db_versions_order_safe (re-proved on the regenerated tables every run)'],
            'observations': ['Timeframe._update still orders versions as strings (prev < ssh_version); harmless today because every same-product pair of database versions is order-safe (theorem db_versions_order_safe + oracle check dbpair)',
                             'OpenSSH patch "p0" and patches with text after pN (p1-hpn) are outside the grammar and break transitivity (theorems openssh_p0_not_transitive, hpn_triple_not_transitive)',
                             'a Dropbear testN pre-release of exactly the first version of an algorithm is not counted as having it (theorem dropbear_test_older_than_release)']}


def concurrent_compare(r, rounds=12000):
    import sys as _sys
    import threading
    from ssh_audit.software import Software
    from ssh_audit.banner import Banner
    pairs = [('OpenSSH_9.9', '10.0'), ('OpenSSH_10.0', '9.9'), ('OpenSSH_7.4', '6.5'), ('OpenSSH_6.5', '7.4'), ('OpenSSH_8.8', '8.8'), ('OpenSSH_7.2', '10.1'),
             ('dropbear_2020.81', '2013.56'), ('dropbear_2012.55', '2020.79'), ('libssh-0.10.6', '0.7.0'), ('libssh-0.7.0', '0.10.6')]
    sws = [(Software.parse(Banner.parse('SSH-2.0-' + a)), b) for a, b in pairs]
    alone = [sw.compare_version(b) for sw, b in sws]
    bad = []
    old = _sys.getswitchinterval()
    _sys.setswitchinterval(1e-6)
    try:
        def work(k):
            idx = list(range(len(sws)))
            for i in range(rounds):
                j = idx[(i * (k + 1) + k) % len(idx)]
                sw, b = sws[j]
                got = sw.compare_version(b)
                if got != alone[j] and len(bad) < 5:
                    bad.append({'input': {'concurrent': True, 'software': pairs[j][0], 'other': b}, 'observed': got, 'expected': alone[j]})
        ts = [threading.Thread(target=work, args=(k,)) for k in range(4)]
        for t in ts:
            t.start()
        for t in ts:
            t.join()
    finally:
        _sys.setswitchinterval(old)
    return bad


def replay(obj):
    f = obj.get('failure', obj)
    inp = f['input']
    if inp.get('concurrent'):
        import random as _random
        bad = concurrent_compare(_random.Random(1), rounds=40000)
        print('comparisons that differ from the single-threaded answer:', bad[:3])
        print('PROPERTY FAILS' if bad else 'every thread got the single-threaded answers (this schedule)')
        return 1 if bad else 0
    print('replaying', json.dumps(inp))
    if inp['check'] in ('compare', 'trans'):
        p = inp['product']
        vs = [tuple(inp[k]) for k in ('a', 'b', 'c') if k in inp]
        for x in vs:
            for y in vs:
                if x is not y:
                    print('  Software(%r, %r, %r).compare_version(%r) = %r   (numeric spec: %r)' % (p, x[0], x[1] or None, y[0] + y[1], cmp_impl(p, x, y, False), spec_cmp(p, x, y)))
    res = check(inp)
    for sig, observed, expected in res:
        print('  observed:', json.dumps(observed, default=str)[:600])
        print('  expected:', json.dumps(expected, default=str)[:600])
    print('property holds on this input' if not res else 'PROPERTY FAILS: %s' % json.dumps(res[0][0]))
    return 1 if res else 0
