import SshAudit.Driver.WireOps
namespace SshAudit.Driver

/-- line-protocol operations of the Policy model (stub; filled in when the model lands) -/
def policyOp (_op : String) (_args : List String) : Option J := none

end SshAudit.Driver
