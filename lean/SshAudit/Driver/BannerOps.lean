import SshAudit.Driver.WireOps
import SshAudit.Model.Banner
namespace SshAudit.Driver
open SshAudit SshAudit.Banner

def jbanner (b : Banner.Banner) : J := .obj [
  ("protocol", .arr [.nat b.protocol.1, .nat b.protocol.2]),
  ("software", J.ofOpt .str b.software),
  ("comments", J.ofOpt .str b.comments),
  ("valid", .bool b.validAscii),
  ("str", .str (render b))]

def jgroups (g : Groups) : J := .obj [
  ("pairs", .arr (g.pairs.map fun p => .arr [.str [p.1], .str p.2])),
  ("g2", J.ofOpt .str g.g2), ("g3", J.ofOpt .str g.g3), ("g4", J.ofOpt .str g.g4)]

def jresult (r : Banner.Result) : J := .obj [
  ("banner", J.ofOpt jbanner r.banner), ("header", J.ofStrs r.header), ("unread", J.ofBytes r.unread),
  ("pending", jbl r.pending)]

/-- all code points below `n` on which `p` holds (for the whitespace-table comparison) -/
def codePointsWhere (p : Char → Bool) (n : Nat) : List Nat :=
  (List.range n).filter (fun i => !(decide (0xd800 ≤ i) && decide (i < 0xe000)) && p (Char.ofNat i))

/-- line-protocol operations of the Banner model -/
def bannerOp (op : String) (args : List String) : Option J :=
  match op, args with
  | "banner.parse", [s] => do let s ← decStr s; pure (jok (J.ofOpt jbanner (parse s)))
  | "banner.rx", [s] => do let s ← decStr s; pure (jok (J.ofOpt jgroups (rxBanner (toPrintAscii s))))
  | "banner.reparse", [s] => do
      let s ← decStr s
      pure (jok (J.ofOpt (fun b => J.ofOpt jbanner (parse (render b))) (parse s)))
  | "banner.render", [a, b, sw, cm] => do
      let a ← decNat a; let b ← decNat b; let sw ← decOptStr sw; let cm ← decOptStr cm
      pure (jok (.str (render { protocol := (a, b), software := sw, comments := cm, validAscii := true })))
  | "ascii.is", [s] => do let s ← decStr s; pure (jok (.bool (isAscii s)))
  | "ascii.to", [s] => do let s ← decStr s; pure (jok (.str (toAscii s)))
  | "ascii.to_ignore", [s] => do let s ← decStr s; pure (jok (.str (toAsciiBy isAsciiCode true s)))
  | "ascii.is_print", [s] => do let s ← decStr s; pure (jok (.bool (isPrintAscii s)))
  | "ascii.to_print", [s] => do let s ← decStr s; pure (jok (.str (toPrintAscii s)))
  | "ascii.to_print_ignore", [s] => do let s ← decStr s; pure (jok (.str (toAsciiBy isPrintCode true s)))
  | "utf8.decode", [h] => do let b ← decBytes h; pure (jok (.str (utf8Decode b)))
  | "readlines", [h] => do let b ← decBytes h; pure (jok (J.ofStrs ((splitLines b).map lineText)))
  | "uspace.table", [] => pure (jok (.arr ((codePointsWhere isUSpace 0x110000).map J.nat)))
  | "getbanner", [l] => do let cs ← decBytesList l; pure (jok (jresult (getBanner [] [] cs)))
  | _, _ => none

end SshAudit.Driver
