/-
  C10 — Wire encoding and decoding are exact inverses and packets are well-framed.

  Every theorem quantifies over *all* values / byte strings (no bound on size); `rest` is
  arbitrary trailing data.  Model: SshAudit.Model.Wire (tied to readbuf.py, writebuf.py,
  ssh_socket.py, ssh1_crc32.py, ssh2_kex.py, ssh1_publickeymessage.py by correspondence).
-/
import SshAudit.Lemmas.Mpint
import SshAudit.Lemmas.Crc
namespace SshAudit.C10
open SshAudit SshAudit.Wire

/-! ### scalars -/

theorem byte_rt (v : Nat) (b rest : Bytes) (h : writeByte v = .ok b) : readByte (b ++ rest) = .ok (v, rest) := by
  unfold writeByte at h
  by_cases hv : v < 256
  · simp only [hv, if_true, Except.ok.injEq] at h
    subst h
    have : (UInt8.ofNat v).toNat = v := by rw [UInt8.toNat_ofNat']; exact Nat.mod_eq_of_lt hv
    simp [readByte, this]
  · simp [hv] at h

theorem byte_overflow (v : Nat) (h : 256 ≤ v) : writeByte v = .error .struct := by
  simp [writeByte]; omega

theorem bool_rt (v : Bool) (rest : Bytes) : readBool (writeBool v ++ rest) = .ok (v, rest) := by
  cases v <;> simp [readBool, writeBool, readByte, bind, Except.bind, pure, Except.pure]

theorem u32_rt (v : Nat) (b rest : Bytes) (h : writeInt v = .ok b) : readInt (b ++ rest) = .ok (v, rest) := by
  unfold writeInt at h
  by_cases hv : v < 2 ^ 32
  · simp only [hv, if_true, Except.ok.injEq] at h
    subst h
    have hl : (bytesOf (toBE v 4)).length = 4 := by simp
    unfold readInt
    have : ¬ ((bytesOf (toBE v 4) ++ rest).length < 4) := by simp
    rw [if_neg this, List.take_left' hl, List.drop_left' hl, natsOf_bytesOf _ (toBE_lt v 4), ofBE_toBE]
    have : v % 256 ^ 4 = v := Nat.mod_eq_of_lt (by simpa using hv)
    rw [this]
  · simp [hv] at h

/-- the encoder refuses what does not fit 32 bits (`struct.error`) -/
theorem u32_overflow (v : Nat) (h : 2 ^ 32 ≤ v) : writeInt v = .error .struct := by
  simp [writeInt]; omega

theorem string_rt (s b rest : Bytes) (h : writeString s = .ok b) : readString (b ++ rest) = .ok (s, rest) := by
  unfold writeString at h
  cases hw : writeInt s.length with
  | error e => simp [hw, bind, Except.bind] at h
  | ok hd =>
    simp only [hw, bind, Except.bind, pure, Except.pure, Except.ok.injEq] at h
    subst h
    unfold readString
    rw [List.append_assoc, u32_rt s.length hd (s ++ rest) hw]
    simp [bind, Except.bind, pure, Except.pure]

/-- name-lists: every non-empty list of comma-free names round-trips (the empty list does not:
    `",".join([]) == ""` reads back as `[""]`, see `namelist_empty`). -/
theorem namelist_rt (names : List Bytes) (b rest : Bytes) (hne : names ≠ []) (hc : ∀ n ∈ names, comma ∉ n)
    (h : writeList names = .ok b) : readList (b ++ rest) = .ok (names, rest) := by
  unfold writeList at h
  unfold readList
  rw [string_rt _ b rest h]
  simp [bind, Except.bind, pure, Except.pure, split_join names hne hc]

theorem namelist_empty (b rest : Bytes) (h : writeList [] = .ok b) : readList (b ++ rest) = .ok ([[]], rest) := by
  unfold writeList at h
  unfold readList
  rw [string_rt _ b rest h]
  simp [bind, Except.bind, pure, Except.pure, joinComma, splitComma]

/-! ### SSH-2 mpint (two's complement, either sign) -/

theorem signedBE_stripFF (l : List Nat) : signedBE (stripFF l) = signedBE l := by
  unfold stripFF
  split
  · next rest => exact (signedBE_drop_ff 128 rest (by decide)).symm
  · rfl

theorem stripFF_lt (l : List Nat) (h : ∀ d ∈ l, d < 256) : ∀ d ∈ stripFF l, d < 256 := by
  unfold stripFF
  split
  · next rest =>
    intro d hd
    simp only [List.mem_cons] at hd
    rcases hd with hd | hd
    · omega
    · exact h d (by simp [hd])
  · exact h

theorem createMpint_signed (n : Int) : signedBE (createMpint n) = n := by
  unfold createMpint
  simp only [signedBE_stripFF]
  by_cases h0 : n = 0
  · subst h0; simp [bitLen, toBE, signedBE]
  · simp only [h0, if_false]
    generalize hL : bitLen n.natAbs / 8 = L
    obtain ⟨hlo, hhi⟩ := fits_of_bitLen n L hL
    exact signed_roundtrip n L hlo hhi

theorem createMpint_lt (n : Int) : ∀ d ∈ createMpint n, d < 256 := by
  unfold createMpint
  exact stripFF_lt _ (toBE_lt _ _)

/-- **mpint2 round trip, every integer of either sign** (holds of the code after the D01 repair) -/
theorem mpint2_rt (n : Int) (b rest : Bytes) (h : writeMpint2 n = .ok b) : readMpint2 (b ++ rest) = .ok (n, rest) := by
  unfold writeMpint2 at h
  unfold readMpint2
  rw [string_rt _ b rest h]
  simp only [bind, Except.bind, pure, Except.pure]
  rw [natsOf_bytesOf _ (createMpint_lt n), createMpint_signed]

/-! ### SSH-1 mpint (unsigned) -/

theorem createMpintU_eq (n : Nat) : createMpintU n = minBE n := by
  unfold createMpintU
  simp only
  by_cases h0 : n = 0
  · subst h0; simp [bitLen, toBE, minBE]
  · simp only [h0, if_false]
    have hlt : n < 256 ^ (bitLen n / 8 + 1) := by
      have h1 := lt_two_pow_bitLen n
      have h2 : (2:Nat) ^ bitLen n ≤ 2 ^ (8 * (bitLen n / 8 + 1)) := Nat.pow_le_pow_right (by decide) (by omega)
      rw [Nat.pow_mul, show (2:Nat) ^ 8 = 256 by decide] at h2
      omega
    rw [toBE_eq_pad n _ hlt]
    exact dropWhile_zero_pad _ _ (minBE_head_ne_zero n)

/-- mpint1 round trip for every natural number whose bit length fits the 16-bit header -/
theorem mpint1_rt (n : Nat) (b rest : Bytes) (h : writeMpint1 n = .ok b) : readMpint1 (b ++ rest) = .ok (n, rest) := by
  unfold writeMpint1 at h
  simp only at h
  by_cases hb : bitLen n < 2 ^ 16
  · simp only [hb, if_true, Except.ok.injEq] at h
    subst h
    rw [createMpintU_eq]
    have hl2 : (bytesOf (toBE (bitLen n) 2)).length = 2 := by simp
    unfold readMpint1
    have : ¬ ((bytesOf (toBE (bitLen n) 2) ++ bytesOf (minBE n) ++ rest).length < 2) := by simp
    rw [if_neg this]
    simp only [List.append_assoc]
    rw [List.take_left' hl2, List.drop_left' hl2, natsOf_bytesOf _ (toBE_lt _ 2), ofBE_toBE]
    have hm : bitLen n % 256 ^ 2 = bitLen n := Nat.mod_eq_of_lt (by simpa using hb)
    rw [hm]
    have hlen : (bytesOf (minBE n)).length = (bitLen n + 7) / 8 := by simp [minBE_length]
    rw [List.take_left' hlen, List.drop_left' hlen, natsOf_bytesOf _ (minBE_lt n), ofBE_minBE]
  · simp [hb] at h

/-- the integer-typed writer (what the code has) agrees with the natural-number one -/
theorem writeMpint1Z_nat (n : Nat) : writeMpint1Z (n : Int) = writeMpint1 n := by
  unfold writeMpint1Z writeMpint1 createMpintI createMpintU
  simp only [Int.natAbs_natCast]
  have hz : ((n : Int) = 0) = (n = 0) := by simp
  simp only [hz]
  have : ∀ len, ((n : Int) % (256:Int)^len).toNat = n % 256^len := by
    intro len
    have : ((256:Int)^len) = ((256^len : Nat) : Int) := by simp
    rw [this, ← Int.natCast_emod, Int.toNat_natCast]
  rw [this]
  have hlt : n < 256 ^ (bitLen n / 8 + if n = 0 then 0 else 1) := by
    by_cases h0 : n = 0
    · subst h0; exact Nat.pow_pos (by decide)
    · simp only [h0, if_false]
      have h1 := lt_two_pow_bitLen n
      have h2 : (2:Nat) ^ bitLen n ≤ 2 ^ (8 * (bitLen n / 8 + 1)) := Nat.pow_le_pow_right (by decide) (by omega)
      rw [Nat.pow_mul, show (2:Nat) ^ 8 = 256 by decide] at h2
      omega
  rw [Nat.mod_eq_of_lt hlt]

/-- KNOWN FINDING D02 (the statement "of either sign" is false for SSH-1 mpints): the writer
    accepts a negative number and the reader returns a different value. -/
theorem mpint1_negative_not_rt : (writeMpint1Z (-1)).bind readMpint1 = .ok (255, []) := by decide +kernel

/-! ### SSH-1 packets -/

theorem crcTable_lt : ∀ x ∈ crcTable, x < 2 ^ 32 := by decide +kernel

theorem crcTable_getD_lt (i : Nat) : crcTable.getD i 0 < 2 ^ 32 := by
  rw [List.getD_eq_getElem?_getD]
  cases h : crcTable[i]? with
  | none => simp
  | some x => simp only [Option.getD_some]; exact crcTable_lt x (List.mem_of_getElem? h)

theorem crc_fold_lt (v : Bytes) (c : Nat) (hc : c < 2 ^ 32) :
    v.foldl (fun crc b => (crc >>> 8) ^^^ crcTable.getD (b.toNat ^^^ (crc % 256)) 0) c < 2 ^ 32 := by
  induction v generalizing c with
  | nil => exact hc
  | cons b v ih =>
    simp only [List.foldl_cons]
    apply ih
    apply Nat.xor_lt_two_pow
    · exact Nat.lt_of_le_of_lt (Nat.shiftRight_le _ _) hc
    · exact crcTable_getD_lt _

/-- the checksum always fits the 32-bit field it is compared with -/
theorem crcCalc_lt (v : Bytes) : crcCalc v < 2 ^ 32 := crc_fold_lt v 0 (Nat.pow_pos (by decide))

/-- **Every protocol-1.5 packet (any type, any data, any padding bytes of the right number — 8 of them when the length is a
    multiple of 8) is read back exactly by the SSH-1 packet reader**, trailing data untouched. -/
theorem frame1_read_back (t : UInt8) (data pad rest : Bytes) (hlen : data.length + 5 < 2 ^ 32) (hpad : pad.length = padLen1 (data.length + 5)) :
    readPacket1 (frame1 t data pad ++ rest) = .ok (some (t.toNat, data, rest)) := by
  have hl4 : (bytesOf (toBE (data.length + 5) 4)).length = 4 := by simp
  have hc4 : (bytesOf (toBE (crcCalc (pad ++ (t :: data))) 4)).length = 4 := by simp
  have hmod : (data.length + 5) % 256 ^ 4 = data.length + 5 := Nat.mod_eq_of_lt (by simpa using hlen)
  have hcm : crcCalc (pad ++ (t :: data)) % 256 ^ 4 = crcCalc (pad ++ (t :: data)) := Nat.mod_eq_of_lt (by simpa using crcCalc_lt _)
  have hp8 : padLen1 (data.length + 5) ≤ 8 ∧ 1 ≤ padLen1 (data.length + 5) ∧ (padLen1 (data.length + 5) + (data.length + 5)) % 8 = 0 := by
    unfold padLen1; omega
  unfold readPacket1 frame1
  simp only [List.append_assoc]
  have hnl : ¬ ((bytesOf (toBE (data.length + 5) 4) ++ (pad ++ (t :: data ++ (bytesOf (toBE (crcCalc (pad ++ t :: data)) 4) ++ rest)))).length < 4) := by simp
  rw [if_neg hnl, List.take_left' hl4, List.drop_left' hl4, natsOf_bytesOf _ (toBE_lt _ 4), ofBE_toBE, hmod]
  have hpl : ¬ ((pad ++ (t :: data ++ (bytesOf (toBE (crcCalc (pad ++ t :: data)) 4) ++ rest))).length < padLen1 (data.length + 5)) := by
    simp only [List.length_append, hpad]; omega
  rw [if_neg hpl, List.take_left' hpad, List.drop_left' hpad]
  have hbk : ¬ ((padLen1 (data.length + 5) + (data.length + 5)) % 8 ≠ 0 ∨ data.length + 5 < 5) := by omega
  rw [if_neg hbk]
  have hen : ¬ ((t :: data ++ (bytesOf (toBE (crcCalc (pad ++ t :: data)) 4) ++ rest)).length < data.length + 5) := by
    simp only [List.length_append, List.length_cons, hc4]; omega
  rw [if_neg hen]
  have hbody : (t :: data).length = data.length + 5 - 4 := by simp
  rw [show (t :: data ++ (bytesOf (toBE (crcCalc (pad ++ t :: data)) 4) ++ rest)) = (t :: data) ++ (bytesOf (toBE (crcCalc (pad ++ t :: data)) 4) ++ rest) from rfl]
  rw [List.take_left' hbody, List.drop_left' hbody, List.take_left' hc4, List.drop_left' hc4, natsOf_bytesOf _ (toBE_lt _ 4), ofBE_toBE, hcm]
  simp

-- non-vacuity: a packet whose length field is a multiple of 8 carries 8 bytes of padding
example : padLen1 8 = 8 ∧ readPacket1 (frame1 2 [1, 2, 3] (List.replicate 8 0) ++ [9]) = .ok (some (2, [1, 2, 3], [9])) := by decide +kernel

/-! ### KEXINIT -/

/-- well-formed message: 16-byte cookie, every list non-empty with comma-free names -/
def ListWF (l : List Bytes) : Prop := l ≠ [] ∧ ∀ n ∈ l, comma ∉ n
def KexWF (k : Kex) : Prop :=
  k.cookie.length = 16 ∧ ListWF k.kex ∧ ListWF k.key ∧ ListWF k.encC ∧ ListWF k.encS ∧ ListWF k.macC ∧ ListWF k.macS
  ∧ ListWF k.compC ∧ ListWF k.compS ∧ ListWF k.langC ∧ ListWF k.langS

theorem kexinit_rt (k : Kex) (bs : Bytes) (hwf : KexWF k) (h : kexWrite k = .ok bs) : kexParse bs = .ok k := by
  obtain ⟨hc, h1, h2, h3, h4, h5, h6, h7, h8, h9, h10⟩ := hwf
  unfold kexWrite at h
  cases e1 : writeList k.kex with | error e => simp [e1, bind, Except.bind] at h | ok a =>
  cases e2 : writeList k.key with | error e => simp [e1, e2, bind, Except.bind] at h | ok b =>
  cases e3 : writeList k.encC with | error e => simp [e1, e2, e3, bind, Except.bind] at h | ok c =>
  cases e4 : writeList k.encS with | error e => simp [e1, e2, e3, e4, bind, Except.bind] at h | ok d =>
  cases e5 : writeList k.macC with | error e => simp [e1, e2, e3, e4, e5, bind, Except.bind] at h | ok e =>
  cases e6 : writeList k.macS with | error e => simp [e1, e2, e3, e4, e5, e6, bind, Except.bind] at h | ok f =>
  cases e7 : writeList k.compC with | error e => simp [e1, e2, e3, e4, e5, e6, e7, bind, Except.bind] at h | ok g =>
  cases e8 : writeList k.compS with | error e => simp [e1, e2, e3, e4, e5, e6, e7, e8, bind, Except.bind] at h | ok hh =>
  cases e9 : writeList k.langC with | error e => simp [e1, e2, e3, e4, e5, e6, e7, e8, e9, bind, Except.bind] at h | ok i =>
  cases e10 : writeList k.langS with | error e => simp [e1, e2, e3, e4, e5, e6, e7, e8, e9, e10, bind, Except.bind] at h | ok j =>
  cases e11 : writeInt k.unused with | error e => simp [e1, e2, e3, e4, e5, e6, e7, e8, e9, e10, e11, bind, Except.bind] at h | ok u =>
  simp only [e1, e2, e3, e4, e5, e6, e7, e8, e9, e10, e11, bind, Except.bind, pure, Except.pure, Except.ok.injEq] at h
  subst h
  unfold kexParse
  simp only [Wire.read, List.append_assoc, List.take_left' hc, List.drop_left' hc]
  rw [namelist_rt _ a _ h1.1 h1.2 e1]; simp only [bind, Except.bind]
  rw [namelist_rt _ b _ h2.1 h2.2 e2]; simp only [bind, Except.bind]
  rw [namelist_rt _ c _ h3.1 h3.2 e3]; simp only [bind, Except.bind]
  rw [namelist_rt _ d _ h4.1 h4.2 e4]; simp only [bind, Except.bind]
  rw [namelist_rt _ e _ h5.1 h5.2 e5]; simp only [bind, Except.bind]
  rw [namelist_rt _ f _ h6.1 h6.2 e6]; simp only [bind, Except.bind]
  rw [namelist_rt _ g _ h7.1 h7.2 e7]; simp only [bind, Except.bind]
  rw [namelist_rt _ hh _ h8.1 h8.2 e8]; simp only [bind, Except.bind]
  rw [namelist_rt _ i _ h9.1 h9.2 e9]; simp only [bind, Except.bind]
  rw [namelist_rt _ j _ h10.1 h10.2 e10]; simp only [bind, Except.bind]
  rw [bool_rt]; simp only [bind, Except.bind]
  have := u32_rt k.unused u [] e11
  rw [List.append_nil] at this
  rw [this]
  simp [pure, Except.pure]

/-! ### framing (RFC 4253 §6) -/

theorem padLen_bounds (n : Nat) : 4 ≤ padLen n ∧ padLen n ≤ 11 ∧ (n + 5 + padLen n) % 8 = 0 := by
  unfold padLen; simp only; split <;> omega

theorem frame_eq (p bs : Bytes) (h : frame p = .ok bs) :
    p.length + padLen p.length + 1 < 2 ^ 32 ∧
      bs = bytesOf (toBE (p.length + padLen p.length + 1) 4) ++ [UInt8.ofNat (padLen p.length)] ++ p ++ List.replicate (padLen p.length) 0 := by
  unfold frame writeInt at h
  simp only at h
  by_cases hlt : p.length + padLen p.length + 1 < 2 ^ 32
  · rw [if_pos hlt] at h
    simp only [bind, Except.bind, pure, Except.pure, Except.ok.injEq] at h
    exact ⟨hlt, h.symm⟩
  · rw [if_neg hlt] at h
    simp [bind, Except.bind] at h

/-- every emitted packet: total length a multiple of 8, 4 ≤ padding ≤ 11, consistent length field -/
theorem frame_wf (p bs : Bytes) (h : frame p = .ok bs) :
    ∃ pad, 4 ≤ pad ∧ pad ≤ 11 ∧ bs.length % 8 = 0 ∧ bs.length = 4 + 1 + p.length + pad ∧
      bs = bytesOf (toBE (p.length + pad + 1) 4) ++ [UInt8.ofNat pad] ++ p ++ List.replicate pad 0 := by
  obtain ⟨_, hbs⟩ := frame_eq p bs h
  obtain ⟨h4, h11, h8⟩ := padLen_bounds p.length
  refine ⟨padLen p.length, h4, h11, ?_, ?_, hbs⟩
  · subst hbs; simp; omega
  · subst hbs; simp; omega

/-- the tool's own reader returns exactly the payload that was framed, whatever follows -/
theorem frame_read_back (t : UInt8) (body bs rest : Bytes) (h : frame (t :: body) = .ok bs) :
    readPacket (bs ++ rest) = .ok (some (t.toNat, body, rest)) := by
  obtain ⟨hlt, hbs⟩ := frame_eq _ _ h
  obtain ⟨h4, h11, h8⟩ := padLen_bounds (t :: body).length
  generalize padLen (t :: body).length = pad at *
  generalize hP : t :: body = P at *
  have hPl : P.length = body.length + 1 := by rw [← hP]; rfl
  subst hbs
  have hl4 : (bytesOf (toBE (P.length + pad + 1) 4)).length = 4 := by simp
  have hpadv : (UInt8.ofNat pad).toNat = pad := by rw [UInt8.toNat_ofNat']; exact Nat.mod_eq_of_lt (by omega)
  have hmod : (P.length + pad + 1) % 256 ^ 4 = P.length + pad + 1 := Nat.mod_eq_of_lt (by simpa using hlt)
  unfold readPacket
  simp only [List.append_assoc]
  have hnl : ¬ ((bytesOf (toBE (P.length + pad + 1) 4) ++ ([UInt8.ofNat pad] ++ (P ++ (List.replicate pad 0 ++ rest)))).length < 4) := by
    simp
  rw [if_neg hnl, List.take_left' hl4, List.drop_left' hl4, natsOf_bytesOf _ (toBE_lt _ 4), ofBE_toBE, hmod]
  simp only [List.singleton_append, hpadv]
  have hbk : ¬ ((P.length + pad + 1 + 4) % 8 ≠ 0 ∨ P.length + pad + 1 < pad + 2) := by omega
  rw [if_neg hbk]
  have hpl : P.length + pad + 1 - pad - 1 = P.length := by omega
  rw [hpl]
  have : ¬ ((P ++ (List.replicate pad 0 ++ rest)).length < P.length) := by simp
  rw [if_neg this, List.take_left' rfl, List.drop_left' rfl]
  subst hP
  simp only
  have : ¬ ((List.replicate pad (0 : UInt8) ++ rest).length < pad) := by simp
  rw [if_neg this]
  have hrl : (List.replicate pad (0 : UInt8)).length = pad := by simp
  rw [List.drop_left' hrl]

/-- **Any number of emitted packets, one after the other on a connection, are read back in order, each exactly, and nothing
    else** (the model reads from the bytes that have arrived; that the real reader is indifferent to how they were cut into
    `recv` results is exercised by the correspondence check) -/
theorem frames_read_back (pf : List ((UInt8 × Bytes) × Bytes)) (h : ∀ x ∈ pf, frame (x.1.1 :: x.1.2) = .ok x.2) :
    readPackets (pf.length + 1) (pf.map (·.2)).flatten = (pf.map (fun x => (x.1.1.toNat, x.1.2)), none) := by
  induction pf with
  | nil => simp [readPackets, readPacket]
  | cons x rest ih =>
    simp only [List.length_cons, List.map_cons, List.flatten_cons]
    unfold readPackets
    rw [frame_read_back x.1.1 x.1.2 x.2 (rest.map (·.2)).flatten (h x (List.mem_cons_self))]
    simp only
    rw [ih (fun y hy => h y (List.mem_cons_of_mem _ hy))]

/-- an independently written RFC 4253 §6 decoder accepts every emitted packet and returns its payload -/
theorem frame_rfc (p bs : Bytes) (h : frame p = .ok bs) : rfcDecode bs = some p := by
  obtain ⟨hlt, hbs⟩ := frame_eq _ _ h
  obtain ⟨h4, h11, h8⟩ := padLen_bounds p.length
  generalize padLen p.length = pad at *
  -- expose the four header digits
  have hd : ∃ a b c d, toBE (p.length + pad + 1) 4 = [a, b, c, d] ∧ a < 256 ∧ b < 256 ∧ c < 256 ∧ d < 256
      ∧ ((a * 256 + b) * 256 + c) * 256 + d = p.length + pad + 1 := by
    have hl := toBE_length (p.length + pad + 1) 4
    have hv := ofBE_toBE (p.length + pad + 1) 4
    have hb := toBE_lt (p.length + pad + 1) 4
    match hm : toBE (p.length + pad + 1) 4, hl with
    | [a, b, c, d], _ =>
      rw [hm] at hv hb
      refine ⟨a, b, c, d, rfl, hb a (by simp), hb b (by simp), hb c (by simp), hb d (by simp), ?_⟩
      rw [Nat.mod_eq_of_lt (by simpa using hlt)] at hv
      simpa [ofBE] using hv
  obtain ⟨a, b, c, d, hdig, ha, hb, hc, hdd, hval⟩ := hd
  subst hbs
  rw [hdig]
  have ta : (UInt8.ofNat a).toNat = a := by rw [UInt8.toNat_ofNat']; exact Nat.mod_eq_of_lt ha
  have tb : (UInt8.ofNat b).toNat = b := by rw [UInt8.toNat_ofNat']; exact Nat.mod_eq_of_lt hb
  have tc : (UInt8.ofNat c).toNat = c := by rw [UInt8.toNat_ofNat']; exact Nat.mod_eq_of_lt hc
  have td : (UInt8.ofNat d).toNat = d := by rw [UInt8.toNat_ofNat']; exact Nat.mod_eq_of_lt hdd
  have tp : (UInt8.ofNat pad).toNat = pad := by rw [UInt8.toNat_ofNat']; exact Nat.mod_eq_of_lt (by omega)
  simp only [bytesOf, List.map_cons, List.map_nil, List.cons_append, List.nil_append, List.append_assoc, rfcDecode, ta, tb, tc, td, tp, hval]
  have hcond : (UInt8.ofNat a :: UInt8.ofNat b :: UInt8.ofNat c :: UInt8.ofNat d :: UInt8.ofNat pad :: (p ++ List.replicate pad 0)).length % 8 = 0
      ∧ 4 ≤ pad ∧ pad + 1 ≤ p.length + pad + 1 ∧ (p ++ List.replicate pad (0 : UInt8)).length = p.length + pad + 1 - 1 := by
    refine ⟨?_, h4, by omega, by simp⟩
    simp; omega
  rw [if_pos hcond]
  have : p.length + pad + 1 - 1 - pad = p.length := by omega
  rw [this, List.take_left' rfl]

/-! ### SSH-1 CRC-32 -/

/-- the table-driven `SSH1_CRC32.calc` equals the bit-serial CRC-32 definition, for every byte string -/
theorem crc_fold (v : Bytes) (c0 : Nat) :
    v.foldl (fun crc b => (crc >>> 8) ^^^ crcTable.getD (b.toNat ^^^ (crc % 256)) 0) c0
      = v.foldl (fun crc b => crcBitStepN 8 (crc ^^^ b.toNat)) c0 := by
  induction v generalizing c0 with
  | nil => rfl
  | cons b v ih =>
    simp only [List.foldl_cons]
    have hb : b.toNat < 256 := UInt8.toNat_lt b
    have hidx : b.toNat ^^^ (c0 % 256) < 256 := by
      rw [index_eq c0 b.toNat hb]; exact Nat.mod_lt _ (by decide)
    rw [table_eq_steps _ hidx, index_eq c0 b.toNat hb, ← byte_update c0 b.toNat hb]
    exact ih _

theorem crc_table_eq_spec (v : Bytes) : crcCalc v = crcSpec v := crc_fold v 0

/-! ### non-vacuity: the hypotheses are met by concrete, non-trivial values -/
example : writeMpint2 (-6442450944) = .ok [0,0,0,5, 0xfe,0x80,0,0,0] := by decide +kernel
example : readMpint2 [0,0,0,5, 0xfe,0x80,0,0,0] = .ok (-6442450944, []) := by decide +kernel
example : writeMpint2 (-128) = .ok [0,0,0,1,0x80] ∧ writeMpint2 128 = .ok [0,0,0,2,0,0x80] := by decide +kernel
example : frame [20, 1, 2, 3] = .ok [0,0,0,12, 7, 20,1,2,3, 0,0,0,0,0,0,0] := by decide +kernel
example : crcCalc "The quick brown fox jumps over the lazy dog".toUTF8.toList = 0xb9c60808 := by decide +kernel

/-! ### SSH-1 public-key message -/

set_option linter.unusedSimpArgs false in
/-- **SSH-1 public-key message round trip**: every message with an 8-byte cookie that the writer accepts (32-bit integer fields, mpints whose bit
    length fits the 16-bit header) is parsed back field by field -/
theorem pkm_rt (p : Pkm) (bs : Bytes) (hc : p.cookie.length = 8) (h : pkmWrite p = .ok bs) : pkmParse bs = .ok p := by
  unfold pkmWrite at h
  cases e1 : writeInt p.skBits with | error e => simp [e1, bind, Except.bind] at h | ok a =>
  cases e2 : writeMpint1 p.skE with | error e => simp [e1, e2, bind, Except.bind] at h | ok b =>
  cases e3 : writeMpint1 p.skN with | error e => simp [e1, e2, e3, bind, Except.bind] at h | ok c =>
  cases e4 : writeInt p.hkBits with | error e => simp [e1, e2, e3, e4, bind, Except.bind] at h | ok d =>
  cases e5 : writeMpint1 p.hkE with | error e => simp [e1, e2, e3, e4, e5, bind, Except.bind] at h | ok e =>
  cases e6 : writeMpint1 p.hkN with | error e => simp [e1, e2, e3, e4, e5, e6, bind, Except.bind] at h | ok f =>
  cases e7 : writeInt p.pflags with | error e => simp [e1, e2, e3, e4, e5, e6, e7, bind, Except.bind] at h | ok g =>
  cases e8 : writeInt p.cmask with | error e => simp [e1, e2, e3, e4, e5, e6, e7, e8, bind, Except.bind] at h | ok hh =>
  cases e9 : writeInt p.amask with | error e => simp [e1, e2, e3, e4, e5, e6, e7, e8, e9, bind, Except.bind] at h | ok i =>
  simp only [e1, e2, e3, e4, e5, e6, e7, e8, e9, bind, Except.bind, pure, Except.pure, Except.ok.injEq] at h
  subst h
  unfold pkmParse
  simp only [Wire.read, List.append_assoc, List.take_left' hc, List.drop_left' hc]
  rw [u32_rt _ a _ e1]; simp only [bind, Except.bind]
  rw [mpint1_rt _ b _ e2]; simp only [bind, Except.bind]
  rw [mpint1_rt _ c _ e3]; simp only [bind, Except.bind]
  rw [u32_rt _ d _ e4]; simp only [bind, Except.bind]
  rw [mpint1_rt _ e _ e5]; simp only [bind, Except.bind]
  rw [mpint1_rt _ f _ e6]; simp only [bind, Except.bind]
  rw [u32_rt _ g _ e7]; simp only [bind, Except.bind]
  rw [u32_rt _ hh _ e8]; simp only [bind, Except.bind]
  have := u32_rt p.amask i [] e9
  rw [List.append_nil] at this
  rw [this]
  simp [pure, Except.pure]

example : pkmWrite { cookie := List.replicate 8 1, skBits := 768, skE := 65537, skN := 12345678901234567890, hkBits := 1024, hkE := 35, hkN := 255,
                     pflags := 2, cmask := 72, amask := 36 } ≠ .error .struct := by decide

end SshAudit.C10
