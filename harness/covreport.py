#!/venv/bin/python
"""covreport.py <dir> — merges the per-process line records written under VERIF_COV=<dir> and prints, per source file of /repo/src/ssh_audit,
the executable lines that no check executed (development aid: blind spots of the generators; not part of any check)."""
import glob, json, os, sys
sys.path.insert(0, os.path.dirname(os.path.abspath(__file__)))
import common

def executable_lines(path):
    code = compile(open(path).read(), path, 'exec')
    lines = set()
    stack = [code]
    while stack:
        c = stack.pop()
        for _s, _e, ln in c.co_lines():
            if ln is not None:
                lines.add(ln)
        for k in c.co_consts:
            if hasattr(k, 'co_lines'):
                stack.append(k)
    return lines

def main():
    d = sys.argv[1]
    seen = {}
    for f in glob.glob(os.path.join(d, '**', 'cov-*.json'), recursive=True):
        for k, v in json.load(open(f)).items():
            seen.setdefault(k, set()).update(v)
    tot = cov = 0
    for path in sorted(glob.glob(os.path.join(common.REPO, 'src', 'ssh_audit', '*.py'))):
        base = os.path.basename(path)
        ex = executable_lines(path)
        src = open(path).read().split('\n')
        ex = {l for l in ex if src[l - 1].strip() and not src[l - 1].strip().startswith(('#', '"""', "'''"))}
        hit = seen.get(base, set()) & ex
        miss = sorted(ex - hit)
        tot += len(ex); cov += len(hit)
        print('%-28s %4d/%4d lines' % (base, len(hit), len(ex)))
        if '-v' in sys.argv:
            # group the missed lines into ranges
            rng, out = [], []
            for l in miss:
                if rng and l <= rng[1] + 2:
                    rng[1] = l
                else:
                    if rng: out.append(tuple(rng))
                    rng = [l, l]
            if rng: out.append(tuple(rng))
            for a, b in out:
                print('      %d-%d: %s' % (a, b, src[a - 1].strip()[:110]))
    print('TOTAL %d/%d (%.1f%%)' % (cov, tot, 100.0 * cov / max(tot, 1)))

main()
