"""Shared pieces of the multi-target properties (C07, C08): target archetypes on fakenet, running the real
main() with -T, cutting its stdout into per-target blocks, single-target references, forced interleavings."""
import json
import os
import tempfile
import threading

import fakenet as fn

DASHES = '-' * 80


def arch_servers():
    """one archetype per channel through which a scan edits shared rating state, plus clean / failing ones"""
    ed = {'ssh-ed25519': fn.ed25519_blob()}
    A = fn.simple_server(kex=('curve25519-sha256',), key=('ssh-ed25519',), enc=('chacha20-poly1305@openssh.com', 'aes256-ctr'), mac=('hmac-sha2-256',), hostkeys=ed)
    B = fn.simple_server(kex=('curve25519-sha256', 'kex-strict-s-v00@openssh.com'), key=('ssh-ed25519',), enc=('chacha20-poly1305@openssh.com', 'aes256-ctr'), mac=('hmac-sha2-256',), hostkeys=ed)
    C = fn.simple_server(kex=('curve25519-sha256',), key=('rsa-sha2-512', 'rsa-sha2-256'), enc=('aes256-ctr',), mac=('hmac-sha2-256-etm@openssh.com',),
                         hostkeys={'rsa-sha2-512': fn.rsa_blob(2048), 'rsa-sha2-256': fn.rsa_blob(2048)})
    D = fn.simple_server(kex=('curve25519-sha256',), key=('rsa-sha2-512', 'rsa-sha2-256'), enc=('aes256-ctr',), mac=('hmac-sha2-256-etm@openssh.com',),
                         hostkeys={'rsa-sha2-512': fn.rsa_blob(4096), 'rsa-sha2-256': fn.rsa_blob(4096)})
    E = fn.simple_server(kex=('diffie-hellman-group-exchange-sha256', 'diffie-hellman-group-exchange-sha1'), key=('ssh-ed25519',), enc=('aes256-ctr',), mac=('hmac-sha2-256-etm@openssh.com',),
                         hostkeys=ed, gex=lambda mn, pf, mx: 1024 if mn <= 1024 <= mx else (2048 if mx >= 2048 else None), banner=b'SSH-2.0-dropbear_2020.81')
    F = fn.simple_server(kex=('diffie-hellman-group-exchange-sha256',), key=('ssh-ed25519',), enc=('aes256-ctr',), mac=('hmac-sha2-256-etm@openssh.com',),
                         hostkeys=ed, gex=lambda mn, pf, mx: 2048 if mx < 3072 else 3072, banner=b'SSH-2.0-OpenSSH_8.9')
    G = fn.simple_server(kex=('sntrup761x25519-sha512@openssh.com',), key=('ssh-ed25519',), enc=('aes256-gcm@openssh.com',), mac=('hmac-sha2-512-etm@openssh.com',), hostkeys=ed, banner=b'SSH-2.0-OpenSSH_9.9')
    H = fn.simple_server(kex=('diffie-hellman-group1-sha1', 'curve25519-sha256'), key=('ssh-dss', 'ssh-ed25519'), enc=('arcfour', 'aes128-cbc', 'aes256-ctr'), mac=('hmac-md5', 'hmac-sha1-etm@openssh.com'), hostkeys=ed)
    I = fn.simple_server(kex=('diffie-hellman-group-exchange-sha256',), key=('ssh-ed25519',), enc=('aes256-ctr',), mac=('hmac-sha2-256-etm@openssh.com',),
                         hostkeys=ed, gex=lambda mn, pf, mx: 4096 if mx >= 4096 else None, banner=b'SSH-2.0-OpenSSH_8.9')
    # only one member of the RSA family offered, same banner, different key sizes (findings are written onto the whole family, offered or not)
    L = fn.simple_server(kex=('curve25519-sha256',), key=('rsa-sha2-512',), enc=('aes256-ctr',), mac=('hmac-sha2-256-etm@openssh.com',), hostkeys={'rsa-sha2-512': fn.rsa_blob(2048)})
    M = fn.simple_server(kex=('curve25519-sha256',), key=('rsa-sha2-512',), enc=('aes256-ctr',), mac=('hmac-sha2-256-etm@openssh.com',), hostkeys={'rsa-sha2-512': fn.rsa_blob(4096)})
    return {'A': A, 'B': B, 'C': C, 'D': D, 'E': E, 'F': F, 'G': G, 'H': H, 'I': I, 'L': L, 'M': M}


def fail_servers():
    good_kex = fn.kexinit(['curve25519-sha256'], ['ssh-ed25519'], ['aes256-ctr'], ['hmac-sha2-256-etm@openssh.com'])
    return {
        'refused': fn.Server(refuse=True),
        'silent': fn.Server(silent=True),
        'earlyclose': fn.Server(close_on_connect=True),
        'closeafterbanner': fn.Server(kexinit_payload=None),
        'badblock': fn.Server(raw_after_banner=b'\x00\x00\x00\x0d\x04' + good_kex[:30]),
        'badlength': fn.Server(raw_after_banner=b'\x00\x00\x00\x04\xff' + good_kex),
        'trunckex': fn.Server(raw_after_banner=fn.pkt(good_kex[:40])),
        'wrongtype': fn.Server(raw_after_banner=fn.pkt(b'\x15' + good_kex[1:])),
        'probegarbage': fn.simple_server(kex=('curve25519-sha256',), key=('ssh-ed25519',), hostkeys={'ssh-ed25519': ('raw', b'\x00\x00\x00\x0d\x04garbage-garbage-garbage')}),
        'halfpacket': fn.Server(raw_after_banner=fn.pkt(good_kex)[:20]),                       # banner, the start of a packet, then silence
        'halfbanner': fn.Server(banner=b'SSH-2.0-Open', banner_eol=b'', kexinit_payload=None),   # part of the identification line, then silence
        'probetrunc': fn.simple_server(kex=('curve25519-sha256',), key=('ssh-ed25519',), hostkeys={'ssh-ed25519': ('raw', fn.pkt(bytes([31]) + b'\x00\x00\x00\x20abc'))}),
    }


def rate_fault_servers():
    """targets that offer Diffie-Hellman key exchanges (so the connection-rate check runs) and whose rate-check connections misbehave at the
    socket level; the handshake and the probes are healthy"""
    import errno
    def dh(**kw):
        return fn.simple_server(kex=('curve25519-sha256', 'diffie-hellman-group14-sha256'), key=('ssh-ed25519',), enc=('aes256-ctr',), mac=('hmac-sha2-256-etm@openssh.com',),
                                hostkeys={'ssh-ed25519': fn.ed25519_blob()}, **kw)
    return {
        'rateok': dh(),
        'rateunreach': dh(rate_fault=('recv', errno.EHOSTUNREACH)),      # ICMP host-unreachable surfacing on a rate-check socket
        'ratenetdown': dh(rate_fault=('recv', errno.ENETDOWN)),
        'ratereset': dh(rate_fault=('recv', errno.ECONNRESET)),
        'raterefused': dh(rate_fault=('connect', errno.ECONNREFUSED)),
        'ratenobufs': dh(rate_fault=('connect', errno.ENOBUFS)),
        # a scan that first writes findings into the thread's rating database (1024-bit RSA key, host-key probes) and then leaves through an uncaught
        # exception (socket error inside its rate check) — and a target with the same lists and banner but a 4096-bit key that must not inherit anything
        'rsa1024_rateunreach': fn.simple_server(kex=('curve25519-sha256', 'diffie-hellman-group14-sha256'), key=('rsa-sha2-512', 'rsa-sha2-256', 'ssh-ed25519'), enc=('aes256-ctr',),
                                                mac=('hmac-sha2-256-etm@openssh.com',), hostkeys={'rsa-sha2-512': fn.rsa_blob(1024), 'rsa-sha2-256': fn.rsa_blob(1024), 'ssh-ed25519': fn.ed25519_blob()},
                                                rate_fault=('recv', errno.EHOSTUNREACH)),
        'rsa4096_dh': fn.simple_server(kex=('curve25519-sha256', 'diffie-hellman-group14-sha256'), key=('rsa-sha2-512', 'rsa-sha2-256', 'ssh-ed25519'), enc=('aes256-ctr',),
                                       mac=('hmac-sha2-256-etm@openssh.com',), hostkeys={'rsa-sha2-512': fn.rsa_blob(4096), 'rsa-sha2-256': fn.rsa_blob(4096), 'ssh-ed25519': fn.ed25519_blob()}),
        'probeunreach': fn.simple_server(kex=('curve25519-sha256',), key=('ssh-ed25519', 'rsa-sha2-512'), hostkeys={'ssh-ed25519': fn.ed25519_blob(), 'rsa-sha2-512': fn.rsa_blob(3072)},
                                         sock_fault=('recv', errno.EHOSTUNREACH, 1)),
        'hsunreach': fn.simple_server(kex=('curve25519-sha256',), key=('ssh-ed25519',), hostkeys={'ssh-ed25519': fn.ed25519_blob()}, sock_fault=('recv', errno.EHOSTUNREACH, 0)),
    }


FLEET_BOOT = r'''
import json, sys
sys.path.insert(0, %(harness)r)
import common
common.repo_src()
from props import multi_common as mc
servers = mc.arch_servers()
servers.update(mc.fail_servers())
servers.update(mc.rate_fault_servers())
names, threads, extra, rate = json.loads(sys.argv[1])
code, out, hosts, net = mc.run_targets(names, servers, threads=threads, extra=extra, rate=rate)
print('\nFLEET-RESULT ' + json.dumps({'code': code, 'out': out}), flush=True)
singles = [list(mc.run_single(n, servers, mc.ip_of(i), extra, rate=rate)) for i, n in enumerate(names)]
print('\nFLEET-SINGLES ' + json.dumps(singles), flush=True)
'''


def isolated_fleets(cases, par=8, timeout=25):
    """multi-target runs (and the single-target runs of the same targets), each case in a process of its own with a time limit: a run that
    blocks for ever (a worker waiting on a lock nobody releases, …) is reported as {'hang': True} instead of hanging the check.
    cases: [(names, threads, extra, rate)] -> list of {'code', 'out', 'singles'} | {'hang': True, 'partial': …}"""
    import subprocess
    import sys as _sys
    import time as _time
    here = os.path.dirname(os.path.dirname(os.path.abspath(__file__)))
    boot = FLEET_BOOT % {'harness': here}
    res = [None] * len(cases)
    pending = list(enumerate(cases))
    procs = []
    while pending or procs:
        while pending and len(procs) < par:
            i, c = pending.pop(0)
            procs.append((i, _time.time(), subprocess.Popen([_sys.executable, '-c', boot, json.dumps(list(c))], stdout=subprocess.PIPE, stderr=subprocess.PIPE,
                                                            env=dict(os.environ, PYTHONDONTWRITEBYTECODE='1'))))
        i, t0, pr = procs.pop(0)
        try:
            so, se = pr.communicate(timeout=max(1, timeout - (_time.time() - t0)))
            hang = False
        except subprocess.TimeoutExpired:
            pr.kill()
            so, se = pr.communicate()
            hang = True
        text = so.decode('utf-8', 'replace')
        r = {}
        for l in text.split('\n'):
            if l.startswith('FLEET-RESULT '):
                r.update(json.loads(l[13:]))
            elif l.startswith('FLEET-SINGLES '):
                r['singles'] = json.loads(l[14:])
        if hang:
            r = {'hang': True, 'partial': r, 'stdout_tail': text[-300:]}
        elif 'code' not in r or 'singles' not in r:
            raise RuntimeError('isolated fleet run failed for %r: %s' % (cases[i], se.decode()[-600:]))
        res[i] = r
    return res


def edit_then_abort_servers():
    """targets whose scan first writes a finding into the rating database (small RSA host key) and then leaves through
    sys.exit(): the reconnect for the next host-key type is answered with a bad block size"""
    res = {}
    for tag, bits in (('J', 1024), ('K', 2048)):
        ok = fn.simple_server(kex=('curve25519-sha256',), key=('rsa-sha2-512', 'rsa-sha2-256', 'ssh-ed25519'), enc=('aes256-ctr',), mac=('hmac-sha2-256-etm@openssh.com',),
                              hostkeys={'rsa-sha2-512': fn.rsa_blob(bits), 'rsa-sha2-256': fn.rsa_blob(bits), 'ssh-ed25519': fn.ed25519_blob()})
        bad = fn.Server(raw_after_banner=b'\x00\x00\x00\x0d\x04' + b'\x14' + b'\x00' * 29)
        res[tag] = fn.StagedServer([ok, ok, bad])
    return res


def ip_of(i):
    return '10.7.%d.%d' % (i // 200, 1 + i % 200)


def fresh_copy(srv):
    """servers keep logs; give every run its own instance"""
    import copy
    s = copy.copy(srv)
    s.log, s.gexlog, s.lock = [], [], threading.Lock()
    return s


def run_targets(names, servers, threads=1, extra=(), unresolvable=(), gate=None, policy=None, rate=False):
    """Runs the real main() with -T on the named archetypes (one IP each, in list order). Returns (exit, stdout, ips)."""
    ips = [ip_of(i) for i in range(len(names))]
    table = {}
    lines = []
    for ip, n in zip(ips, names):
        if n in unresolvable:
            lines.append('no-such-host-%s.invalid' % ip.replace('.', '-'))
        else:
            table[ip] = fresh_copy(servers[n])
            lines.append(ip)
    net = fn.FakeNet(table)
    net.gate = gate
    fd, path = tempfile.mkstemp(prefix='verif_targets_')
    os.write(fd, ('\n'.join(lines) + '\n').encode())
    os.close(fd)
    try:
        args = ['-n'] + ([] if rate else ['--skip-rate-test']) + ['-T', path, '--threads', str(threads)] + list(extra)
        if policy:
            args += ['-P', policy]
        code, out = fn.run_main(args, net)
    finally:
        os.unlink(path)
    return code, out, lines, net


def run_single(name, servers, ip, extra=(), unresolvable=False, policy=None, rate=False):
    # `ip` may carry a port ('10.8.7.1:2222'): the scripted server then answers on that address whatever the port
    table = {} if unresolvable else {ip.split(':')[0]: fresh_copy(servers[name])}
    host = ('no-such-host-%s.invalid' % ip.replace('.', '-')) if unresolvable else ip
    args = ['-n'] + ([] if rate else ['--skip-rate-test']) + list(extra)
    if policy:
        args += ['-P', policy]
    code, out = fn.run_main(args + [host], fn.FakeNet(table))
    return code, out


def server_from_spec(spec):
    """a scripted target from a JSON-able description (used for randomly generated fleets, here and in the isolated reference processes)"""
    hostkeys = {}
    for t in spec['key']:
        if t in ('ssh-rsa', 'rsa-sha2-256', 'rsa-sha2-512'):
            hostkeys[t] = fn.rsa_blob(spec.get('rsa_bits', 3072))
        elif t == 'ssh-ed25519':
            hostkeys[t] = fn.ed25519_blob()
        elif t == 'ssh-dss':
            hostkeys[t] = fn.dss_blob(1024)
    gb = spec.get('gex_bits')
    return fn.simple_server(kex=tuple(spec['kex']), key=tuple(spec['key']), enc=tuple(spec['enc']), mac=tuple(spec['mac']), banner=spec['banner'].encode(), hostkeys=hostkeys,
                            gex=(lambda mn, pf, mx: gb if gb and mn <= gb <= mx else (None if not gb or mx < gb else gb)))


def gen_spec(r, db):
    pool = {c: [n for n in db[c] if ',' not in n] for c in ('kex', 'key', 'enc', 'mac')}
    kex = r.sample(['curve25519-sha256', 'diffie-hellman-group-exchange-sha256', 'diffie-hellman-group-exchange-sha1', 'diffie-hellman-group14-sha256', 'ecdh-sha2-nistp256',
                    'kex-strict-s-v00@openssh.com', 'sntrup761x25519-sha512@openssh.com', 'diffie-hellman-group1-sha1'], r.randint(1, 4)) + r.sample(pool['kex'], r.randint(0, 2))
    key = r.sample(['ssh-rsa', 'rsa-sha2-256', 'rsa-sha2-512', 'ssh-ed25519', 'ssh-dss', 'ecdsa-sha2-nistp256'], r.randint(1, 3))
    enc = r.sample(['chacha20-poly1305@openssh.com', 'aes128-cbc', 'aes256-ctr', '3des-cbc', 'aes256-gcm@openssh.com', 'arcfour', 'none'], r.randint(1, 4)) + r.sample(pool['enc'], r.randint(0, 2))
    mac = r.sample(['hmac-sha2-256-etm@openssh.com', 'hmac-sha1-etm@openssh.com', 'hmac-sha2-256', 'hmac-md5', 'hmac-sha1', 'umac-128-etm@openssh.com'], r.randint(1, 3)) + r.sample(pool['mac'], r.randint(0, 1))
    return {'kex': list(dict.fromkeys(kex)), 'key': key, 'enc': list(dict.fromkeys(enc)), 'mac': list(dict.fromkeys(mac)),
            'banner': r.choice(['SSH-2.0-OpenSSH_8.9p1', 'SSH-2.0-OpenSSH_8.9p1', 'SSH-2.0-OpenSSH_7.4', 'SSH-2.0-dropbear_2020.81', 'SSH-2.0-libssh_0.9.6', 'SSH-2.0-Unknown_1.0']),
            'rsa_bits': r.choice([1024, 2048, 3072, 4096]), 'gex_bits': r.choice([None, 1024, 2048, 3072, 4096])}


ISOLATED_BOOT = r'''
import json, sys
sys.path.insert(0, %(harness)r)
import common
common.repo_src()
from props import multi_common as mc
servers = mc.arch_servers()
servers.update(mc.fail_servers())
servers.update(mc.edit_then_abort_servers())
res = []
for name, ip, extra in json.loads(sys.argv[1]):
    if isinstance(name, dict):
        servers = dict(servers, spec=mc.server_from_spec(name))
        name = 'spec'
    code, out = mc.run_single(name, servers, ip, extra)
    res.append([code, out])
print(json.dumps(res))
'''


def isolated_singles(keys, par=8):
    """single-target reference runs, each in a process of its own (what a user's single-target invocation is): nothing an earlier
    scan left in module- or class-level state can leak into the reference.  keys: [(archetype name, ip, extra args)] -> {key: (exit, stdout)}"""
    import subprocess
    import sys as _sys
    keys = list(dict.fromkeys((n if isinstance(n, str) else json.dumps(n, sort_keys=True), ip, tuple(e)) for n, ip, e in keys))
    here = os.path.dirname(os.path.dirname(os.path.abspath(__file__)))
    boot = ISOLATED_BOOT % {'harness': here}
    procs, out = [], {}
    pending = list(keys)
    while pending or procs:
        while pending and len(procs) < par:
            k = pending.pop(0)
            procs.append((k, subprocess.Popen([_sys.executable, '-c', boot, json.dumps([[json.loads(k[0]) if k[0].startswith('{') else k[0], k[1], list(k[2])]])], stdout=subprocess.PIPE, stderr=subprocess.PIPE,
                                              env=dict(os.environ, PYTHONDONTWRITEBYTECODE='1'))))
        k, pr = procs.pop(0)
        so, se = pr.communicate(timeout=300)
        try:
            code, text = json.loads(so.decode().strip().split('\n')[-1])[0]
        except Exception:
            raise RuntimeError('isolated reference run failed for %r: %s' % (k, se.decode()[-400:]))
        out[k] = (code, text)
    return out


def split_text_blocks(out):
    """stdout of a text multi-target run -> list of blocks (the 80-dash rule separates them)"""
    sep = '\n' + DASHES + '\n\n'
    body = out
    blocks = body.split(sep)
    return blocks


def block_target(block):
    for l in block.split('\n'):
        if l.startswith('(gen) target: '):
            return l[len('(gen) target: '):].strip()
        if l.startswith('Host:   '):
            return l[len('Host:   '):].strip()
    return None


def normalise_block(block):
    """a per-target block without the '(gen) target:' line (single-target runs do not print it) and without trailing blank lines"""
    ls = [l for l in block.split('\n') if not l.startswith('(gen) target: ')]
    while ls and ls[-1] == '':
        ls.pop()
    while ls and ls[0] == '':
        ls.pop(0)
    return '\n'.join(ls)


class Scheduler:
    """Forces an interleaving of the connection events (connect / recv) of concurrently scanned targets: `order` is a
    sequence of target IPs; an event of target X may proceed only when X is at the head of the remaining order (or the
    order is exhausted, or nothing moved for `patience` seconds — never deadlocks)."""
    def __init__(self, order, patience=0.5):
        self.order = list(order)
        self.cv = threading.Condition()
        self.patience = patience
        self.forced = 0

    def __call__(self, ev):
        ip = ev[1][0]
        with self.cv:
            if ip not in self.order:
                return
            waited = 0.0
            while self.order and self.order[0] != ip and ip in self.order:
                if not self.cv.wait(timeout=0.05):
                    waited += 0.05
                    if waited >= self.patience:
                        # the thread at the head is not going to move (finished or blocked elsewhere): skip its tokens
                        self.order.pop(0)
                        waited = 0.0
                        self.cv.notify_all()
            if self.order and self.order[0] == ip:
                self.order.pop(0)
                self.forced += 1
            self.cv.notify_all()
