/-
  Helper lemmas for the compatibility / software lines (`Model/Compat.lean`, `Props/C14Compat.lean`):
  * Python's `str <` is a strict total order (`strLt_strictTotal`);
  * `Timeframe` as a function of the *updates* it received: every `_update` is a list of single-slot assignments
    (`setSlot`), the four slots of a product evolve independently (`slotAt_applyAll`), membership is "some update named
    the product" (`contains_applyAll`);
  * `Timeframe.update(versions, for_server)` for a `bool` role as the explicit list of its updates (`updatesOf`,
    `tfUpdate_eq`), `get_ssh_timeframe` as the concatenation over the advertised names (`allUpdates`, `sshTimeframe_eq`);
  * folding the slot rule from an empty slot yields the string-greatest ("from") / string-smallest ("till") of the
    versions offered, which is unique, hence a function of the *set* of versions (`slotFold_spec`, `slotFold_congr`).
-/
import SshAudit.Model.Compat
import SshAudit.Lemmas.Version
namespace SshAudit
namespace Compat
open Version Text

/-! ### `str <` is a strict total order -/

theorem lexLt_strictTotal {α : Type} {lt : α → α → Bool} (h : StrictTotal lt) : StrictTotal (lexLt lt) := by
  refine ⟨?_, ?_, ?_⟩
  · intro a
    induction a with
    | nil => rfl
    | cons x xs ih => simp [lexLt, h.irrefl, ih]
  · intro a
    induction a with
    | nil =>
      intro b c hab hbc
      cases b with
      | nil => simp [lexLt] at hab
      | cons y ys =>
        cases c with
        | nil => simp [lexLt] at hbc
        | cons z zs => simp [lexLt]
    | cons x xs ih =>
      intro b c hab hbc
      cases b with
      | nil => simp [lexLt] at hab
      | cons y ys =>
        cases c with
        | nil => simp [lexLt] at hbc
        | cons z zs =>
          simp only [lexLt] at hab hbc ⊢
          cases hxy : lt x y
          · cases hyx : lt y x
            · have e := h.tri x y hxy hyx
              subst e
              simp only [hxy, Bool.false_eq_true, if_false] at hab
              cases hxz : lt x z
              · cases hzx : lt z x
                · simp only [hxz, hzx, Bool.false_eq_true, if_false] at hbc ⊢
                  exact ih ys zs hab hbc
                · simp [hxz, hzx] at hbc
              · simp
            · simp [hxy, hyx] at hab
          · cases hyz : lt y z
            · cases hzy : lt z y
              · have e := h.tri y z hyz hzy
                subst e
                simp [hxy]
              · simp [hyz, hzy] at hbc
            · simp [h.trans x y z hxy hyz]
  · intro a
    induction a with
    | nil =>
      intro b hab hba
      cases b with
      | nil => rfl
      | cons y ys => simp [lexLt] at hab
    | cons x xs ih =>
      intro b hab hba
      cases b with
      | nil => simp [lexLt] at hba
      | cons y ys =>
        simp only [lexLt] at hab hba
        cases hxy : lt x y
        · cases hyx : lt y x
          · have e := h.tri x y hxy hyx
            subst e
            simp only [hxy, Bool.false_eq_true, if_false] at hab hba
            rw [ih ys hab hba]
          · simp [hyx] at hba
        · simp [hxy] at hab

theorem strLt_strictTotal : StrictTotal strLt := lexLt_strictTotal charLt_strictTotal

theorem strLt_irrefl (a : Str) : strLt a a = false := strLt_strictTotal.irrefl a

theorem strLt_asymm (a b : Str) (h : strLt a b = true) : strLt b a = false := by
  cases hb : strLt b a
  · rfl
  · have := strLt_strictTotal.trans a b a h hb
    rw [strLt_irrefl] at this; cases this

/-! ### the storage of a `Timeframe` -/

/-- slot `pos` of `self[product]` -/
def slotAt (tf : Timeframe) (p : Str) (pos : Nat) : Option Str := (tfGet tf p).getD pos none

/-- every stored product has its four slots (true of every time frame the code builds) -/
def Wf (tf : Timeframe) : Prop := ∀ kv ∈ tf, kv.2.length = 4

theorem wf_nil : Wf [] := by intro kv h; cases h

/-- the body of the second loop of `_update` for one `(product, version)` pair -/
def setSlot (tf : Timeframe) (p : Str) (pos : Nat) (v : Str) : Timeframe :=
  let tf' := if tfContains tf p then tf else tf ++ [(p, none4)]
  let slots := tfGet tf' p
  dictSet tf' p (slots.set pos (slotStep pos (slots.getD pos none) v))

theorem tfGet_cons (kv : Str × List (Option Str)) (tf : Timeframe) (p : Str) :
    tfGet (kv :: tf) p = if kv.1 = p then kv.2 else tfGet tf p := by
  simp only [tfGet, List.find?_cons]
  by_cases h : kv.1 = p <;> simp [h]

theorem tfContains_cons (kv : Str × List (Option Str)) (tf : Timeframe) (p : Str) :
    tfContains (kv :: tf) p = (decide (kv.1 = p) || tfContains tf p) := by
  simp [tfContains]

theorem tfGet_not_contained (tf : Timeframe) (p : Str) (h : tfContains tf p = false) : tfGet tf p = none4 := by
  induction tf with
  | nil => rfl
  | cons kv tf ih =>
    rw [tfContains_cons] at h
    simp only [Bool.or_eq_false_iff, decide_eq_false_iff_not] at h
    rw [tfGet_cons, if_neg h.1, ih h.2]

theorem tfGet_append_new (tf : Timeframe) (p q : Str) (h : tfContains tf p = false) :
    tfGet (tf ++ [(p, none4)]) q = tfGet tf q := by
  induction tf with
  | nil =>
    simp only [List.nil_append, tfGet_cons]
    split <;> rfl
  | cons kv tf ih =>
    rw [tfContains_cons] at h
    simp only [Bool.or_eq_false_iff, decide_eq_false_iff_not] at h
    simp only [List.cons_append, tfGet_cons, ih h.2]

theorem tfContains_append_new (tf : Timeframe) (p q : Str) :
    tfContains (tf ++ [(p, none4)]) q = (tfContains tf q || decide (p = q)) := by
  simp [tfContains]

theorem tfGet_map_set (tf : Timeframe) (p q : Str) (x : List (Option Str)) :
    tfGet (tf.map (fun kv => if kv.1 = p then (kv.1, x) else kv)) q =
      if q = p then (if tfContains tf p then x else none4) else tfGet tf q := by
  induction tf with
  | nil => simp [tfGet, tfContains]
  | cons kv tf ih =>
    simp only [List.map_cons, tfGet_cons, tfContains_cons, ih]
    by_cases h1 : kv.1 = p
    · by_cases h2 : q = p
      · subst h2; simp [h1]
      · have : ¬ p = q := fun e => h2 e.symm
        simp [h1, h2, this]
    · by_cases h2 : q = p
      · subst h2; simp [h1]
      · simp [h1, h2]

theorem tfContains_map_set (tf : Timeframe) (p q : Str) (x : List (Option Str)) :
    tfContains (tf.map (fun kv => if kv.1 = p then (kv.1, x) else kv)) q = tfContains tf q := by
  induction tf with
  | nil => rfl
  | cons kv tf ih =>
    simp only [List.map_cons, tfContains_cons, ih]
    by_cases h1 : kv.1 = p <;> simp [h1]

theorem dictSet_contained (tf : Timeframe) (p : Str) (x : List (Option Str)) (h : tfContains tf p = true) :
    dictSet tf p x = tf.map (fun kv => if kv.1 = p then (kv.1, x) else kv) := by
  unfold dictSet
  have : (tf.any fun kv => decide (kv.1 = p)) = true := h
  simp [this]

theorem setSlot_get (tf : Timeframe) (p : Str) (pos : Nat) (v : Str) (q : Str) :
    tfGet (setSlot tf p pos v) q =
      if q = p then (tfGet tf p).set pos (slotStep pos ((tfGet tf p).getD pos none) v) else tfGet tf q := by
  unfold setSlot
  by_cases hc : tfContains tf p = true
  · simp only [hc, if_true]
    rw [dictSet_contained _ _ _ hc, tfGet_map_set, hc]
    simp
  · have hc' : tfContains tf p = false := by simpa using hc
    have hn : tfContains (tf ++ [(p, none4)]) p = true := by simp [tfContains_append_new]
    simp only [hc', Bool.false_eq_true, if_false]
    rw [dictSet_contained _ _ _ hn, tfGet_map_set, hn]
    simp only [tfGet_append_new tf p _ hc', if_true]

theorem setSlot_contains (tf : Timeframe) (p : Str) (pos : Nat) (v : Str) (q : Str) :
    tfContains (setSlot tf p pos v) q = (tfContains tf q || decide (p = q)) := by
  unfold setSlot
  by_cases hc : tfContains tf p = true
  · simp only [hc, if_true]
    rw [dictSet_contained _ _ _ hc, tfContains_map_set]
    by_cases e : p = q
    · subst e; simp [hc]
    · simp [e]
  · have hc' : tfContains tf p = false := by simpa using hc
    have hn : tfContains (tf ++ [(p, none4)]) p = true := by simp [tfContains_append_new]
    simp only [hc', Bool.false_eq_true, if_false]
    rw [dictSet_contained _ _ _ hn, tfContains_map_set, tfContains_append_new]

theorem tfGet_length (tf : Timeframe) (hw : Wf tf) (p : Str) : (tfGet tf p).length = 4 := by
  induction tf with
  | nil => rfl
  | cons kv tf ih =>
    rw [tfGet_cons]
    split
    · exact hw kv (by simp)
    · exact ih (fun x hx => hw x (by simp [hx]))

theorem dictSet_wf (tf : Timeframe) (hw : Wf tf) (p : Str) (x : List (Option Str)) (hx : x.length = 4) : Wf (dictSet tf p x) := by
  intro kv hkv
  unfold dictSet at hkv
  split at hkv
  · simp only [List.mem_map] at hkv
    obtain ⟨kv0, h0, e⟩ := hkv
    split at e
    · subst e; exact hx
    · subst e; exact hw kv0 h0
  · simp only [List.mem_append, List.mem_singleton] at hkv
    rcases hkv with h | h
    · exact hw kv h
    · subst h; exact hx

theorem setSlot_wf (tf : Timeframe) (hw : Wf tf) (p : Str) (pos : Nat) (v : Str) : Wf (setSlot tf p pos v) := by
  have hw' : Wf (if tfContains tf p then tf else tf ++ [(p, none4)]) := by
    split
    · exact hw
    · intro kv hkv
      simp only [List.mem_append, List.mem_singleton] at hkv
      rcases hkv with h | h
      · exact hw kv h
      · subst h; rfl
  exact dictSet_wf _ hw' p _ (by simp [tfGet_length _ hw' p])

/-- one assignment changes exactly one slot of one product, by the slot rule -/
theorem setSlot_slotAt (tf : Timeframe) (hw : Wf tf) (p : Str) (pos : Nat) (hpos : pos < 4) (v : Str) (q : Str) (pos' : Nat) :
    slotAt (setSlot tf p pos v) q pos' =
      if q = p ∧ pos' = pos then slotStep pos (slotAt tf p pos) v else slotAt tf q pos' := by
  unfold slotAt
  rw [setSlot_get]
  by_cases hq : q = p
  · subst hq
    simp only [if_true, true_and]
    have hl := tfGet_length tf hw q
    by_cases hp : pos' = pos
    · subst hp
      simp [List.getD_eq_getElem?_getD, hl, hpos]
    · have : ¬ pos = pos' := fun e => hp e.symm
      simp [List.getD_eq_getElem?_getD, this, hp]
  · simp [hq]

/-! ### a time frame as the result of a list of updates -/

/-- `(product, slot, version)`: one assignment of `_update` -/
abbrev Upd := Str × Nat × Str

def applyAll (tf : Timeframe) (us : List Upd) : Timeframe := us.foldl (fun tf u => setSlot tf u.1 u.2.1 u.2.2) tf

/-- the versions offered to slot `pos` of product `p`, in order -/
def picks (us : List Upd) (p : Str) (pos : Nat) : List Str :=
  (us.filter (fun u => decide (u.1 = p) && decide (u.2.1 = pos))).map (·.2.2)

theorem applyAll_nil (tf : Timeframe) : applyAll tf [] = tf := rfl
theorem applyAll_cons (tf : Timeframe) (u : Upd) (us : List Upd) :
    applyAll tf (u :: us) = applyAll (setSlot tf u.1 u.2.1 u.2.2) us := rfl
theorem applyAll_append (tf : Timeframe) (us vs : List Upd) : applyAll tf (us ++ vs) = applyAll (applyAll tf us) vs := by
  simp [applyAll, List.foldl_append]

theorem picks_append (us vs : List Upd) (p : Str) (pos : Nat) : picks (us ++ vs) p pos = picks us p pos ++ picks vs p pos := by
  simp [picks]

theorem mem_picks (us : List Upd) (p : Str) (pos : Nat) (v : Str) : v ∈ picks us p pos ↔ (p, pos, v) ∈ us := by
  simp only [picks, List.mem_map, List.mem_filter, Bool.and_eq_true, decide_eq_true_eq]
  constructor
  · rintro ⟨⟨a, b, c⟩, ⟨h, e1, e2⟩, e3⟩
    simp only at e1 e2 e3
    subst e1; subst e2; subst e3; exact h
  · intro h
    exact ⟨(p, pos, v), ⟨h, rfl, rfl⟩, rfl⟩

theorem applyAll_wf (tf : Timeframe) (hw : Wf tf) (us : List Upd) : Wf (applyAll tf us) := by
  induction us generalizing tf with
  | nil => exact hw
  | cons u us ih => exact ih _ (setSlot_wf tf hw _ _ _)

/-- **the four slots of every product evolve independently**: slot `pos` of product `p` is the slot rule folded
    over the versions offered to exactly that slot, in order -/
theorem slotAt_applyAll (tf : Timeframe) (hw : Wf tf) (us : List Upd) (hpos : ∀ u ∈ us, u.2.1 < 4) (p : Str) (pos : Nat) :
    slotAt (applyAll tf us) p pos = (picks us p pos).foldl (slotStep pos) (slotAt tf p pos) := by
  induction us generalizing tf with
  | nil => rfl
  | cons u us ih =>
    rw [applyAll_cons, ih _ (setSlot_wf tf hw _ _ _) (fun x hx => hpos x (by simp [hx]))]
    rw [setSlot_slotAt tf hw _ _ (hpos u (by simp))]
    by_cases h : u.1 = p ∧ u.2.1 = pos
    · obtain ⟨h1, h2⟩ := h
      subst h1; subst h2
      simp [picks]
    · have hf : (decide (u.1 = p) && decide (u.2.1 = pos)) = false := by
        simp only [Bool.and_eq_false_iff, decide_eq_false_iff_not]
        by_cases h1 : u.1 = p
        · exact Or.inr (fun h2 => h ⟨h1, h2⟩)
        · exact Or.inl h1
      have hn : ¬ (p = u.1 ∧ pos = u.2.1) := fun ⟨a, b⟩ => h ⟨a.symm, b.symm⟩
      simp [picks, hf, hn]

theorem contains_applyAll (tf : Timeframe) (us : List Upd) (p : Str) :
    tfContains (applyAll tf us) p = (tfContains tf p || us.any (fun u => decide (u.1 = p))) := by
  induction us generalizing tf with
  | nil => simp [applyAll]
  | cons u us ih =>
    rw [applyAll_cons, ih, setSlot_contains]
    simp [Bool.or_assoc]

theorem foldl_applyAll {β : Type} (l : List β) (f : β → List Upd) (tf : Timeframe) :
    l.foldl (fun tf x => applyAll tf (f x)) tf = applyAll tf (l.flatMap f) := by
  induction l generalizing tf with
  | nil => rfl
  | cons x xs ih => simp [List.foldl_cons, ih, applyAll_append]

/-! ### `Timeframe._update` and `Timeframe.update` as update lists -/

/-- the assignments of `_update(versions, pos)` -/
def upd1 (v : Option Str) (pos : Nat) : List Upd := (collectVersions v pos).map (fun pv => (pv.1, pos, pv.2))

theorem tfUpdate1_eq (tf : Timeframe) (v : Option Str) (pos : Nat) : tfUpdate1 tf v pos = applyAll tf (upd1 v pos) := by
  simp only [tfUpdate1, applyAll, upd1, List.foldl_map]
  rfl

/-- the assignments of `update(versions, for_server)` for a `bool` role: a server frame reads `versions[0]` into slot 0
    and `versions[1]` into slot 1; a client frame reads `versions[0]` into slot 2 and into slot 3 `versions[1]` when there
    are exactly two entries, `versions[2]` when there are three or more -/
def updatesOf (vs : List (Option Str)) (forServer : Bool) : List Upd :=
  match forServer, vs with
  | true, [] => []
  | true, [a] => upd1 a 0
  | true, a :: b :: _ => upd1 a 0 ++ upd1 b 1
  | false, [] => []
  | false, [a] => upd1 a 2
  | false, [a, b] => upd1 a 2 ++ upd1 b 3
  | false, a :: _ :: c :: _ => upd1 a 2 ++ upd1 c 3

theorem tfUpdate_eq (tf : Timeframe) (vs : List (Option Str)) (forServer : Bool) :
    tfUpdate tf vs (some forServer) = applyAll tf (updatesOf vs forServer) := by
  cases forServer
  · match vs with
    | [] => rfl
    | [a] => simp [tfUpdate, updatesOf, List.range, List.range.loop, tfUpdate1_eq]
    | [a, b] => simp [tfUpdate, updatesOf, List.range, List.range.loop, tfUpdate1_eq, applyAll_append]
    | a :: b :: c :: rest =>
      have : min 3 (rest.length + 1 + 1 + 1) = 3 := by omega
      simp [tfUpdate, updatesOf, this, List.range, List.range.loop, tfUpdate1_eq, applyAll_append]
  · match vs with
    | [] => rfl
    | [a] => simp [tfUpdate, updatesOf, List.range, List.range.loop, tfUpdate1_eq]
    | [a, b] => simp [tfUpdate, updatesOf, List.range, List.range.loop, tfUpdate1_eq, applyAll_append]
    | a :: b :: c :: rest =>
      have : min 3 (rest.length + 1 + 1 + 1) = 3 := by omega
      simp [tfUpdate, updatesOf, this, List.range, List.range.loop, tfUpdate1_eq, applyAll_append]

theorem upd1_pos (v : Option Str) (pos : Nat) : ∀ u ∈ upd1 v pos, u.2.1 = pos := by
  intro u hu
  simp only [upd1, List.mem_map] at hu
  obtain ⟨pv, _, e⟩ := hu
  subst e; rfl

theorem updatesOf_pos (vs : List (Option Str)) (forServer : Bool) : ∀ u ∈ updatesOf vs forServer, u.2.1 < 4 := by
  intro u hu
  unfold updatesOf at hu
  split at hu
  all_goals first
    | (cases hu)
    | (have := upd1_pos _ _ u hu; omega)
    | (simp only [List.mem_append] at hu
       rcases hu with h | h <;> (have := upd1_pos _ _ u h; omega))

/-! ### `get_ssh_timeframe` -/

/-- the assignments one advertised name causes (`alg_desc is None`: none) -/
def nameUpdates (db : DB) (forServer : Bool) (cat name : Str) : List Upd :=
  match DBm.lookup db cat name with
  | none => []
  | some e => updatesOf (DBm.versions e) forServer

/-- every assignment of `get_ssh_timeframe(for_server)`, in the order the code performs them -/
def allUpdates (db : DB) (items : List (Str × List Str)) (forServer : Bool) : List Upd :=
  items.flatMap (fun it => it.2.flatMap (nameUpdates db forServer it.1))

theorem sshTimeframe_eq (tf : Timeframe) (db : DB) (items : List (Str × List Str)) (forServer : Bool) :
    sshTimeframe tf db items (some forServer) = applyAll tf (allUpdates db items forServer) := by
  unfold sshTimeframe allUpdates
  have inner : ∀ (cat : Str) (names : List Str) (tf : Timeframe),
      names.foldl (fun tf name => match DBm.lookup db cat name with
        | none => tf
        | some e => tfUpdate tf (DBm.versions e) (some forServer)) tf = applyAll tf (names.flatMap (nameUpdates db forServer cat)) := by
    intro cat names tf
    rw [← foldl_applyAll]
    congr 1
    funext tf name
    unfold nameUpdates
    split
    · rfl
    · exact tfUpdate_eq _ _ _
  rw [← foldl_applyAll]
  congr 1
  funext tf it
  exact inner it.1 it.2 tf

theorem allUpdates_pos (db : DB) (items : List (Str × List Str)) (forServer : Bool) :
    ∀ u ∈ allUpdates db items forServer, u.2.1 < 4 := by
  intro u hu
  simp only [allUpdates, List.mem_flatMap] at hu
  obtain ⟨it, _, name, _, h⟩ := hu
  unfold nameUpdates at h
  split at h
  · cases h
  · exact updatesOf_pos _ _ u h

/-! ### the slot rule folded from an empty slot -/

/-- what a slot holds after the versions `vs` were offered to it, in order -/
def slotFold (pos : Nat) (vs : List Str) : Option Str := vs.foldl (slotStep pos) none

/-- `r` is not beaten by `v` under the rule of slot `pos`: even slots keep the string-greater, odd slots the string-smaller -/
def beats (pos : Nat) (v r : Str) : Bool := if pos % 2 = 0 then strLt r v else strLt v r

theorem slotStep_some (pos : Nat) (p v : Str) : slotStep pos (some p) v = some (if beats pos v p then v else p) := by
  unfold slotStep beats
  have : pos % 2 = 0 ∨ pos % 2 = 1 := by omega
  rcases this with h | h <;> simp [h] <;> split <;> simp_all

theorem beats_irrefl (pos : Nat) (a : Str) : beats pos a a = false := by
  unfold beats; split <;> exact strLt_irrefl a

theorem beats_trans (pos : Nat) (a b c : Str) (h1 : beats pos a b = true) (h2 : beats pos b c = true) : beats pos a c = true := by
  unfold beats at *
  split at h1
  · simp only [*, if_true] at *
    exact strLt_strictTotal.trans c b a h2 h1
  · simp only [*, if_false] at *
    exact strLt_strictTotal.trans a b c h1 h2

theorem beats_tri (pos : Nat) (a b : Str) (h1 : beats pos a b = false) (h2 : beats pos b a = false) : a = b := by
  unfold beats at *
  split at h1
  · simp only [*, if_true] at *
    exact strLt_strictTotal.tri a b h2 h1
  · simp only [*, if_false] at *
    exact strLt_strictTotal.tri a b h1 h2

theorem beats_asymm (pos : Nat) (a b : Str) (h : beats pos a b = true) : beats pos b a = false := by
  cases hb : beats pos b a
  · rfl
  · have := beats_trans pos a b a h hb
    rw [beats_irrefl] at this; cases this

theorem foldl_slotStep_some (pos : Nat) (p : Str) (vs : List Str) :
    ∃ r, vs.foldl (slotStep pos) (some p) = some r ∧ r ∈ p :: vs ∧ ∀ v ∈ p :: vs, beats pos v r = false := by
  induction vs generalizing p with
  | nil => exact ⟨p, rfl, by simp, by intro v hv; simp at hv; subst hv; exact beats_irrefl pos v⟩
  | cons x xs ih =>
    rw [List.foldl_cons, slotStep_some]
    obtain ⟨r, hr, hmem, hall⟩ := ih (if beats pos x p then x else p)
    refine ⟨r, hr, ?_, ?_⟩
    · simp only [List.mem_cons] at hmem ⊢
      rcases hmem with h | h
      · rw [h]; split <;> simp
      · exact Or.inr (Or.inr h)
    · intro v hv
      simp only [List.mem_cons] at hv
      have hm := hall (if beats pos x p then x else p) (by simp)
      -- `m` (the survivor of `p` and `x`) is not beaten by either of them, and `r` is not beaten by `m`
      have key : ∀ w, beats pos w (if beats pos x p then x else p) = false → beats pos w r = false := by
        intro w hw
        cases hwr : beats pos w r
        · rfl
        · -- w beats r; m does not beat r … then r = m or r beats m; either way w beats m
          cases hrm : beats pos r (if beats pos x p then x else p)
          · have e := beats_tri pos _ _ hm hrm
            rw [← e] at hwr; rw [hwr] at hw; cases hw
          · have := beats_trans pos w r _ hwr hrm
            rw [this] at hw; cases hw
      rcases hv with h | h | h
      · subst h
        apply key
        by_cases hb : beats pos x v = true
        · simp only [hb, if_true]; exact beats_asymm pos x v hb
        · simp only [hb, Bool.false_eq_true, if_false]; exact beats_irrefl pos v
      · subst h
        apply key
        by_cases hb : beats pos v p = true
        · simp only [hb, if_true]; exact beats_irrefl pos v
        · have hb' : beats pos v p = false := by simpa using hb
          simp [hb']
      · exact hall v (by simp [h])

/-- **the slot rule is a maximum / minimum**: an empty slot stays empty only when nothing was offered; otherwise it holds
    one of the offered versions, and none of the offered versions beats it -/
theorem slotFold_spec (pos : Nat) (vs : List Str) :
    (slotFold pos vs = none ↔ vs = []) ∧
    (∀ r, slotFold pos vs = some r → r ∈ vs ∧ ∀ v ∈ vs, beats pos v r = false) := by
  cases vs with
  | nil => simp [slotFold]
  | cons x xs =>
    obtain ⟨r, hr, hmem, hall⟩ := foldl_slotStep_some pos x xs
    have e : slotFold pos (x :: xs) = some r := by
      simp only [slotFold, List.foldl_cons]
      exact hr
    refine ⟨by simp [e], ?_⟩
    intro r' hr'
    rw [e] at hr'
    cases hr'
    exact ⟨hmem, hall⟩

/-- the extremum is unique, so the slot is a function of the *set* of versions offered: order and repetitions do not matter -/
theorem slotFold_congr (pos : Nat) (vs ws : List Str) (h : ∀ v, v ∈ vs ↔ v ∈ ws) : slotFold pos vs = slotFold pos ws := by
  have s1 := slotFold_spec pos vs
  have s2 := slotFold_spec pos ws
  cases h1 : slotFold pos vs with
  | none =>
    have : vs = [] := s1.1.mp h1
    subst this
    have : ws = [] := by
      cases ws with
      | nil => rfl
      | cons w ws => exact absurd ((h w).mpr (by simp)) (by simp)
    subst this; rfl
  | some r =>
    obtain ⟨hm, ha⟩ := s1.2 r h1
    cases h2 : slotFold pos ws with
    | none =>
      have : ws = [] := s2.1.mp h2
      subst this
      exact absurd ((h r).mp hm) (by simp)
    | some r' =>
      obtain ⟨hm', ha'⟩ := s2.2 r' h2
      have e := beats_tri pos r r' (ha' r ((h r).mp hm)) (ha r' ((h r').mpr hm'))
      rw [e]

theorem slotAt_not_contained (tf : Timeframe) (p : Str) (pos : Nat) (h : tfContains tf p = false) : slotAt tf p pos = none := by
  unfold slotAt
  rw [tfGet_not_contained tf p h]
  unfold none4
  match pos with
  | 0 | 1 | 2 | 3 => rfl
  | n + 4 => rfl

/-- a slot of the empty time frame -/
theorem slotAt_nil (p : Str) (pos : Nat) : slotAt [] p pos = none := slotAt_not_contained [] p pos rfl

/-! ### the first loop of `_update`: which descriptor of one comma-separated list counts -/

theorem mem_dictSet {β : Type} (d : List (Str × β)) (k : Str) (v : β) (x : Str × β) (h : x ∈ dictSet d k v) : x = (k, v) ∨ x ∈ d := by
  unfold dictSet at h
  split at h
  · simp only [List.mem_map] at h
    obtain ⟨y, hy, e⟩ := h
    split at e
    · rename_i hk
      left; rw [← e, hk]
    · right; rw [← e]; exact hy
  · simp only [List.mem_append, List.mem_singleton] at h
    rcases h with h | h
    · exact Or.inr h
    · exact Or.inl h

theorem keys_dictSet {β : Type} (d : List (Str × β)) (k : Str) (v : β) (p : Str) :
    (dictSet d k v).any (fun kv => decide (kv.1 = p)) = (d.any (fun kv => decide (kv.1 = p)) || decide (k = p)) := by
  unfold dictSet
  split
  · rename_i hk
    have e : (d.map fun kv => if kv.1 = k then (kv.1, v) else kv).any (fun kv => decide (kv.1 = p)) = d.any (fun kv => decide (kv.1 = p)) := by
      rw [List.any_map]
      congr 1
      funext kv
      simp only [Function.comp]
      split <;> rfl
    rw [e]
    by_cases hkp : k = p
    · subst hkp
      have : (d.any fun kv => decide (kv.1 = k)) = true := hk
      simp [this]
    · simp [hkp]
  · simp [List.any_append]

/-- a descriptor is eligible to slot `pos`: it names a version and is not a client-only (`…C`) descriptor in a server slot -/
def eligible (pos : Nat) (d : Str) : Bool := !((getSshVersion d).2.1 = [] || ((getSshVersion d).2.2 && decide (pos < 2)))

/-- the fold of `collectVersions`, from any accumulator -/
def collectFrom (pos : Nat) (acc : List (Str × Str)) (ds : List Str) : List (Str × Str) :=
  ds.foldl (fun acc v =>
    let (prod, ver, cli) := getSshVersion v
    if ver = [] || (cli && decide (pos < 2)) || (!cli && decide (pos > 1) && acc.any (·.1 = prod)) then acc
    else dictSet acc prod ver) acc

theorem collectVersions_eq (v : Option Str) (pos : Nat) : collectVersions v pos = collectFrom pos [] (splitOn ',' (v.getD [])) := rfl

theorem collectFrom_sound (pos : Nat) (acc : List (Str × Str)) (ds : List Str) (x : Str × Str) (h : x ∈ collectFrom pos acc ds) :
    x ∈ acc ∨ ∃ d ∈ ds, eligible pos d = true ∧ (getSshVersion d).1 = x.1 ∧ (getSshVersion d).2.1 = x.2 := by
  induction ds generalizing acc with
  | nil => exact Or.inl h
  | cons d ds ih =>
    simp only [collectFrom, List.foldl_cons] at h
    have h' := ih _ h
    rcases h' with h' | ⟨d', hd', r⟩
    · split at h'
      · exact Or.inl h'
      · rename_i hc
        rcases mem_dictSet _ _ _ _ h' with e | e
        · right
          refine ⟨d, by simp, ?_, ?_, ?_⟩
          · simp only [Bool.or_eq_true, not_or, Bool.not_eq_true] at hc
            simp only [eligible]
            simp only [Bool.not_eq_true', Bool.or_eq_false_iff]
            exact ⟨hc.1.1, hc.1.2⟩
          · rw [e]
          · rw [e]
        · exact Or.inl e
    · exact Or.inr ⟨d', by simp [hd'], r⟩

theorem collectFrom_keys (pos : Nat) (acc : List (Str × Str)) (ds : List Str) (p : Str) :
    (collectFrom pos acc ds).any (fun kv => decide (kv.1 = p)) =
      (acc.any (fun kv => decide (kv.1 = p)) || ds.any (fun d => eligible pos d && decide ((getSshVersion d).1 = p))) := by
  induction ds generalizing acc with
  | nil => simp [collectFrom]
  | cons d ds ih =>
    simp only [collectFrom, List.foldl_cons, List.any_cons]
    have := ih (if ((getSshVersion d).2.1 = [] || ((getSshVersion d).2.2 && decide (pos < 2)) ||
        (!(getSshVersion d).2.2 && decide (pos > 1) && acc.any (·.1 = (getSshVersion d).1))) = true then acc
        else dictSet acc (getSshVersion d).1 (getSshVersion d).2.1)
    simp only [collectFrom] at this
    rw [this]
    split
    · rename_i hc
      simp only [Bool.or_eq_true] at hc
      rcases hc with hc | hc
      · have : eligible pos d = false := by
          simp only [eligible, Bool.not_eq_false']
          simpa using hc
        simp [this]
      · -- a non-client descriptor of a product already present in a client slot: the key is there already
        simp only [Bool.and_eq_true] at hc
        by_cases hp : (getSshVersion d).1 = p
        · have : (acc.any fun kv => decide (kv.1 = p)) = true := by rw [← hp]; exact hc.2
          simp [this]
        · simp [hp]
    · rename_i hc
      simp only [Bool.or_eq_true, not_or, Bool.not_eq_true] at hc
      have ha : eligible pos d = true := by
        simp only [eligible, Bool.not_eq_true', Bool.or_eq_false_iff]
        exact ⟨hc.1.1, hc.1.2⟩
      rw [keys_dictSet]
      simp [ha, Bool.or_assoc]

/-- **which versions a descriptor list contributes to a slot** (soundness): each is the version of an eligible descriptor of
    that product in the list -/
theorem collect_sound (v : Option Str) (pos : Nat) (p ver : Str) (h : (p, ver) ∈ collectVersions v pos) :
    ∃ d ∈ splitOn ',' (v.getD []), eligible pos d = true ∧ (getSshVersion d).1 = p ∧ (getSshVersion d).2.1 = ver := by
  rw [collectVersions_eq] at h
  rcases collectFrom_sound pos [] _ _ h with h | h
  · cases h
  · exact h

/-- … and completeness on the level of products: a product gets a version from the list exactly when the list has an eligible
    descriptor of that product -/
theorem collect_products (v : Option Str) (pos : Nat) (p : Str) :
    (collectVersions v pos).any (fun kv => decide (kv.1 = p)) =
      (splitOn ',' (v.getD [])).any (fun d => eligible pos d && decide ((getSshVersion d).1 = p)) := by
  rw [collectVersions_eq, collectFrom_keys]
  simp

theorem mem_upd1 (v : Option Str) (pos : Nat) (u : Upd) : u ∈ upd1 v pos ↔ u.2.1 = pos ∧ (u.1, u.2.2) ∈ collectVersions v pos := by
  simp only [upd1, List.mem_map]
  constructor
  · rintro ⟨pv, h, e⟩
    subst e
    exact ⟨rfl, h⟩
  · rintro ⟨e, h⟩
    obtain ⟨a, b, c⟩ := u
    simp only at e h
    subst e
    exact ⟨(a, c), h, rfl⟩

/-- every assignment of `update()` comes from one of the entries of the version list -/
theorem updatesOf_mem (vs : List (Option Str)) (fs : Bool) (u : Upd) (h : u ∈ updatesOf vs fs) : ∃ a ∈ vs, u ∈ upd1 a u.2.1 := by
  unfold updatesOf at h
  split at h
  · cases h
  · rename_i a
    exact ⟨a, by simp, by rw [upd1_pos _ _ u h]; exact h⟩
  · rename_i a b rest
    simp only [List.mem_append] at h
    rcases h with h | h
    · exact ⟨a, by simp, by rw [upd1_pos _ _ u h]; exact h⟩
    · exact ⟨b, by simp, by rw [upd1_pos _ _ u h]; exact h⟩
  · cases h
  · rename_i a
    exact ⟨a, by simp, by rw [upd1_pos _ _ u h]; exact h⟩
  · rename_i a b
    simp only [List.mem_append] at h
    rcases h with h | h
    · exact ⟨a, by simp, by rw [upd1_pos _ _ u h]; exact h⟩
    · exact ⟨b, by simp, by rw [upd1_pos _ _ u h]; exact h⟩
  · rename_i a b c rest
    simp only [List.mem_append] at h
    rcases h with h | h
    · exact ⟨a, by simp, by rw [upd1_pos _ _ u h]; exact h⟩
    · exact ⟨c, by simp, by rw [upd1_pos _ _ u h]; exact h⟩

/-! ### split / join the other way round -/

theorem splitOn_ne_nil (c : Char) (s : Str) : splitOn c s ≠ [] := by
  induction s with
  | nil => simp [splitOn]
  | cons x xs ih =>
    simp only [splitOn]
    split
    · simp
    · split
      · simp
      · simp

theorem join_splitOn (c : Char) (s : Str) : join [c] (splitOn c s) = s := by
  induction s with
  | nil => rfl
  | cons x xs ih =>
    simp only [splitOn]
    split
    · rename_i hx
      cases hs : splitOn c xs with
      | nil => exact absurd hs (splitOn_ne_nil c xs)
      | cons p ps =>
        rw [hs] at ih
        simp only [join, List.nil_append, List.singleton_append, ih, hx]
    · cases hs : splitOn c xs with
      | nil => exact absurd hs (splitOn_ne_nil c xs)
      | cons p ps =>
        rw [hs] at ih
        cases ps with
        | nil => simp only [join] at ih ⊢; rw [ih]
        | cons q qs => simp only [join, List.cons_append] at ih ⊢; rw [ih]

/-! ### the database edits of `post_process_findings` leave every version entry alone -/

theorem appendAt_versions (i k : Nat) (t : Str) (d : List (List (Option Str))) (hi : i ≠ 0) :
    (Report.appendAt i k t d).getD 0 [] = d.getD 0 [] := by
  have hi' : ¬ 0 = i := fun e => hi e.symm
  unfold Report.appendAt
  cases d with
  | nil =>
    cases k with
    | zero => simp
    | succ k => simp [List.replicate_succ, List.mapIdx_cons, hi']
  | cons x xs => simp [List.mapIdx_cons, hi']

theorem cat_updateEntry (db : DB) (cat name : Str) (f : List (List (Option Str)) → List (List (Option Str))) (c : Str) :
    DBm.cat (Report.updateEntry db cat name f) c =
      if c = cat then (DBm.cat db c).map (fun e => if e.name = name then { e with desc := f e.desc } else e) else DBm.cat db c := by
  unfold DBm.cat Report.updateEntry
  induction db with
  | nil => simp
  | cons kv db ih =>
    obtain ⟨c', es⟩ := kv
    simp only [List.map_cons, List.find?_cons]
    by_cases h1 : c' = cat
    · subst h1
      by_cases h2 : c' = c
      · subst h2; simp
      · have : ¬ c = c' := fun e => h2 e.symm
        simp only [if_true, h2, decide_false, this, if_false]
        simpa [this] using ih
    · by_cases h2 : c' = c
      · subst h2
        have : ¬ c' = cat := h1
        simp [h1]
      · simp only [h1, if_false, h2, decide_false]
        exact ih

theorem lookup_updateEntry_versions (db : DB) (cat name : Str) (f : List (List (Option Str)) → List (List (Option Str)))
    (hf : ∀ d, (f d).getD 0 [] = d.getD 0 []) (c n : Str) :
    (DBm.lookup (Report.updateEntry db cat name f) c n).map DBm.versions = (DBm.lookup db c n).map DBm.versions := by
  unfold DBm.lookup
  rw [cat_updateEntry]
  split
  · rw [List.find?_map]
    have : ((fun e : Entry => decide (e.name = n)) ∘ fun e => if e.name = name then { e with desc := f e.desc } else e)
        = fun e : Entry => decide (e.name = n) := by
      funext e
      simp only [Function.comp]
      split <;> rfl
    rw [this, Option.map_map]
    congr 1
    funext e
    simp only [Function.comp]
    split
    · simp only [DBm.versions, DBm.slot, hf]
    · rfl
  · rfl

theorem postProcess_versions (db : DB) (peer : Report.Peer) (client : Bool) (sw : Option Str) (rate : Str) (c n : Str) :
    (DBm.lookup (Report.postProcess db peer client sw rate).db c n).map DBm.versions = (DBm.lookup db c n).map DBm.versions := by
  have hfold : ∀ (cat : Str) (names : List Str) (d : DB),
      (DBm.lookup (names.foldl (fun d n => Report.addTerrapin d cat n) d) c n).map DBm.versions = (DBm.lookup d c n).map DBm.versions := by
    intro cat names
    induction names with
    | nil => intro d; rfl
    | cons x xs ih =>
      intro d
      rw [List.foldl_cons, ih]
      exact lookup_updateEntry_versions d cat x _ (fun d => appendAt_versions 2 3 _ d (by decide)) c n
  have hfb : (DBm.lookup (Report.dbAfterFallback db peer sw) c n).map DBm.versions = (DBm.lookup db c n).map DBm.versions := by
    unfold Report.dbAfterFallback
    split
    · exact lookup_updateEntry_versions db _ _ _ (fun d => appendAt_versions 3 4 _ d (by decide)) c n
    · rfl
  show (DBm.lookup (Report.dbAfterTerrapin (Report.dbAfterFallback db peer sw) peer client) c n).map DBm.versions = _
  unfold Report.dbAfterTerrapin
  split
  · exact hfb
  · rw [hfold, hfold, hfb]

/-! ### small facts used by the property file -/

theorem stripPrefix?_append (p r : Str) : stripPrefix? p (p ++ r) = some r := by
  induction p with
  | nil => cases r <;> rfl
  | cons x xs ih => simp [stripPrefix?, ih]

theorem stripPrefix?_head_ne (x : Char) (xs : Str) (c : Char) (cs : Str) (h : x ≠ c) : stripPrefix? (x :: xs) (c :: cs) = none := by
  simp [stripPrefix?, h]

theorem dotStar_noNl (pa : Str) (h : '\n' ∉ pa) : dotStar pa = pa := by
  apply takeWhile_all
  intro a ha
  simp only [notNl, bne_iff_ne, ne_eq]
  intro e; subst e; exact h ha

theorem verPrefix_render (ds : List Str) (h : WfDs ds) (h2 : 2 ≤ (render ds).length) (pa : Str) (hp : PatchShape pa) :
    verPrefix (render ds ++ pa) = some (render ds, pa) := by
  unfold verPrefix verPrefixN
  simp only [takeWhile_render_append ds h pa hp.head, stripDots_render ds h, h2, if_true, List.drop_left]

theorem nameVer_hit (name : Str) (ds : List Str) (h : WfDs ds) (h2 : 2 ≤ (render ds).length) (pa : Str) (hp : PatchShape pa) :
    nameVer name (name ++ (render ds ++ pa)) = some (render ds, pa) := by
  unfold nameVer
  rw [stripPrefix?_append]
  simp only [verPrefix_render ds h h2 pa hp, Option.map_some, dotStar_noNl pa hp.noNl]

theorem nameVer_miss (x : Char) (xs : Str) (c : Char) (cs : Str) (h : x ≠ c) : nameVer (x :: xs) (c :: cs) = none := by
  unfold nameVer
  rw [stripPrefix?_head_ne x xs c cs h]

theorem pPatchSplit_g1 (x g1 g2 : Str) (h : pPatchSplit x = some (g1, g2)) : ∃ d, g1 = ['p', d] := by
  unfold pPatchSplit at h
  split at h
  · next d rest =>
    split at h
    · cases hdt : dotTail rest with
      | none => rw [hdt] at h; cases h
      | some tt =>
        rw [hdt] at h
        simp only [Option.map_some, Option.some.injEq, Prod.mk.injEq] at h
        exact ⟨d, h.1.symm⟩
    · cases h
  · cases h

theorem lookup_mem (db : DB) (c n : Str) (e : Entry) (h : DBm.lookup db c n = some e) : ∃ kv ∈ db, e ∈ kv.2 := by
  unfold DBm.lookup DBm.cat at h
  cases hf : db.find? (fun x => decide (x.1 = c)) with
  | none => simp [hf] at h
  | some kv =>
    rw [hf] at h
    exact ⟨kv, List.mem_of_find?_eq_some hf, List.mem_of_find?_eq_some h⟩

theorem picks_eq_nil (us : List Upd) (p : Str) (pos : Nat) (h : ∀ v, (p, pos, v) ∉ us) : picks us p pos = [] := by
  apply List.eq_nil_iff_forall_not_mem.mpr
  intro v hv
  exact h v ((mem_picks us p pos v).mp hv)

theorem allUpdates_append (db : DB) (items more : List (Str × List Str)) (fs : Bool) :
    allUpdates db (items ++ more) fs = allUpdates db items fs ++ allUpdates db more fs := by
  simp [allUpdates]

theorem allUpdates_single (db : DB) (c n : Str) (fs : Bool) : allUpdates db [(c, [n])] fs = nameUpdates db fs c n := by
  simp [allUpdates]

theorem updatesOf_nil (fs : Bool) : updatesOf [] fs = [] := by cases fs <;> rfl

end Compat
end SshAudit
