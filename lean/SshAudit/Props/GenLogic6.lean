/-
  Regenerated logic against the hand-written model, sixth unit (round 17): the KEXINIT writer (C10).

  `Gen.Logic.kex_write` is `SSH2_Kex.write` as `harness/translate_logic.py` reads it from the source on every run: a procedure of thirteen calls of
  the `WriteBuf` methods `write`, `write_list`, `write_bool`, `write_int` (external: parameters over an abstract buffer state), in the order of
  the source, each with the attribute of the message it is handed (`self.cookie`, `self.kex_algorithms`, …, `self.client.mac`, `self.server.mac`,
  …, `self.follows`, `self.__unused`; the properties of `SSH2_Kex` / `SSH2_KexParty` are read as plain attributes).  `kex_write_eq_model`
  instantiates the four methods with the model's writers (`Wire.writeList` after an arbitrary encoding `enc` of a name, `Wire.writeBool`,
  `Wire.writeInt`; an exception is the error state, which every later call leaves as it is) and says that the procedure then produces exactly
  `Wire.kexWrite` of the message — the function the KEXINIT round-trip theorems of C10 (`kex_rt`, `kex_reencode`) are about.  Two fields swapped, one written twice or one
  left out in the source, and the theorem no longer checks.

  The second half does the same for `SSH2_Kex.parse` (the thirteen reads from `cookie = buf.read(16)` to `unused = buf.read_int()`; the objects built from
  the locals afterwards are outside the selection) against `Wire.kexParse`, and composes the two regenerated procedures (`regenerated_kexinit_roundtrip`).
  The last part: `SSH1_PublicKeyMessage.write` / `.parse` (the ten writes; the ten reads, the tuples `skey` / `hkey` built in between are outside the
  selection) against `Wire.pkmWrite` / `Wire.pkmParse`.
-/
import SshAudit.Gen.Logic6
import SshAudit.Model.Wire
import SshAudit.Props.C10
namespace SshAudit.GenLogic
open SshAudit

/-- `wbuf.write(b)` on the model's buffer state -/
def xWrite (st : Wire.W) (b : Bytes) : Wire.W := do let acc ← st; pure (acc ++ b)
/-- `wbuf.write_list(names)` -/
def xWriteList (enc : Str → Bytes) (st : Wire.W) (names : List Str) : Wire.W := do
  let acc ← st; let x ← Wire.writeList (names.map enc); pure (acc ++ x)
/-- `wbuf.write_bool(v)` -/
def xWriteBool (st : Wire.W) (v : Bool) : Wire.W := do let acc ← st; pure (acc ++ Wire.writeBool v)
/-- `wbuf.write_int(v)` (`struct.pack('>I', v)` raises for a negative value too) -/
def xWriteInt (st : Wire.W) (v : Int) : Wire.W := do
  let acc ← st; let x ← (if 0 ≤ v then Wire.writeInt v.toNat else .error .struct); pure (acc ++ x)

theorem kex_write_eq_model (enc : Str → Bytes) (cookie : Bytes) (kex key encC encS macC macS compC compS langC langS : List Str)
    (follows : Bool) (unused : Nat) :
    (Gen.Logic.kex_write xWrite (xWriteList enc) xWriteBool xWriteInt (.ok []) cookie kex key encC encS macC macS compC compS langC langS
        follows (unused : Int)).2
      = Wire.kexWrite { cookie := cookie, kex := kex.map enc, key := key.map enc, encC := encC.map enc, encS := encS.map enc,
                        macC := macC.map enc, macS := macS.map enc, compC := compC.map enc, compS := compS.map enc,
                        langC := langC.map enc, langS := langS.map enc, follows := follows, unused := unused } := by
  unfold Gen.Logic.kex_write Wire.kexWrite
  simp only [xWrite, xWriteList, xWriteBool, xWriteInt, Int.natCast_nonneg, if_true, Int.toNat_natCast]
  generalize Wire.writeList (kex.map enc) = w1
  generalize Wire.writeList (key.map enc) = w2
  generalize Wire.writeList (encC.map enc) = w3
  generalize Wire.writeList (encS.map enc) = w4
  generalize Wire.writeList (macC.map enc) = w5
  generalize Wire.writeList (macS.map enc) = w6
  generalize Wire.writeList (compC.map enc) = w7
  generalize Wire.writeList (compS.map enc) = w8
  generalize Wire.writeList (langC.map enc) = w9
  generalize Wire.writeList (langS.map enc) = w10
  generalize Wire.writeInt unused = w11
  rcases w1 with e | a1
  · rfl
  rcases w2 with e | a2
  · rfl
  rcases w3 with e | a3
  · rfl
  rcases w4 with e | a4
  · rfl
  rcases w5 with e | a5
  · rfl
  rcases w6 with e | a6
  · rfl
  rcases w7 with e | a7
  · rfl
  rcases w8 with e | a8
  · rfl
  rcases w9 with e | a9
  · rfl
  rcases w10 with e | a10
  · rfl
  rcases w11 with e | a11
  · rfl
  rfl

/-- the hypotheses are met by a real message: the default KEXINIT-like lists, written through the regenerated procedure -/
example : (Gen.Logic.kex_write xWrite (xWriteList (fun s => s.map (fun c => UInt8.ofNat c.toNat))) xWriteBool xWriteInt (.ok [])
      [1, 2] ["a".toList, "bc".toList] [] [] [] [] [] [] [] [] [] true 7).2
    = .ok [1, 2, 0, 0, 0, 4, 97, 44, 98, 99, 0, 0, 0, 0, 0, 0, 0, 0, 0, 0, 0, 0, 0, 0, 0, 0, 0, 0, 0, 0, 0, 0, 0, 0, 0, 0, 0, 0, 0, 0, 0, 0, 0, 0, 0, 0, 1, 0, 0, 0, 7] := by
  decide

/-! ### `SSH2_Kex.parse` -/

/-- the model's reading state: the unread bytes, or the exception that was raised -/
abbrev R := Except Exn Bytes

/-- `buf.read(n)` (clamps; `n` is the literal 16 here) -/
def xRead (st : R) (n : Int) : Bytes × R :=
  match st with
  | .ok bs => ((Wire.read n.toNat bs).1, .ok (Wire.read n.toNat bs).2)
  | .error e => ([], .error e)
/-- `buf.read_list()`: the names, each decoded by `dec` -/
def xReadList (dec : Bytes → Str) (st : R) : List Str × R :=
  match st with
  | .ok bs => (match Wire.readList bs with
      | .ok (l, r) => (l.map dec, .ok r)
      | .error e => ([], .error e))
  | .error e => ([], .error e)
/-- `buf.read_bool()` -/
def xReadBool (st : R) : Bool × R :=
  match st with
  | .ok bs => (match Wire.readBool bs with
      | .ok (b, r) => (b, .ok r)
      | .error e => (false, .error e))
  | .error e => (false, .error e)
/-- `buf.read_int()` -/
def xReadInt (st : R) : Int × R :=
  match st with
  | .ok bs => (match Wire.readInt bs with
      | .ok (v, r) => ((v : Int), .ok r)
      | .error e => (0, .error e))
  | .error e => (0, .error e)

/-- `SSH2_Kex.parse` as regenerated, run on the model's readers, against `Wire.kexParse`: when the model parses the payload, the thirteen locals
    are the model's fields in the model's order (names decoded one by one) and no exception was raised; when the model raises, so does the
    procedure (the state it ends in is that exception) -/
theorem kex_parse_eq_model (dec : Bytes → Str) (bs : Bytes) :
    match Wire.kexParse bs with
    | .ok k => ∃ rest, Gen.Logic.kex_parse xRead (xReadList dec) xReadBool xReadInt (.ok bs)
        = (some (k.cookie, k.kex.map dec, k.key.map dec, k.encC.map dec, k.encS.map dec, k.macC.map dec, k.macS.map dec,
                 k.compC.map dec, k.compS.map dec, k.langC.map dec, k.langS.map dec, k.follows, (k.unused : Int)), .ok rest)
    | .error e => (Gen.Logic.kex_parse xRead (xReadList dec) xReadBool xReadInt (.ok bs)).2 = .error e := by
  unfold Wire.kexParse Gen.Logic.kex_parse
  have h16 : (16 : Int).toNat = 16 := rfl
  simp only [xRead, Wire.read, h16]
  rcases h1 : Wire.readList (List.drop 16 bs) with e | ⟨l1, r1⟩
  · simp [xReadList, xReadBool, xReadInt, h1, bind, Except.bind]
  rcases h2 : Wire.readList r1 with e | ⟨l2, r2⟩
  · simp [xReadList, xReadBool, xReadInt, h1, h2, bind, Except.bind]
  rcases h3 : Wire.readList r2 with e | ⟨l3, r3⟩
  · simp [xReadList, xReadBool, xReadInt, h1, h2, h3, bind, Except.bind]
  rcases h4 : Wire.readList r3 with e | ⟨l4, r4⟩
  · simp [xReadList, xReadBool, xReadInt, h1, h2, h3, h4, bind, Except.bind]
  rcases h5 : Wire.readList r4 with e | ⟨l5, r5⟩
  · simp [xReadList, xReadBool, xReadInt, h1, h2, h3, h4, h5, bind, Except.bind]
  rcases h6 : Wire.readList r5 with e | ⟨l6, r6⟩
  · simp [xReadList, xReadBool, xReadInt, h1, h2, h3, h4, h5, h6, bind, Except.bind]
  rcases h7 : Wire.readList r6 with e | ⟨l7, r7⟩
  · simp [xReadList, xReadBool, xReadInt, h1, h2, h3, h4, h5, h6, h7, bind, Except.bind]
  rcases h8 : Wire.readList r7 with e | ⟨l8, r8⟩
  · simp [xReadList, xReadBool, xReadInt, h1, h2, h3, h4, h5, h6, h7, h8, bind, Except.bind]
  rcases h9 : Wire.readList r8 with e | ⟨l9, r9⟩
  · simp [xReadList, xReadBool, xReadInt, h1, h2, h3, h4, h5, h6, h7, h8, h9, bind, Except.bind]
  rcases h10 : Wire.readList r9 with e | ⟨l10, r10⟩
  · simp [xReadList, xReadBool, xReadInt, h1, h2, h3, h4, h5, h6, h7, h8, h9, h10, bind, Except.bind]
  rcases h11 : Wire.readBool r10 with e | ⟨b, r11⟩
  · simp [xReadList, xReadBool, xReadInt, h1, h2, h3, h4, h5, h6, h7, h8, h9, h10, h11, bind, Except.bind]
  rcases h12 : Wire.readInt r11 with e | ⟨u, r12⟩
  · simp [xReadList, xReadBool, xReadInt, h1, h2, h3, h4, h5, h6, h7, h8, h9, h10, h11, h12, bind, Except.bind]
  simp [xReadList, xReadBool, xReadInt, h1, h2, h3, h4, h5, h6, h7, h8, h9, h10, h11, h12, bind, Except.bind, pure, Except.pure]

/-- writer and reader of the KEXINIT message as they stand in the source today, composed: a well-formed message (16-byte cookie, non-empty lists of
    comma-free names, `dec ∘ enc = id` on names, `unused` a 32-bit value that the writer accepts) written by the regenerated `SSH2_Kex.write` is read
    back field by field by the regenerated `SSH2_Kex.parse` -/
theorem regenerated_kexinit_roundtrip (enc : Str → Bytes) (dec : Bytes → Str) (hde : ∀ s, dec (enc s) = s)
    (cookie : Bytes) (kex key encC encS macC macS compC compS langC langS : List Str) (follows : Bool) (unused : Nat) (bs : Bytes)
    (hwf : C10.KexWF { cookie := cookie, kex := kex.map enc, key := key.map enc, encC := encC.map enc, encS := encS.map enc,
                       macC := macC.map enc, macS := macS.map enc, compC := compC.map enc, compS := compS.map enc,
                       langC := langC.map enc, langS := langS.map enc, follows := follows, unused := unused })
    (hw : (Gen.Logic.kex_write xWrite (xWriteList enc) xWriteBool xWriteInt (.ok []) cookie kex key encC encS macC macS compC compS langC langS
            follows (unused : Int)).2 = .ok bs) :
    ∃ rest, Gen.Logic.kex_parse xRead (xReadList dec) xReadBool xReadInt (.ok bs)
      = (some (cookie, kex, key, encC, encS, macC, macS, compC, compS, langC, langS, follows, (unused : Int)), .ok rest) := by
  rw [kex_write_eq_model] at hw
  have hp := C10.kexinit_rt _ bs hwf hw
  have h := kex_parse_eq_model dec bs
  rw [hp] at h
  have hm : ∀ l : List Str, (l.map enc).map dec = l := by
    intro l; rw [List.map_map]; conv => rhs; rw [← List.map_id l]
    apply List.map_congr_left; intro s _; exact hde s
  simpa only [hm] using h

/-- the hypotheses are met: a concrete message goes through the regenerated writer and comes back through the regenerated reader -/
example : ∃ bs, (Gen.Logic.kex_write xWrite (xWriteList (fun s => s.map (fun c => UInt8.ofNat c.toNat))) xWriteBool xWriteInt (.ok [])
        (List.replicate 16 7) ["a".toList, "bc".toList] ["k".toList] ["e".toList] ["f".toList] ["m".toList] ["n".toList] ["none".toList] ["zlib".toList]
        ["".toList] ["".toList] true 9).2 = .ok bs
      ∧ (Gen.Logic.kex_parse xRead (xReadList (fun b => b.map (fun x => Char.ofNat x.toNat))) xReadBool xReadInt (.ok bs)).1
        = some (List.replicate 16 7, ["a".toList, "bc".toList], ["k".toList], ["e".toList], ["f".toList], ["m".toList], ["n".toList], ["none".toList],
                ["zlib".toList], ["".toList], ["".toList], true, 9) :=
  ⟨_, rfl, rfl⟩

/-! ### the SSH-1 public-key message: `SSH1_PublicKeyMessage.write` / `.parse` -/

/-- `wbuf.write_mpint1(v)` (the code accepts any integer: `Wire.writeMpint1Z`) -/
def xWriteMpint1 (st : Wire.W) (v : Int) : Wire.W := do
  let acc ← st; let x ← Wire.writeMpint1Z v; pure (acc ++ x)
/-- `buf.read_mpint1()` -/
def xReadMpint1 (st : R) : Int × R :=
  match st with
  | .ok bs => (match Wire.readMpint1 bs with
      | .ok (v, r) => ((v : Int), .ok r)
      | .error e => (0, .error e))
  | .error e => (0, .error e)

theorem pkm_write_eq_model (p : Wire.Pkm) :
    (Gen.Logic.pkm_write xWrite xWriteInt xWriteMpint1 (.ok []) p.cookie (p.skBits : Int) (p.skE : Int) (p.skN : Int) (p.hkBits : Int) (p.hkE : Int) (p.hkN : Int)
        (p.pflags : Int) (p.cmask : Int) (p.amask : Int)).2 = Wire.pkmWrite p := by
  unfold Gen.Logic.pkm_write Wire.pkmWrite
  simp only [xWrite, xWriteInt, xWriteMpint1, Int.natCast_nonneg, if_true, Int.toNat_natCast, C10.writeMpint1Z_nat]
  generalize Wire.writeInt p.skBits = w1
  generalize Wire.writeMpint1 p.skE = w2
  generalize Wire.writeMpint1 p.skN = w3
  generalize Wire.writeInt p.hkBits = w4
  generalize Wire.writeMpint1 p.hkE = w5
  generalize Wire.writeMpint1 p.hkN = w6
  generalize Wire.writeInt p.pflags = w7
  generalize Wire.writeInt p.cmask = w8
  generalize Wire.writeInt p.amask = w9
  rcases w1 with e | a1
  · rfl
  rcases w2 with e | a2
  · rfl
  rcases w3 with e | a3
  · rfl
  rcases w4 with e | a4
  · rfl
  rcases w5 with e | a5
  · rfl
  rcases w6 with e | a6
  · rfl
  rcases w7 with e | a7
  · rfl
  rcases w8 with e | a8
  · rfl
  rcases w9 with e | a9
  · rfl
  rfl

theorem pkm_parse_eq_model (bs : Bytes) :
    match Wire.pkmParse bs with
    | .ok p => ∃ rest, Gen.Logic.pkm_parse xRead xReadInt xReadMpint1 (.ok bs)
        = (some (p.cookie, (p.skBits : Int), (p.skE : Int), (p.skN : Int), (p.hkBits : Int), (p.hkE : Int), (p.hkN : Int), (p.pflags : Int), (p.cmask : Int),
                 (p.amask : Int)), .ok rest)
    | .error e => (Gen.Logic.pkm_parse xRead xReadInt xReadMpint1 (.ok bs)).2 = .error e := by
  unfold Wire.pkmParse Gen.Logic.pkm_parse
  have h8 : (8 : Int).toNat = 8 := rfl
  simp only [xRead, Wire.read, h8]
  rcases h1 : Wire.readInt (List.drop 8 bs) with e | ⟨v1, r1⟩
  · simp [xReadInt, xReadMpint1, h1, bind, Except.bind]
  rcases h2 : Wire.readMpint1 r1 with e | ⟨v2, r2⟩
  · simp [xReadInt, xReadMpint1, h1, h2, bind, Except.bind]
  rcases h3 : Wire.readMpint1 r2 with e | ⟨v3, r3⟩
  · simp [xReadInt, xReadMpint1, h1, h2, h3, bind, Except.bind]
  rcases h4 : Wire.readInt r3 with e | ⟨v4, r4⟩
  · simp [xReadInt, xReadMpint1, h1, h2, h3, h4, bind, Except.bind]
  rcases h5 : Wire.readMpint1 r4 with e | ⟨v5, r5⟩
  · simp [xReadInt, xReadMpint1, h1, h2, h3, h4, h5, bind, Except.bind]
  rcases h6 : Wire.readMpint1 r5 with e | ⟨v6, r6⟩
  · simp [xReadInt, xReadMpint1, h1, h2, h3, h4, h5, h6, bind, Except.bind]
  rcases h7 : Wire.readInt r6 with e | ⟨v7, r7⟩
  · simp [xReadInt, xReadMpint1, h1, h2, h3, h4, h5, h6, h7, bind, Except.bind]
  rcases h8' : Wire.readInt r7 with e | ⟨v8, r8⟩
  · simp [xReadInt, xReadMpint1, h1, h2, h3, h4, h5, h6, h7, h8', bind, Except.bind]
  rcases h9 : Wire.readInt r8 with e | ⟨v9, r9⟩
  · simp [xReadInt, xReadMpint1, h1, h2, h3, h4, h5, h6, h7, h8', h9, bind, Except.bind]
  simp [xReadInt, xReadMpint1, h1, h2, h3, h4, h5, h6, h7, h8', h9, bind, Except.bind, pure, Except.pure]

/-- SSH-1 public-key message: regenerated `write`, then regenerated `parse`, gives the message back (8-byte cookie, a message the writer accepts) -/
theorem regenerated_pkm_roundtrip (p : Wire.Pkm) (bs : Bytes) (hc : p.cookie.length = 8)
    (hw : (Gen.Logic.pkm_write xWrite xWriteInt xWriteMpint1 (.ok []) p.cookie (p.skBits : Int) (p.skE : Int) (p.skN : Int) (p.hkBits : Int) (p.hkE : Int)
            (p.hkN : Int) (p.pflags : Int) (p.cmask : Int) (p.amask : Int)).2 = .ok bs) :
    ∃ rest, Gen.Logic.pkm_parse xRead xReadInt xReadMpint1 (.ok bs)
      = (some (p.cookie, (p.skBits : Int), (p.skE : Int), (p.skN : Int), (p.hkBits : Int), (p.hkE : Int), (p.hkN : Int), (p.pflags : Int), (p.cmask : Int),
               (p.amask : Int)), .ok rest) := by
  rw [pkm_write_eq_model] at hw
  have h := pkm_parse_eq_model bs
  rw [C10.pkm_rt p bs hc hw] at h
  exact h

end SshAudit.GenLogic
