/-
  C06 — Policy verdicts follow the documented matching rules.

  Model: SshAudit.Model.Policy (`Pol.evaluate`, transcribed from policy.py branch by branch);
  spec: `Pol.Satisfied`, a declarative conjunction written from the README wording.
  All theorems are for arbitrary policies and peers (lists of any length, any sizes).
-/
import SshAudit.Lemmas.Policy
namespace SshAudit.C06
open SshAudit SshAudit.Pol

/-! ### per-stage facts: `ret` after a stage = `ret` before ∧ the stage's condition -/

def okBanner (p : Policy) (peer : Peer) : Bool := match p.banner with | some b => !(peer.bannerStr != b) | none => true
def okComp (p : Policy) (peer : Peer) : Bool := match p.compressions with | some c => !(peer.comp != c) | none => true
def okHostKeys (p : Policy) (peer : Peer) : Bool :=
  match p.hostKeys with | some hk => !listBad p.allowSubset hk peer.key (prunedKeys p peer) | none => true
def okHostKeySizes (p : Policy) (peer : Peer) : Bool :=
  match p.hostkeySizes with | some sizes => (sortStrs (sizes.map (·.1))).all (hkOk p peer sizes) | none => true
def okKex (p : Policy) (peer : Peer) : Bool :=
  match p.kex with | some k => !listBad p.allowSubset k peer.kex peer.kex && !(p.allowSubset && markerBad k peer.kex) | none => true
def okCiphers (p : Policy) (peer : Peer) : Bool :=
  match p.ciphers with | some c => !listBad p.allowSubset c peer.enc peer.enc | none => true
def okMacs (p : Policy) (peer : Peer) : Bool :=
  match p.macs with | some m => !listBad p.allowSubset m peer.mac peer.mac | none => true
def okDh (p : Policy) (peer : Peer) : Bool :=
  match p.dhSizes with | some sizes => (sortStrs (sizes.map (·.1))).all (dhOk p peer sizes) | none => true

theorem stBanner_fst (p : Policy) (peer : Peer) (st : St) : (stBanner p peer st).1 = (st.1 && okBanner p peer) := by
  unfold stBanner okBanner; cases p.banner <;> simp [stepIf_fst]
theorem stComp_fst (p : Policy) (peer : Peer) (st : St) : (stComp p peer st).1 = (st.1 && okComp p peer) := by
  unfold stComp okComp; cases p.compressions <;> simp [stepIf_fst]
theorem stHostKeys_fst (p : Policy) (peer : Peer) (st : St) : (stHostKeys p peer st).1 = (st.1 && okHostKeys p peer) := by
  unfold stHostKeys okHostKeys; cases p.hostKeys <;> simp [stepIf_fst]
theorem stHostKeySizes_fst (p : Policy) (peer : Peer) (st : St) : (stHostKeySizes p peer st).1 = (st.1 && okHostKeySizes p peer) := by
  unfold stHostKeySizes okHostKeySizes; cases p.hostkeySizes with
  | none => simp
  | some sizes => exact foldl_fst _ _ (hostKeySizeStep_fst p peer sizes) _ _
theorem stKex_fst (p : Policy) (peer : Peer) (st : St) : (stKex p peer st).1 = (st.1 && okKex p peer) := by
  unfold stKex okKex; cases p.kex <;> simp [stepIf_fst, Bool.and_assoc]
theorem stCiphers_fst (p : Policy) (peer : Peer) (st : St) : (stCiphers p peer st).1 = (st.1 && okCiphers p peer) := by
  unfold stCiphers okCiphers; cases p.ciphers <;> simp [stepIf_fst]
theorem stMacs_fst (p : Policy) (peer : Peer) (st : St) : (stMacs p peer st).1 = (st.1 && okMacs p peer) := by
  unfold stMacs okMacs; cases p.macs <;> simp [stepIf_fst]
theorem stDh_fst (p : Policy) (peer : Peer) (st : St) : (stDh p peer st).1 = (st.1 && okDh p peer) := by
  unfold stDh okDh; cases p.dhSizes with
  | none => simp
  | some sizes => exact foldl_fst _ _ (dhSizeStep_fst p peer sizes) _ _

theorem stBanner_inv (p : Policy) (peer : Peer) (st : St) (h : Pol.Inv st) : Pol.Inv (stBanner p peer st) := by
  unfold stBanner; split <;> first | exact stepIf_inv _ _ _ _ _ _ h | exact h
theorem stComp_inv (p : Policy) (peer : Peer) (st : St) (h : Pol.Inv st) : Pol.Inv (stComp p peer st) := by
  unfold stComp; split <;> first | exact stepIf_inv _ _ _ _ _ _ h | exact h
theorem stHostKeys_inv (p : Policy) (peer : Peer) (st : St) (h : Pol.Inv st) : Pol.Inv (stHostKeys p peer st) := by
  unfold stHostKeys; split <;> first | exact stepIf_inv _ _ _ _ _ _ h | exact h
theorem stHostKeySizes_inv (p : Policy) (peer : Peer) (st : St) (h : Pol.Inv st) : Pol.Inv (stHostKeySizes p peer st) := by
  unfold stHostKeySizes; split
  · exact foldl_inv _ (hostKeySizeStep_inv p peer _) _ _ h
  · exact h
theorem stKex_inv (p : Policy) (peer : Peer) (st : St) (h : Pol.Inv st) : Pol.Inv (stKex p peer st) := by
  unfold stKex; split
  · exact stepIf_inv _ _ _ _ _ _ (stepIf_inv _ _ _ _ _ _ h)
  · exact h
theorem stCiphers_inv (p : Policy) (peer : Peer) (st : St) (h : Pol.Inv st) : Pol.Inv (stCiphers p peer st) := by
  unfold stCiphers; split <;> first | exact stepIf_inv _ _ _ _ _ _ h | exact h
theorem stMacs_inv (p : Policy) (peer : Peer) (st : St) (h : Pol.Inv st) : Pol.Inv (stMacs p peer st) := by
  unfold stMacs; split <;> first | exact stepIf_inv _ _ _ _ _ _ h | exact h
theorem stDh_inv (p : Policy) (peer : Peer) (st : St) (h : Pol.Inv st) : Pol.Inv (stDh p peer st) := by
  unfold stDh; split
  · exact foldl_inv _ (dhSizeStep_inv p peer _) _ _ h
  · exact h

/-- Boolean summary of the whole evaluation -/
def allOk (p : Policy) (peer : Peer) : Bool :=
  okBanner p peer && (!peer.hasKex ||
    (okComp p peer && okHostKeys p peer && okHostKeySizes p peer && okKex p peer && okCiphers p peer && okMacs p peer && okDh p peer))

theorem evaluate_fst (p : Policy) (peer : Peer) : (evaluate p peer []).1 = allOk p peer := by
  unfold evaluate allOk
  simp only
  cases hk : peer.hasKex
  · simp [stBanner_fst]
  · simp [stBanner_fst, stComp_fst, stHostKeys_fst, stHostKeySizes_fst, stKex_fst, stCiphers_fst, stMacs_fst, stDh_fst, Bool.and_assoc]

/-- **The verdict is "passed" iff the error list is empty** (fresh policy object). -/
theorem passed_iff_no_errors (p : Policy) (peer : Peer) : (evaluate p peer []).1 = true ↔ (evaluate p peer []).2 = [] := by
  have h0 : Pol.Inv ((true, []) : St) := by simp [Pol.Inv]
  have : Pol.Inv (evaluate p peer []) := by
    unfold evaluate
    simp only
    split
    · exact stBanner_inv _ _ _ h0
    · exact stDh_inv _ _ _ (stMacs_inv _ _ _ (stCiphers_inv _ _ _ (stKex_inv _ _ _ (stHostKeySizes_inv _ _ _
        (stHostKeys_inv _ _ _ (stComp_inv _ _ _ (stBanner_inv _ _ _ h0)))))))
  unfold Pol.Inv at this
  rw [this]; simp

/-! ### the Boolean conditions mean what the README says -/

theorem sizeBad_iff (al : Bool) (a e : Nat) : sizeBad al a e = false ↔ sizeOk al a e := by
  unfold sizeBad sizeOk
  cases al <;> simp <;> omega

theorem listBad_iff (sub : Bool) (pol act cmp : List Str) : listBad sub pol act cmp = false ↔ listOk sub pol act cmp := by
  unfold listBad listOk
  cases sub <;> simp

theorem markerBad_iff (k pk : List Str) :
    markerBad k pk = false ↔ (strictS ∈ k → strictS ∈ pk) ∧ (strictC ∈ k → strictC ∈ pk) := by
  unfold markerBad
  simp only [Bool.or_eq_false_iff, Bool.and_eq_false_iff, List.contains_eq_mem, Bool.not_eq_false', decide_eq_false_iff_not, decide_eq_true_eq]
  constructor
  · rintro ⟨h1, h2⟩
    exact ⟨fun h => by rcases h1 with h1 | h1 <;> simp_all, fun h => by rcases h2 with h2 | h2 <;> simp_all⟩
  · rintro ⟨h1, h2⟩
    refine ⟨?_, ?_⟩
    · by_cases h : strictS ∈ k
      · exact Or.inr (h1 h)
      · exact Or.inl h
    · by_cases h : strictC ∈ k
      · exact Or.inr (h2 h)
      · exact Or.inl h

theorem hkOk_iff (p : Policy) (peer : Peer) (sizes : List (Str × HKS)) (t : Str) :
    hkOk p peer sizes t = true ↔ ∀ exp act, lookup sizes t = some exp → lookup peer.hostKeys t = some act →
      sizeOk p.allowLarger act.size exp.size ∧
      ((exp.caType ≠ [] ∧ 0 < exp.caSize) → act.caType = exp.caType ∧ sizeOk p.allowLarger act.caSize exp.caSize) := by
  unfold hkOk
  cases h1 : lookup sizes t with
  | none => simp
  | some exp =>
    cases h2 : lookup peer.hostKeys t with
    | none => simp
    | some act =>
      have hlen : (decide (exp.caType.length > 0)) = true ↔ exp.caType ≠ [] := by
        cases exp.caType <;> simp
      simp only [Bool.and_eq_true, Bool.not_eq_true']
      rw [sizeBad_iff]
      constructor
      · rintro ⟨hs, hc⟩ exp' act' he ha
        cases he; cases ha
        refine ⟨hs, ?_⟩
        rintro ⟨hne, hpos⟩
        have : decide (exp.caType.length > 0) = true ∧ decide (exp.caSize > 0) = true := by
          exact ⟨hlen.mpr hne, by simpa using hpos⟩
        rw [if_pos this] at hc
        simp only [Bool.and_eq_true, beq_iff_eq, Bool.not_eq_true'] at hc
        exact ⟨hc.1, (sizeBad_iff _ _ _).mp hc.2⟩
      · intro h
        obtain ⟨hs, hc⟩ := h exp act rfl rfl
        refine ⟨hs, ?_⟩
        split
        · next hca =>
          have := hc ⟨hlen.mp hca.1, by simpa using hca.2⟩
          simp only [Bool.and_eq_true, beq_iff_eq, Bool.not_eq_true']
          exact ⟨this.1, (sizeBad_iff _ _ _).mpr this.2⟩
        · rfl

theorem dhOk_iff (p : Policy) (peer : Peer) (sizes : List (Str × Nat)) (t : Str) :
    dhOk p peer sizes t = true ↔ ∀ exp act, lookup sizes t = some exp → lookup peer.dhSizes t = some act →
      sizeOk p.allowLarger act exp := by
  unfold dhOk
  cases h1 : lookup sizes t with
  | none => simp
  | some exp =>
    cases h2 : lookup peer.dhSizes t with
    | none => simp
    | some act => simp [sizeBad_iff]

/-- **`evaluate` passes exactly when every field the policy specifies is satisfied.** -/
theorem evaluate_iff_satisfied (p : Policy) (peer : Peer) : (evaluate p peer []).1 = true ↔ Satisfied p peer := by
  rw [evaluate_fst]
  unfold allOk Satisfied
  simp only [Bool.and_eq_true, Bool.or_eq_true, Bool.not_eq_true']
  constructor
  · rintro ⟨hb, hrest⟩
    refine ⟨?_, ?_⟩
    · intro b hpb
      unfold okBanner at hb; rw [hpb] at hb; simpa using hb
    · intro hk
      rcases hrest with hrest | hrest
      · rw [hk] at hrest; cases hrest
      obtain ⟨⟨⟨⟨⟨⟨h1, h2⟩, h3⟩, h4⟩, h5⟩, h6⟩, h7⟩ := hrest
      refine ⟨?_, ?_, ?_, ?_, ?_, ?_, ?_⟩
      · intro c hc; unfold okComp at h1; rw [hc] at h1; simpa using h1
      · intro hkk hc; unfold okHostKeys at h2; rw [hc] at h2
        exact (listBad_iff _ _ _ _).mp (by simpa using h2)
      · intro sizes hc t exp act hl1 hl2
        unfold okHostKeySizes at h3; rw [hc] at h3
        have hm : t ∈ sortStrs (sizes.map (·.1)) := (mem_sortStrs _ _).mpr (lookup_some_mem _ _ _ hl1)
        have := (List.all_eq_true.mp h3) t hm
        exact (hkOk_iff p peer sizes t).mp this exp act hl1 hl2
      · intro k hc; unfold okKex at h4; rw [hc] at h4
        simp only [Bool.and_eq_true, Bool.not_eq_true', Bool.and_eq_false_iff] at h4
        refine ⟨(listBad_iff _ _ _ _).mp h4.1, ?_⟩
        intro hsub
        rcases h4.2 with h | h
        · rw [hsub] at h; cases h
        · exact (markerBad_iff _ _).mp h
      · intro c hc; unfold okCiphers at h5; rw [hc] at h5
        exact (listBad_iff _ _ _ _).mp (by simpa using h5)
      · intro m hc; unfold okMacs at h6; rw [hc] at h6
        exact (listBad_iff _ _ _ _).mp (by simpa using h6)
      · intro sizes hc t exp act hl1 hl2
        unfold okDh at h7; rw [hc] at h7
        have hm : t ∈ sortStrs (sizes.map (·.1)) := (mem_sortStrs _ _).mpr (lookup_some_mem _ _ _ hl1)
        have := (List.all_eq_true.mp h7) t hm
        exact (dhOk_iff p peer sizes t).mp this exp act hl1 hl2
  · rintro ⟨hb, hrest⟩
    refine ⟨?_, ?_⟩
    · unfold okBanner; split
      · next b hpb => simpa using hb b hpb
      · rfl
    · cases hk : peer.hasKex
      · exact Or.inl rfl
      · right
        obtain ⟨h1, h2, h3, h4, h5, h6, h7⟩ := hrest hk
        refine ⟨⟨⟨⟨⟨⟨?_, ?_⟩, ?_⟩, ?_⟩, ?_⟩, ?_⟩, ?_⟩
        · unfold okComp; split
          · next c hc => simpa using h1 c hc
          · rfl
        · unfold okHostKeys; split
          · next hkk hc => simpa using (listBad_iff _ _ _ _).mpr (h2 hkk hc)
          · rfl
        · unfold okHostKeySizes; split
          · next sizes hc =>
            apply List.all_eq_true.mpr
            intro t _
            exact (hkOk_iff p peer sizes t).mpr (fun exp act hl1 hl2 => h3 sizes hc t exp act hl1 hl2)
          · rfl
        · unfold okKex; split
          · next k hc =>
            obtain ⟨hl, hm⟩ := h4 k hc
            simp only [Bool.and_eq_true, Bool.not_eq_true', Bool.and_eq_false_iff]
            refine ⟨(listBad_iff _ _ _ _).mpr hl, ?_⟩
            cases hsub : p.allowSubset
            · exact Or.inl rfl
            · exact Or.inr ((markerBad_iff _ _).mpr (hm hsub))
          · rfl
        · unfold okCiphers; split
          · next c hc => simpa using (listBad_iff _ _ _ _).mpr (h5 c hc)
          · rfl
        · unfold okMacs; split
          · next m hc => simpa using (listBad_iff _ _ _ _).mpr (h6 m hc)
          · rfl
        · unfold okDh; split
          · next sizes hc =>
            apply List.all_eq_true.mpr
            intro t _
            exact (dhOk_iff p peer sizes t).mpr (fun exp act hl1 hl2 => h7 sizes hc t exp act hl1 hl2)
          · rfl

/-! ### monotonicity -/

/-- **Subset mode: shrinking a passing peer's lists never turns a pass into a fail**, as long as
    the strict-kex markers the policy names are kept, and the rest of the peer is unchanged. -/
theorem subset_monotone (p : Policy) (peer peer' : Peer) (hsub : p.allowSubset = true)
    (hsame : peer'.bannerStr = peer.bannerStr ∧ peer'.hasKex = peer.hasKex ∧ peer'.comp = peer.comp
      ∧ peer'.hostKeys = peer.hostKeys ∧ peer'.dhSizes = peer.dhSizes)
    (hkey : ∀ x ∈ peer'.key, x ∈ peer.key) (hkex : ∀ x ∈ peer'.kex, x ∈ peer.kex)
    (henc : ∀ x ∈ peer'.enc, x ∈ peer.enc) (hmac : ∀ x ∈ peer'.mac, x ∈ peer.mac)
    (hmark : ∀ k, p.kex = some k → (strictS ∈ k → strictS ∈ peer'.kex) ∧ (strictC ∈ k → strictC ∈ peer'.kex))
    (hpass : Satisfied p peer) : Satisfied p peer' := by
  obtain ⟨hb, hk, hc, hhk, hdh⟩ := hsame
  obtain ⟨h0, hrest⟩ := hpass
  refine ⟨by rw [hb]; exact h0, ?_⟩
  intro hk'
  obtain ⟨h1, h2, h3, h4, h5, h6, h7⟩ := hrest (hk ▸ hk')
  refine ⟨by rw [hc]; exact h1, ?_, by rw [hhk]; exact h3, ?_, ?_, ?_, by rw [hdh]; exact h7⟩
  · intro hkk hpk
    have := h2 hkk hpk
    unfold listOk at *; rw [hsub] at *; simp only [if_true] at *
    exact fun x hx => this x (hkey x hx)
  · intro k hpk
    obtain ⟨hl, _⟩ := h4 k hpk
    refine ⟨?_, fun _ => hmark k hpk⟩
    unfold listOk at *; rw [hsub] at *; simp only [if_true] at *
    exact fun x hx => hl x (hkex x hx)
  · intro c hpc
    have := h5 c hpc
    unfold listOk at *; rw [hsub] at *; simp only [if_true] at *
    exact fun x hx => this x (henc x hx)
  · intro m hpm
    have := h6 m hpm
    unfold listOk at *; rw [hsub] at *; simp only [if_true] at *
    exact fun x hx => this x (hmac x hx)

/-- **Larger-keys mode: growing a passing peer's keys/moduli never turns a pass into a fail**
    (same key types and CA types, every size at least as large). -/
theorem larger_keys_monotone (p : Policy) (peer peer' : Peer) (hlarger : p.allowLarger = true)
    (hsame : peer'.bannerStr = peer.bannerStr ∧ peer'.hasKex = peer.hasKex ∧ peer'.comp = peer.comp ∧ peer'.key = peer.key
      ∧ peer'.kex = peer.kex ∧ peer'.enc = peer.enc ∧ peer'.mac = peer.mac)
    (hhk : ∀ t act', lookup peer'.hostKeys t = some act' → ∃ act, lookup peer.hostKeys t = some act ∧
        act.size ≤ act'.size ∧ act'.caType = act.caType ∧ act.caSize ≤ act'.caSize)
    (hdh : ∀ t a', lookup peer'.dhSizes t = some a' → ∃ a, lookup peer.dhSizes t = some a ∧ a ≤ a')
    (hpass : Satisfied p peer) : Satisfied p peer' := by
  obtain ⟨hb, hk, hc, hkey, hkex, henc, hmac⟩ := hsame
  obtain ⟨h0, hrest⟩ := hpass
  refine ⟨by rw [hb]; exact h0, ?_⟩
  intro hk'
  obtain ⟨h1, h2, h3, h4, h5, h6, h7⟩ := hrest (hk ▸ hk')
  have hpr : prunedKeys p peer' = prunedKeys p peer := by unfold prunedKeys; rw [hkey]
  refine ⟨by rw [hc]; exact h1, by rw [hkey, hpr]; exact h2, ?_, by rw [hkex]; exact h4, by rw [henc]; exact h5,
          by rw [hmac]; exact h6, ?_⟩
  · intro sizes hps t exp act' hl1 hl2
    obtain ⟨act, hl, hs, hct, hcs⟩ := hhk t act' hl2
    obtain ⟨ha, hb2⟩ := h3 sizes hps t exp act hl1 hl
    unfold sizeOk at *; rw [hlarger] at *; simp only [if_true] at *
    refine ⟨by omega, fun hca => ?_⟩
    obtain ⟨hx, hy⟩ := hb2 hca
    exact ⟨by rw [hct]; exact hx, by omega⟩
  · intro sizes hps t exp a' hl1 hl2
    obtain ⟨a, hl, hle⟩ := hdh t a' hl2
    have := h7 sizes hps t exp a hl1 hl
    unfold sizeOk at *; rw [hlarger] at *; simp only [if_true] at *
    omega

/-- **A strict-key-exchange marker named by the policy stays mandatory in subset mode.** -/
theorem strict_marker_mandatory (p : Policy) (peer : Peer) (k : List Str) (hk : p.kex = some k) (hsub : p.allowSubset = true)
    (hkx : peer.hasKex = true) (hm : (strictS ∈ k ∧ strictS ∉ peer.kex) ∨ (strictC ∈ k ∧ strictC ∉ peer.kex)) :
    (evaluate p peer []).1 = false := by
  have : ¬ Satisfied p peer := by
    intro hs
    obtain ⟨_, hr⟩ := hs
    obtain ⟨_, _, _, h4, _⟩ := hr hkx
    obtain ⟨_, hmk⟩ := h4 k hk
    obtain ⟨ha, hb⟩ := hmk hsub
    rcases hm with ⟨h1, h2⟩ | ⟨h1, h2⟩
    · exact h2 (ha h1)
    · exact h2 (hb h1)
  cases h : (evaluate p peer []).1
  · rfl
  · exact absurd ((evaluate_iff_satisfied p peer).mp h) this

/-! ### errors name their field and carry expected / actual -/

def knownField (f : Str) : Prop :=
  f = s "Banner" ∨ f = s "Compression" ∨ f = s "Host keys" ∨ f = s "Key exchanges" ∨ f = s "Ciphers" ∨ f = s "MACs"
  ∨ f = s "CA signature type" ∨ (∃ t, f = s "Host key (" ++ t ++ s ") sizes") ∨ (∃ t, f = s "CA signature size (" ++ t ++ s ")")
  ∨ (∃ t, f = s "Group exchange (" ++ t ++ s ") modulus sizes")

/-- list-field errors carry the policy's list as expected and the peer's list as actual -/
def WellFormedErr (p : Policy) (peer : Peer) (e : PErr) : Prop :=
  knownField e.field ∧
  (e.field = s "Host keys" → p.hostKeys = some e.expectedRequired ∧ e.actual = peer.key ∧ e.expectedOptional = p.optionalHostKeys.getD [[]]) ∧
  (e.field = s "Key exchanges" → p.kex = some e.expectedRequired ∧ e.actual = peer.kex) ∧
  (e.field = s "Ciphers" → p.ciphers = some e.expectedRequired ∧ e.actual = peer.enc) ∧
  (e.field = s "MACs" → p.macs = some e.expectedRequired ∧ e.actual = peer.mac) ∧
  (e.field = s "Compression" → p.compressions = some e.expectedRequired ∧ e.actual = peer.comp) ∧
  (e.field = s "Banner" → p.banner = some (e.expectedRequired.headD []) ∧ e.actual = [peer.bannerStr])

def AllWF (p : Policy) (peer : Peer) (st : St) : Prop := ∀ e ∈ st.2, WellFormedErr p peer e

-- non-vacuity: a concrete policy/peer pair on which the interesting branches fire
def pEx : Policy := { kex := some [s "a", strictS], ciphers := some [s "c1", s "c2"], allowSubset := true,
                      hostkeySizes := some [(s "ssh-rsa", { size := 3072, caType := [], caSize := 0 })], allowLarger := true }
def peerOk : Peer := { bannerStr := s "SSH-2.0-x", kex := [strictS, s "a"], enc := [s "c2"],
                       hostKeys := [(s "ssh-rsa", { size := 4096, caType := [], caSize := 0 })] }
def peerBad : Peer := { peerOk with kex := [s "a"] }
example : (evaluate pEx peerOk []).1 = true := by decide +kernel
example : (evaluate pEx peerBad []).1 = false ∧ ((evaluate pEx peerBad []).2.map (·.field)) = [s "Key exchanges"] := by decide +kernel
example : (evaluate { pEx with allowSubset := false } peerOk []).2.map (·.field) = [s "Key exchanges", s "Ciphers"] := by decide +kernel

theorem prefix_ne (A t B C : Str) (n : Nat) (hn : n ≤ A.length) (hne : A.take n ≠ C.take n) : A ++ t ++ B ≠ C := by
  intro h
  apply hne
  have := congrArg (List.take n) h
  rw [List.append_assoc, List.take_append_of_le_length hn] at this
  exact this

theorem allWF_append (p : Policy) (peer : Peer) (st : St) (e : PErr) (b : Bool) (h : AllWF p peer st) (he : WellFormedErr p peer e) :
    AllWF p peer (b, st.2 ++ [e]) := by
  intro x hx
  simp only [List.mem_append, List.mem_singleton] at hx
  rcases hx with hx | hx
  · exact h x hx
  · subst hx; exact he

theorem stepIf_wf (p : Policy) (peer : Peer) (bad : Bool) (st : St) (f : Str) (req : List Str) (opt : Option (List Str)) (act : List Str)
    (h : AllWF p peer st) (he : WellFormedErr p peer { field := f, expectedRequired := req, expectedOptional := opt.getD [[]], actual := act }) :
    AllWF p peer (stepIf bad st f req opt act) := by
  unfold stepIf
  split
  · exact allWF_append p peer st _ false h he
  · exact h

/-- errors of the size checks: their field is one of the three parametrised names (no list-field obligation applies) -/
theorem wf_sized (p : Policy) (peer : Peer) (A t B : Str) (req act : List Str)
    (hk : knownField (A ++ t ++ B))
    (h1 : A ++ t ++ B ≠ s "Host keys") (h2 : A ++ t ++ B ≠ s "Key exchanges") (h3 : A ++ t ++ B ≠ s "Ciphers") (h4 : A ++ t ++ B ≠ s "MACs")
    (h5 : A ++ t ++ B ≠ s "Compression") (h6 : A ++ t ++ B ≠ s "Banner") :
    WellFormedErr p peer { field := A ++ t ++ B, expectedRequired := req, expectedOptional := [[]], actual := act } :=
  ⟨hk, fun h => absurd h h1, fun h => absurd h h2, fun h => absurd h h3, fun h => absurd h h4, fun h => absurd h h5, fun h => absurd h h6⟩

theorem wf_hostKeySize (p : Policy) (peer : Peer) (t : Str) (req act : List Str) :
    WellFormedErr p peer { field := s "Host key (" ++ t ++ s ") sizes", expectedRequired := req, expectedOptional := [[]], actual := act } :=
  wf_sized p peer _ t _ req act (Or.inr (Or.inr (Or.inr (Or.inr (Or.inr (Or.inr (Or.inr (Or.inl ⟨t, rfl⟩))))))))
    (prefix_ne _ _ _ _ 9 (by decide +kernel) (by decide +kernel)) (prefix_ne _ _ _ _ 2 (by decide +kernel) (by decide +kernel))
    (prefix_ne _ _ _ _ 2 (by decide +kernel) (by decide +kernel)) (prefix_ne _ _ _ _ 2 (by decide +kernel) (by decide +kernel))
    (prefix_ne _ _ _ _ 2 (by decide +kernel) (by decide +kernel)) (prefix_ne _ _ _ _ 2 (by decide +kernel) (by decide +kernel))

theorem wf_caSize (p : Policy) (peer : Peer) (t : Str) (req act : List Str) :
    WellFormedErr p peer { field := s "CA signature size (" ++ t ++ s ")", expectedRequired := req, expectedOptional := [[]], actual := act } :=
  wf_sized p peer _ t _ req act (Or.inr (Or.inr (Or.inr (Or.inr (Or.inr (Or.inr (Or.inr (Or.inr (Or.inl ⟨t, rfl⟩)))))))))
    (prefix_ne _ _ _ _ 2 (by decide +kernel) (by decide +kernel)) (prefix_ne _ _ _ _ 2 (by decide +kernel) (by decide +kernel))
    (prefix_ne _ _ _ _ 2 (by decide +kernel) (by decide +kernel)) (prefix_ne _ _ _ _ 2 (by decide +kernel) (by decide +kernel))
    (prefix_ne _ _ _ _ 2 (by decide +kernel) (by decide +kernel)) (prefix_ne _ _ _ _ 2 (by decide +kernel) (by decide +kernel))

theorem wf_dhSize (p : Policy) (peer : Peer) (t : Str) (req act : List Str) :
    WellFormedErr p peer { field := s "Group exchange (" ++ t ++ s ") modulus sizes", expectedRequired := req, expectedOptional := [[]], actual := act } :=
  wf_sized p peer _ t _ req act (Or.inr (Or.inr (Or.inr (Or.inr (Or.inr (Or.inr (Or.inr (Or.inr (Or.inr ⟨t, rfl⟩)))))))))
    (prefix_ne _ _ _ _ 2 (by decide +kernel) (by decide +kernel)) (prefix_ne _ _ _ _ 2 (by decide +kernel) (by decide +kernel))
    (prefix_ne _ _ _ _ 2 (by decide +kernel) (by decide +kernel)) (prefix_ne _ _ _ _ 2 (by decide +kernel) (by decide +kernel))
    (prefix_ne _ _ _ _ 2 (by decide +kernel) (by decide +kernel)) (prefix_ne _ _ _ _ 2 (by decide +kernel) (by decide +kernel))

theorem wf_caType (p : Policy) (peer : Peer) (req act : List Str) :
    WellFormedErr p peer { field := s "CA signature type", expectedRequired := req, expectedOptional := [[]], actual := act } :=
  ⟨Or.inr (Or.inr (Or.inr (Or.inr (Or.inr (Or.inr (Or.inl rfl)))))),
   fun h => by simp only at h; exact absurd h (by decide +kernel), fun h => by simp only at h; exact absurd h (by decide +kernel), fun h => by simp only at h; exact absurd h (by decide +kernel),
   fun h => by simp only at h; exact absurd h (by decide +kernel), fun h => by simp only at h; exact absurd h (by decide +kernel), fun h => by simp only at h; exact absurd h (by decide +kernel)⟩

theorem hostKeySizeStep_wf (p : Policy) (peer : Peer) (sizes : List (Str × HKS)) (st : St) (t : Str) (h : AllWF p peer st) :
    AllWF p peer (hostKeySizeStep p peer sizes st t) := by
  unfold hostKeySizeStep
  split
  · next exp act _ _ =>
    have h1 : AllWF p peer (stepIf (sizeBad p.allowLarger act.size exp.size) st (s "Host key (" ++ t ++ s ") sizes") [Text.natToStr exp.size] none [Text.natToStr act.size]) :=
      stepIf_wf p peer _ st _ _ none _ h (wf_hostKeySize p peer t _ _)
    simp only
    split
    · split
      · exact allWF_append p peer _ _ false h1 (wf_caType p peer _ _)
      · exact stepIf_wf p peer _ _ _ _ none _ h1 (wf_caSize p peer _ _ _)
    · exact h1
  · exact h

theorem dhSizeStep_wf (p : Policy) (peer : Peer) (sizes : List (Str × Nat)) (st : St) (t : Str) (h : AllWF p peer st) :
    AllWF p peer (dhSizeStep p peer sizes st t) := by
  unfold dhSizeStep
  split
  · exact stepIf_wf p peer _ st _ _ none _ h (wf_dhSize p peer t _ _)
  · exact h

theorem foldl_wf {α : Type} (p : Policy) (peer : Peer) (f : St → α → St) (hf : ∀ st a, AllWF p peer st → AllWF p peer (f st a)) (l : List α) (st : St)
    (h : AllWF p peer st) : AllWF p peer (l.foldl f st) := by
  induction l generalizing st with
  | nil => exact h
  | cons a l ih => exact ih _ (hf st a h)

/-- **Every error names a documented field, and the list-field errors carry the policy's list as expected and the peer's
    list as actual** — for every policy and peer (any pre-existing entries being well-formed). -/
theorem errors_wellformed (p : Policy) (peer : Peer) : AllWF p peer (evaluate p peer []) := by
  have h0 : AllWF p peer ((true, []) : St) := fun e he => by cases he
  have hb : AllWF p peer (stBanner p peer (true, [])) := by
    unfold stBanner
    split
    · next b hbn =>
      refine stepIf_wf p peer _ _ _ _ none _ h0 ⟨Or.inl rfl, ?_, ?_, ?_, ?_, ?_, ?_⟩
      · exact fun h => by simp only at h; exact absurd h (by decide +kernel)
      · exact fun h => by simp only at h; exact absurd h (by decide +kernel)
      · exact fun h => by simp only at h; exact absurd h (by decide +kernel)
      · exact fun h => by simp only at h; exact absurd h (by decide +kernel)
      · exact fun h => by simp only at h; exact absurd h (by decide +kernel)
      · exact fun _ => ⟨by simpa using hbn, rfl⟩
    · exact h0
  unfold evaluate
  simp only
  split
  · exact hb
  · have hc : AllWF p peer (stComp p peer (stBanner p peer (true, []))) := by
      unfold stComp
      split
      · next c hcn =>
        refine stepIf_wf p peer _ _ _ _ none _ hb ⟨Or.inr (Or.inl rfl), ?_, ?_, ?_, ?_, ?_, ?_⟩
        · exact fun h => by simp only at h; exact absurd h (by decide +kernel)
        · exact fun h => by simp only at h; exact absurd h (by decide +kernel)
        · exact fun h => by simp only at h; exact absurd h (by decide +kernel)
        · exact fun h => by simp only at h; exact absurd h (by decide +kernel)
        · exact fun _ => ⟨hcn, rfl⟩
        · exact fun h => by simp only at h; exact absurd h (by decide +kernel)
      · exact hb
    have hk : AllWF p peer (stHostKeys p peer (stComp p peer (stBanner p peer (true, [])))) := by
      unfold stHostKeys
      split
      · next hk hkn =>
        refine stepIf_wf p peer _ _ _ _ _ _ hc ⟨Or.inr (Or.inr (Or.inl rfl)), ?_, ?_, ?_, ?_, ?_, ?_⟩
        · exact fun _ => ⟨hkn, rfl, rfl⟩
        · exact fun h => by simp only at h; exact absurd h (by decide +kernel)
        · exact fun h => by simp only at h; exact absurd h (by decide +kernel)
        · exact fun h => by simp only at h; exact absurd h (by decide +kernel)
        · exact fun h => by simp only at h; exact absurd h (by decide +kernel)
        · exact fun h => by simp only at h; exact absurd h (by decide +kernel)
      · exact hc
    have hs : AllWF p peer (stHostKeySizes p peer (stHostKeys p peer (stComp p peer (stBanner p peer (true, []))))) := by
      unfold stHostKeySizes
      split
      · exact foldl_wf p peer _ (fun st a h => hostKeySizeStep_wf p peer _ st a h) _ _ hk
      · exact hk
    have hx : AllWF p peer (stKex p peer (stHostKeySizes p peer (stHostKeys p peer (stComp p peer (stBanner p peer (true, [])))))) := by
      unfold stKex
      split
      · next k hkn =>
        have wfk : WellFormedErr p peer { field := s "Key exchanges", expectedRequired := k, expectedOptional := (none : Option (List Str)).getD [[]], actual := peer.kex } := by
          refine ⟨Or.inr (Or.inr (Or.inr (Or.inl rfl))), ?_, ?_, ?_, ?_, ?_, ?_⟩
          · exact fun h => by simp only at h; exact absurd h (by decide +kernel)
          · exact fun _ => ⟨hkn, rfl⟩
          · exact fun h => by simp only at h; exact absurd h (by decide +kernel)
          · exact fun h => by simp only at h; exact absurd h (by decide +kernel)
          · exact fun h => by simp only at h; exact absurd h (by decide +kernel)
          · exact fun h => by simp only at h; exact absurd h (by decide +kernel)
        exact stepIf_wf p peer _ _ _ _ none _ (stepIf_wf p peer _ _ _ _ none _ hs wfk) wfk
      · exact hs
    have hci : AllWF p peer (stCiphers p peer (stKex p peer (stHostKeySizes p peer (stHostKeys p peer (stComp p peer (stBanner p peer (true, []))))))) := by
      unfold stCiphers
      split
      · next c hcn =>
        refine stepIf_wf p peer _ _ _ _ none _ hx ⟨Or.inr (Or.inr (Or.inr (Or.inr (Or.inl rfl)))), ?_, ?_, ?_, ?_, ?_, ?_⟩
        · exact fun h => by simp only at h; exact absurd h (by decide +kernel)
        · exact fun h => by simp only at h; exact absurd h (by decide +kernel)
        · exact fun _ => ⟨hcn, rfl⟩
        · exact fun h => by simp only at h; exact absurd h (by decide +kernel)
        · exact fun h => by simp only at h; exact absurd h (by decide +kernel)
        · exact fun h => by simp only at h; exact absurd h (by decide +kernel)
      · exact hx
    have hm : AllWF p peer (stMacs p peer (stCiphers p peer (stKex p peer (stHostKeySizes p peer (stHostKeys p peer (stComp p peer (stBanner p peer (true, [])))))))) := by
      unfold stMacs
      split
      · next m hmn =>
        refine stepIf_wf p peer _ _ _ _ none _ hci ⟨Or.inr (Or.inr (Or.inr (Or.inr (Or.inr (Or.inl rfl))))), ?_, ?_, ?_, ?_, ?_, ?_⟩
        · exact fun h => by simp only at h; exact absurd h (by decide +kernel)
        · exact fun h => by simp only at h; exact absurd h (by decide +kernel)
        · exact fun h => by simp only at h; exact absurd h (by decide +kernel)
        · exact fun _ => ⟨hmn, rfl⟩
        · exact fun h => by simp only at h; exact absurd h (by decide +kernel)
        · exact fun h => by simp only at h; exact absurd h (by decide +kernel)
      · exact hci
    unfold stDh
    split
    · exact foldl_wf p peer _ (fun st a h => dhSizeStep_wf p peer _ st a h) _ _ hm
    · exact hm

example : ((evaluate { pEx with allowSubset := false } peerOk []).2.map (·.expectedRequired)) = [[s "a", strictS], [s "c1", s "c2"]] := by decide +kernel

end SshAudit.C06
