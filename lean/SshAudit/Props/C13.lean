/-
  C13 — Recommendations are consistent with the ratings shown.

  `Report.recommendations db sw peer suppress` is `Algorithms.get_recommendations` followed by
  `get_algorithm_recommendations`, run on the *same* database state `db` the report is rendered
  from (all theorems are for an arbitrary `db`, so they hold for every reachable per-scan state
  and survive table edits).  `recOf` is the loop body for one database entry.
-/
import SshAudit.Lemmas.Report
namespace SshAudit.C13
open SshAudit SshAudit.Report

/-- the (category, advertised list) pairs `get_recommendations` walks for an SSH-2 peer -/
def catLists (peer : Peer) : List (Str × List Str) := [(kexC, peer.kex), (keyC, peer.key), (encC, peer.encS), (macC, peer.macS)]

/-- every recommendation comes from the loop body applied to one database entry of one category, and is not suppressed -/
theorem mem_recommendations (db : DB) (sw : Version.Software) (peer : Peer) (suppress : List Str) (r : Rec) :
    r ∈ recommendations db (some sw) peer suppress ↔
      ∃ ca ∈ catLists peer, ∃ e ∈ DBm.cat db ca.1,
        recOf sw (!vproducts.contains sw.product) ca.1 ca.2 e = some r ∧ r.name ∉ suppress := by
  unfold recommendations catLists
  simp only [List.mem_flatMap]
  constructor
  · rintro ⟨⟨c, adv⟩, hc, hr⟩
    simp only [List.mem_append, List.mem_filter, List.mem_filterMap, Bool.and_eq_true, Bool.not_eq_true', decide_eq_true_eq] at hr
    refine ⟨(c, adv), hc, ?_⟩
    rcases hr with (⟨⟨e, he, hre⟩, _, hs⟩ | ⟨⟨e, he, hre⟩, _, hs⟩) | ⟨⟨e, he, hre⟩, _, hs⟩ <;>
      exact ⟨e, he, hre, by simpa using hs⟩
  · rintro ⟨⟨c, adv⟩, hc, e, he, hre, hs⟩
    refine ⟨(c, adv), hc, ?_⟩
    simp only [List.mem_append, List.mem_filter, List.mem_filterMap, Bool.and_eq_true, Bool.not_eq_true', decide_eq_true_eq]
    have hs' : suppress.contains r.name = false := by simpa using hs
    cases ha : r.action
    · exact Or.inl (Or.inl ⟨⟨e, he, hre⟩, rfl, hs'⟩)
    · exact Or.inl (Or.inr ⟨⟨e, he, hre⟩, rfl, hs'⟩)
    · exact Or.inr ⟨⟨e, he, hre⟩, rfl, hs'⟩

/-! ### the loop body -/

/-- **removal / change ⇒ advertised in that category and rated with a failure or warning** (`faults > 0`
    counts failure and warning entries of the very database state the report shows) -/
theorem recOf_del_chg (sw : Version.Software) (unk : Bool) (cat : Str) (adv : List Str) (e : Entry) (r : Rec)
    (h : recOf sw unk cat adv e = some r) (ha : r.action = .del ∨ r.action = .chg) :
    r.name = e.name ∧ r.cat = cat ∧ e.name ∈ adv ∧ faults e > 0 ∧ r.points = faults e ∧ (r.action = .chg ↔ chgList.contains e.name = true) := by
  unfold recOf at h
  by_cases h1 : versionOk sw unk e = false
  · rw [if_pos h1] at h; cases h
  · rw [if_neg h1] at h
    by_cases h2 : adv.contains e.name = false
    · rw [if_pos h2] at h
      by_cases h3 : faults e > 0 ∨ addExcluded cat e.name = true ∨ emptyVersion e = true ∨ unk = true
      · rw [if_pos h3] at h; cases h
      · rw [if_neg h3] at h; simp only [Option.some.injEq] at h; subst h; simp at ha
    · rw [if_neg h2] at h
      have hmem : e.name ∈ adv := by simpa using h2
      by_cases h3 : faults e = 0
      · rw [if_pos h3] at h; cases h
      · rw [if_neg h3] at h
        by_cases h4 : chgList.contains e.name = true
        · rw [if_pos h4] at h; simp only [Option.some.injEq] at h; subst h
          exact ⟨rfl, rfl, hmem, by omega, rfl, ⟨fun _ => h4, fun _ => rfl⟩⟩
        · rw [if_neg h4] at h; simp only [Option.some.injEq] at h; subst h
          exact ⟨rfl, rfl, hmem, by omega, rfl, ⟨fun hx => (by cases hx), fun hx => absurd hx h4⟩⟩

/-- **addition ⇒ not advertised, no failure or warning, not a certificate / security-key / pseudo
    algorithm, a non-empty version list admitting the identified software, and recognised software** -/
theorem recOf_add (sw : Version.Software) (unk : Bool) (cat : Str) (adv : List Str) (e : Entry) (r : Rec)
    (h : recOf sw unk cat adv e = some r) (ha : r.action = .add) :
    r.name = e.name ∧ r.cat = cat ∧ e.name ∉ adv ∧ faults e = 0 ∧ addExcluded cat e.name = false ∧ unk = false ∧ r.points = 0 ∧
      ∃ v0 rest, DBm.versions e = some v0 :: rest ∧ Version.versionFilter (some sw) unk true v0 = true := by
  unfold recOf at h
  by_cases h1 : versionOk sw unk e = false
  · rw [if_pos h1] at h; cases h
  · rw [if_neg h1] at h
    by_cases h2 : adv.contains e.name = false
    · rw [if_pos h2] at h
      have hnm : e.name ∉ adv := by simpa using h2
      by_cases h3 : faults e > 0 ∨ addExcluded cat e.name = true ∨ emptyVersion e = true ∨ unk = true
      · rw [if_pos h3] at h; cases h
      · rw [if_neg h3] at h; simp only [Option.some.injEq] at h; subst h
        simp only [not_or, Bool.not_eq_true] at h3
        obtain ⟨hf, hex, hev, hunk⟩ := h3
        refine ⟨rfl, rfl, hnm, by omega, hex, hunk, rfl, ?_⟩
        unfold emptyVersion at hev
        unfold versionOk at h1
        cases hv : DBm.versions e with
        | nil => simp [hv] at hev
        | cons o rest =>
          cases o with
          | none => simp [hv] at hev
          | some v0 => exact ⟨v0, rest, rfl, by simpa [hv] using h1⟩
    · rw [if_neg h2] at h
      by_cases h3 : faults e = 0
      · rw [if_pos h3] at h; cases h
      · rw [if_neg h3] at h
        by_cases h4 : chgList.contains e.name = true
        · rw [if_pos h4] at h; simp only [Option.some.injEq] at h; subst h; cases ha
        · rw [if_neg h4] at h; simp only [Option.some.injEq] at h; subst h; cases ha

/-- an advertised entry with a failure or warning that the version filter admits is always reported (removal or change) -/
theorem recOf_complete (sw : Version.Software) (unk : Bool) (cat : Str) (adv : List Str) (e : Entry)
    (hadv : e.name ∈ adv) (hf : faults e > 0) (hv : versionOk sw unk e = true) :
    ∃ r, recOf sw unk cat adv e = some r ∧ r.name = e.name ∧ (r.action = .del ∨ r.action = .chg) ∧ r.points = faults e := by
  unfold recOf
  rw [if_neg (by simp [hv])]
  have hc : ¬ (adv.contains e.name = false) := by simpa using hadv
  rw [if_neg hc, if_neg (by omega)]
  by_cases h4 : chgList.contains e.name = true
  · rw [if_pos h4]; exact ⟨_, rfl, rfl, Or.inr rfl, rfl⟩
  · rw [if_neg h4]; exact ⟨_, rfl, rfl, Or.inl rfl, rfl⟩

/-! ### lifted to the whole recommendation list -/

/-- **Everything recommended for removal or change is advertised (in that category) and carries a failure or warning.** -/
theorem del_chg_sound (db : DB) (sw : Version.Software) (peer : Peer) (suppress : List Str) (r : Rec)
    (h : r ∈ recommendations db (some sw) peer suppress) (ha : r.action = .del ∨ r.action = .chg) :
    ∃ ca ∈ catLists peer, r.cat = ca.1 ∧ r.name ∈ ca.2 ∧ ∃ e ∈ DBm.cat db ca.1, e.name = r.name ∧ faults e > 0 ∧ r.points = faults e := by
  obtain ⟨ca, hca, e, he, hre, _⟩ := (mem_recommendations db sw peer suppress r).mp h
  obtain ⟨h1, h2, h3, h4, h5, _⟩ := recOf_del_chg sw _ ca.1 ca.2 e r hre ha
  exact ⟨ca, hca, h2, h1 ▸ h3, e, he, h1.symm, h4, h5⟩

/-- **Everything recommended for addition is not advertised, has no failure or warning, is not excluded, is available in the identified version, and is not suppressed.** -/
theorem add_sound (db : DB) (sw : Version.Software) (peer : Peer) (suppress : List Str) (r : Rec)
    (h : r ∈ recommendations db (some sw) peer suppress) (ha : r.action = .add) :
    r.name ∉ suppress ∧ vproducts.contains sw.product = true ∧
    ∃ ca ∈ catLists peer, r.cat = ca.1 ∧ r.name ∉ ca.2 ∧ addExcluded ca.1 r.name = false ∧
      ∃ e ∈ DBm.cat db ca.1, e.name = r.name ∧ faults e = 0 ∧
        ∃ v0 rest, DBm.versions e = some v0 :: rest ∧ Version.versionFilter (some sw) false true v0 = true := by
  obtain ⟨ca, hca, e, he, hre, hs⟩ := (mem_recommendations db sw peer suppress r).mp h
  obtain ⟨h1, h2, h3, h4, h5, h6, _, v0, rest, hv, hvf⟩ := recOf_add sw _ ca.1 ca.2 e r hre ha
  have hk : vproducts.contains sw.product = true := by simpa using h6
  refine ⟨hs, hk, ca, hca, h2, h1 ▸ h3, h1 ▸ h5, e, he, h1.symm, h4, v0, rest, hv, ?_⟩
  rw [h6] at hvf; exact hvf

/-- **Unrecognised software gets no additions.** -/
theorem unknown_software_no_add (db : DB) (sw : Version.Software) (peer : Peer) (suppress : List Str)
    (hu : vproducts.contains sw.product = false) : ∀ r ∈ recommendations db (some sw) peer suppress, r.action ≠ .add := by
  intro r h ha
  have := (add_sound db sw peer suppress r h ha).2.1
  rw [hu] at this; cases this

/-- no software identified: no recommendations at all -/
theorem no_software_no_recs (db : DB) (peer : Peer) (suppress : List Str) : recommendations db none peer suppress = [] := rfl

/-- **Nothing is recommended both ways** (an addition and a removal/change of the same name in the same category) -/
theorem no_both_ways (db : DB) (sw : Version.Software) (peer : Peer) (suppress : List Str) (r1 r2 : Rec)
    (h1 : r1 ∈ recommendations db (some sw) peer suppress) (h2 : r2 ∈ recommendations db (some sw) peer suppress)
    (ha1 : r1.action = .add) (ha2 : r2.action = .del ∨ r2.action = .chg) (hc : r1.cat = r2.cat) (hcat : (catLists peer).map (·.1) |>.Nodup) :
    r1.name ≠ r2.name := by
  obtain ⟨_, _, ca1, hca1, hcat1, hn1, _⟩ := add_sound db sw peer suppress r1 h1 ha1
  obtain ⟨ca2, hca2, hcat2, hn2, _⟩ := del_chg_sound db sw peer suppress r2 h2 ha2
  intro hne
  have hsame : ca1 = ca2 := by
    have hf : ca1.1 = ca2.1 := by rw [← hcat1, ← hcat2, hc]
    -- the four category names are distinct, so the pair is determined by its name
    unfold catLists at hca1 hca2 hcat
    simp only [List.mem_cons, List.mem_nil_iff, or_false] at hca1 hca2
    simp only [List.map_cons, List.map_nil, List.nodup_cons, List.mem_cons, List.mem_nil_iff, or_false, not_or, List.not_mem_nil,
      not_false_eq_true, List.nodup_nil, and_true] at hcat
    obtain ⟨⟨h12, h13, h14⟩, ⟨h23, h24⟩, h34⟩ := hcat
    rcases hca1 with rfl | rfl | rfl | rfl <;> rcases hca2 with rfl | rfl | rfl | rfl <;> simp_all
  rw [hsame, hne] at hn1
  exact hn1 hn2

/-- the four category names are indeed distinct -/
theorem categories_distinct (peer : Peer) : ((catLists peer).map (·.1)).Nodup := by
  unfold catLists; simp only [List.map_cons, List.map_nil]; decide

/-- **critical ⇔ the algorithm has a failure**, whenever it carries fewer than ten warnings (true of every
    duplicate-free list: at most two table warnings plus two added notes; ≥ 10 duplicate ChaCha entries are observation D27) -/
theorem critical_iff_failure (db : DB) (sw : Version.Software) (peer : Peer) (suppress : List Str) (r : Rec)
    (h : r ∈ recommendations db (some sw) peer suppress) (ha : r.action = .del ∨ r.action = .chg) :
    ∃ e, (∃ c, e ∈ DBm.cat db c) ∧ e.name = r.name ∧ ((DBm.slot e 2).length < 10 → (recLevel r = 2 ↔ (DBm.slot e 1).length > 0)) := by
  obtain ⟨ca, _, _, _, e, he, hn, _, hp⟩ := del_chg_sound db sw peer suppress r h ha
  refine ⟨e, ⟨ca.1, he⟩, hn, fun hw => ?_⟩
  unfold recLevel
  rw [hp]; unfold faults
  constructor
  · intro h2
    split at h2
    · omega
    · split at h2 <;> cases h2
  · intro hf
    rw [if_pos (by omega)]

/-- **completeness (partial: names that are database keys themselves — gss names are known finding D12)**: an advertised entry
    rated with a failure or warning, known in the identified version (or with an empty version list) and not suppressed, is
    recommended for removal or change -/
theorem del_chg_complete_partial (db : DB) (sw : Version.Software) (peer : Peer) (suppress : List Str)
    (ca : Str × List Str) (hca : ca ∈ catLists peer) (e : Entry) (he : e ∈ DBm.cat db ca.1) (hadv : e.name ∈ ca.2) (hf : faults e > 0)
    (hv : versionOk sw (!vproducts.contains sw.product) e = true)
    (hs : e.name ∉ suppress) :
    ∃ r ∈ recommendations db (some sw) peer suppress, r.name = e.name ∧ (r.action = .del ∨ r.action = .chg) := by
  obtain ⟨r, hr, hn, ha, _⟩ := recOf_complete sw (!vproducts.contains sw.product) ca.1 ca.2 e hadv hf hv
  exact ⟨r, (mem_recommendations db sw peer suppress r).mpr ⟨ca, hca, e, he, hr, hn ▸ hs⟩, hn, ha⟩

end SshAudit.C13
