/- Helper lemmas for the Target model (C18).  Core Lean only. -/
import SshAudit.Model.Target
namespace SshAudit.Target
open SshAudit SshAudit.Text

/-! ### lists -/

theorem dropWhile_none {α} (p : α → Bool) (l : List α) (h : ∀ x ∈ l, p x = false) : l.dropWhile p = l := by
  cases l with
  | nil => rfl
  | cons a r => simp [List.dropWhile, h a (by simp)]

theorem takeWhile_all {α} (p : α → Bool) (l : List α) (h : ∀ x ∈ l, p x = true) : l.takeWhile p = l := by
  induction l with
  | nil => rfl
  | cons a r ih =>
    simp only [List.takeWhile, h a (by simp)]
    rw [ih (fun x hx => h x (by simp [hx]))]

theorem dropWhile_all {α} (p : α → Bool) (l : List α) (h : ∀ x ∈ l, p x = true) : l.dropWhile p = [] := by
  induction l with
  | nil => rfl
  | cons a r ih =>
    simp only [List.dropWhile, h a (by simp)]
    exact ih (fun x hx => h x (by simp [hx]))

theorem takeWhile_append_stop {α} (p : α → Bool) (l r : List α) (x : α) (h : ∀ y ∈ l, p y = true) (hx : p x = false) :
    (l ++ x :: r).takeWhile p = l := by
  induction l with
  | nil => simp [hx]
  | cons a t ih =>
    simp only [List.cons_append, List.takeWhile, h a (by simp)]
    rw [ih (fun y hy => h y (by simp [hy]))]

theorem dropWhile_append_stop {α} (p : α → Bool) (l r : List α) (x : α) (h : ∀ y ∈ l, p y = true) (hx : p x = false) :
    (l ++ x :: r).dropWhile p = x :: r := by
  induction l with
  | nil => simp [hx]
  | cons a t ih =>
    simp only [List.cons_append, List.dropWhile, h a (by simp)]
    exact ih (fun y hy => h y (by simp [hy]))

/-! ### `split` -/

theorem splitOn_ne_nil (c : Char) (s : Str) : splitOn c s ≠ [] := by
  induction s with
  | nil => simp [splitOn]
  | cons x xs ih =>
    unfold splitOn
    split
    · simp
    · split <;> simp

theorem splitOn_no_sep (c : Char) (s : Str) (h : c ∉ s) : splitOn c s = [s] := by
  induction s with
  | nil => rfl
  | cons x xs ih =>
    have hx : x ≠ c := fun e => h (by simp [e])
    have hxs : c ∉ xs := fun e => h (by simp [e])
    unfold splitOn
    simp [hx, ih hxs]

theorem splitOn_append_sep (c : Char) (a b : Str) (h : c ∉ a) : splitOn c (a ++ c :: b) = a :: splitOn c b := by
  induction a with
  | nil => simp [splitOn]
  | cons x xs ih =>
    have hx : x ≠ c := fun e => h (by simp [e])
    have hxs : c ∉ xs := fun e => h (by simp [e])
    simp only [List.cons_append]
    rw [splitOn]
    simp [hx, ih hxs]

theorem splitOn_length (c : Char) (s : Str) : (splitOn c s).length = s.count c + 1 := by
  induction s with
  | nil => simp [splitOn]
  | cons x xs ih =>
    unfold splitOn
    by_cases hx : x = c
    · subst hx; simp [ih]
    · have hne : (x == c) = false := by simp [hx]
      simp only [hx, if_false]
      have hnn := splitOn_ne_nil c xs
      cases hs : splitOn c xs with
      | nil => exact absurd hs hnn
      | cons p ps =>
        rw [hs] at ih
        simp only [List.length_cons] at ih ⊢
        rw [List.count_cons, hne]
        simpa using ih

/-! ### decimal digits -/

theorem isDigit_digitChar (d : Nat) (h : d < 10) : isDigit (digitChar d) = true := by
  have : d = 0 ∨ d = 1 ∨ d = 2 ∨ d = 3 ∨ d = 4 ∨ d = 5 ∨ d = 6 ∨ d = 7 ∨ d = 8 ∨ d = 9 := by omega
  rcases this with h | h | h | h | h | h | h | h | h | h <;> subst h <;> decide

theorem digitVal_digitChar (d : Nat) (h : d < 10) : digitVal (digitChar d) = d := by
  have : d = 0 ∨ d = 1 ∨ d = 2 ∨ d = 3 ∨ d = 4 ∨ d = 5 ∨ d = 6 ∨ d = 7 ∨ d = 8 ∨ d = 9 := by omega
  rcases this with h | h | h | h | h | h | h | h | h | h <;> subst h <;> decide

theorem showNat_lt (n : Nat) (h : n < 10) : showNat n = [digitChar n] := by
  rw [showNat]; simp [h]

theorem showNat_ge (n : Nat) (h : ¬ n < 10) : showNat n = showNat (n / 10) ++ [digitChar (n % 10)] := by
  rw [showNat]; simp [h]

theorem showNat_digits (n : Nat) : ∀ c ∈ showNat n, isDigit c = true := by
  induction n using Nat.strongRecOn with
  | _ n ih =>
    by_cases h : n < 10
    · rw [showNat_lt n h]; intro c hc; simp at hc; subst hc; exact isDigit_digitChar n h
    · rw [showNat_ge n h]
      intro c hc
      simp only [List.mem_append, List.mem_singleton] at hc
      rcases hc with hc | hc
      · exact ih (n / 10) (by omega) c hc
      · subst hc; exact isDigit_digitChar _ (by omega)

theorem showNat_ne_nil (n : Nat) : showNat n ≠ [] := by
  by_cases h : n < 10
  · rw [showNat_lt n h]; simp
  · rw [showNat_ge n h]; simp

theorem decVal_append_single (ds : Str) (c : Char) : decVal (ds ++ [c]) = decVal ds * 10 + digitVal c := by
  simp [decVal, List.foldl_append]

theorem decVal_showNat (n : Nat) : decVal (showNat n) = n := by
  induction n using Nat.strongRecOn with
  | _ n ih =>
    by_cases h : n < 10
    · rw [showNat_lt n h]; simp [decVal, digitVal_digitChar n h]
    · rw [showNat_ge n h, decVal_append_single, ih (n / 10) (by omega), digitVal_digitChar _ (by omega)]
      omega

theorem showNat_length_le (k n : Nat) (h : n < 10 ^ (k + 1)) : (showNat n).length ≤ k + 1 := by
  induction k generalizing n with
  | zero => rw [showNat_lt n (by simpa using h)]; simp
  | succ k ih =>
    by_cases h10 : n < 10
    · rw [showNat_lt n h10]; simp
    · rw [showNat_ge n h10]
      have : n / 10 < 10 ^ (k + 1) := by
        rw [Nat.div_lt_iff_lt_mul (by decide)]
        rw [Nat.pow_succ] at h; exact h
      have := ih (n / 10) this
      simp; omega

/-! ### `int()` on a digit string -/

theorem isDigit_not_intSpace (c : Char) (h : isDigit c = true) : intSpace c = false := by
  have h1 : 48 ≤ c.toNat ∧ c.toNat ≤ 57 := by
    simp only [isDigit, Bool.and_eq_true, decide_eq_true_eq] at h
    exact ⟨h.1, h.2⟩
  simp only [intSpace, pySpace, Bool.and_eq_false_iff, Bool.or_eq_false_iff, Bool.and_eq_false_iff,
    decide_eq_false_iff_not, beq_eq_false_iff_ne, Bool.not_eq_false']
  left
  omega

theorem intStrip_digits (ds : Str) (h : ∀ c ∈ ds, isDigit c = true) : intStrip ds = ds := by
  unfold intStrip
  rw [dropWhile_none intSpace ds (fun c hc => isDigit_not_intSpace c (h c hc))]
  rw [dropWhile_none intSpace ds.reverse (fun c hc => isDigit_not_intSpace c (h c (by simpa using hc)))]
  simp

theorem groupedDigits_digits (ds : Str) (hne : ds ≠ []) (h : ∀ c ∈ ds, isDigit c = true) : groupedDigits ds = some ds := by
  induction ds with
  | nil => exact absurd rfl hne
  | cons c r ih =>
    cases r with
    | nil => simp [groupedDigits, h c (by simp)]
    | cons d r' =>
      have hd : isDigit d = true := h d (by simp)
      have hdu : d ≠ '_' := by intro e; subst e; exact absurd hd (by decide)
      rw [groupedDigits]
      simp only [h c (by simp), Bool.not_true, Bool.false_eq_true, if_false, hdu]
      rw [ih (by simp) (fun x hx => h x (by simp [hx]))]
      rfl

theorem signSplit_digit (c : Char) (r : Str) (hc : isDigit c = true) : signSplit (c :: r) = (false, c :: r) := by
  have h1 : c ≠ '-' := by intro e; subst e; exact absurd hc (by decide)
  have h2 : c ≠ '+' := by intro e; subst e; exact absurd hc (by decide)
  unfold signSplit
  split
  · next heq => simp at heq; exact absurd heq.1 h1
  · next heq => simp at heq; exact absurd heq.1 h2
  · rfl

theorem pyInt_digits (ds : Str) (hne : ds ≠ []) (h : ∀ c ∈ ds, isDigit c = true) (hl : ds.length ≤ maxStrDigits) :
    pyInt ds = some ((decVal ds : Nat) : Int) := by
  unfold pyInt
  simp only [intStrip_digits ds h]
  cases ds with
  | nil => exact absurd rfl hne
  | cons c r =>
    rw [signSplit_digit c r (h c (by simp))]
    simp only [groupedDigits_digits (c :: r) hne h]
    have hl' : r.length + 1 ≤ maxStrDigits := by simpa using hl
    simp [hl']

end SshAudit.Target
