/-
  C01 / C02 / C03 for the SSH-1 audit report (`Model/Ssh1Report.lean`).

  For every public-key message (every pair of masks, every key), every banner, role and note text, every mask
  table and every state of the two rating databases:
  * the `(enc)` / `(aut)` lines are exactly the names whose bits are set, in table order, once each
    (through `C01.mask_mem`, `C01.mask_sublist`), the `(key)` section is the single line `ssh-rsa1`,
    no size suffix is ever appended;
  * the notes of a line are `algTexts db cat name` — a function of the database, the category and the name, the
    same in every audit (C03);
  * the exit status is the fold over the tagged notes shown: 3 iff some shown line has a failure note, else
    2 iff some has a warning, else 0 (C02), and no output option enters;
  * the JSON document lists the same names as the text and the same recommendations.  It carries **no**
    per-algorithm notes: `build_struct` emits bare name lists for an SSH-1 audit, so there is nothing to compare
    note by note (`json_lists` states the shape).
  With the regenerated tables (`decide +kernel`): which names carry failures, that nothing carries a warning and
  nothing is unknown, hence the status of an SSH-1 audit is 3 or 0 — and it **is 0** for a server that only offers
  3des / blowfish / idea with rsa / password / rhosts_rsa / tis (D22 together with D23).
-/
import SshAudit.Model.Ssh1Report
import SshAudit.Lemmas.Report
import SshAudit.Props.C01
import SshAudit.Props.C02
import SshAudit.Props.C03
import SshAudit.Gen.KexDB
import SshAudit.Gen.Tables
namespace SshAudit.C01Ssh1
open SshAudit SshAudit.Report SshAudit.Ssh1Report

/-! ### helper lemmas -/

theorem shownName_nil (rf : List Str) (cat n : Str) : shownName rf cat n [] [] = n := by
  unfold shownName
  split
  · rfl
  · split <;> rfl

/-- what a line of `lines db cat ns` is -/
theorem mem_lines (db : DB) (cat : Str) (ns : List Str) (l : AlgLine) :
    l ∈ lines db cat ns ↔ ∃ n ∈ ns, ∃ ts unk, algTexts db cat n = some (ts, unk) ∧
      l = { cat := cat, name := n, shown := n, notes := ts, unknown := unk } := by
  unfold lines algLines
  simp only [List.mem_filterMap, shownName_nil]
  constructor
  · rintro ⟨n, hn, h⟩
    cases ht : algTexts db cat n with
    | none => simp [ht] at h
    | some v => obtain ⟨ts, unk⟩ := v; simp [ht] at h; exact ⟨n, hn, ts, unk, ht, h.symm⟩
  · rintro ⟨n, hn, ts, unk, ht, rfl⟩
    exact ⟨n, hn, by simp [ht]⟩

theorem lines_names (db : DB) (cat : Str) (ns : List Str) : (lines db cat ns).map (·.name) = ns.filter (printed cat) :=
  algLines_names [] db cat ns [] []

theorem filter_eq_self_of_all {α : Type} (p : α → Bool) (l : List α) (h : ∀ a ∈ l, p a = true) : l.filter p = l :=
  List.filter_eq_self.mpr h

/-- is some note of level `lvl` attached to `name` by the database? -/
def hasLevel (lvl : Level) (db : DB) (cat n : Str) : Bool :=
  match algTexts db cat n with
  | some (ts, _) => ts.any (fun nt => decide (nt.level = lvl))
  | none => false

theorem lines_exists_level (lvl : Level) (db : DB) (cat : Str) (ns : List Str) :
    (∃ l ∈ lines db cat ns, ∃ nt ∈ l.notes, nt.level = lvl) ↔ ∃ n ∈ ns, hasLevel lvl db cat n = true := by
  constructor
  · rintro ⟨l, hl, nt, hnt, hlv⟩
    obtain ⟨n, hn, ts, unk, ht, rfl⟩ := (mem_lines db cat ns l).mp hl
    refine ⟨n, hn, ?_⟩
    unfold hasLevel
    rw [ht]
    simp only [List.any_eq_true, decide_eq_true_eq]
    exact ⟨nt, hnt, hlv⟩
  · rintro ⟨n, hn, h⟩
    unfold hasLevel at h
    cases ht : algTexts db cat n with
    | none => rw [ht] at h; cases h
    | some v =>
      obtain ⟨ts, unk⟩ := v
      rw [ht] at h
      simp only [List.any_eq_true, decide_eq_true_eq] at h
      obtain ⟨nt, hnt, hlv⟩ := h
      exact ⟨_, (mem_lines db cat ns _).mpr ⟨n, hn, ts, unk, ht, rfl⟩, nt, hnt, hlv⟩

theorem printed_rsa1 : printed keyC rsa1 = true := by decide +kernel

/-! ### C01 — exactly the advertised names -/

/-- **the host-key section is the single line `ssh-rsa1`** -/
theorem key_line (t : Tables) (db1 db2 : DB) (x : Input) :
    (report t db1 db2 x).key.map (·.name) = [rsa1] := by
  show (lines db1 keyC [rsa1]).map (·.name) = [rsa1]
  rw [lines_names]
  simp [printed_rsa1]

/-- **`(enc)` lines: the names of the set bits of the cipher mask** (non-blank ones — every name of the real table is, `gen_tables_printed`) -/
theorem enc_names_exact (t : Tables) (db1 db2 : DB) (x : Input) :
    (report t db1 db2 x).enc.map (·.name) = (maskNames t.ciphers 0 x.pkm.cmask).filter (printed encC) :=
  lines_names db1 encC _

/-- **`(aut)` lines: the names of the set bits (from bit 1) of the authentication mask** -/
theorem aut_names_exact (t : Tables) (db1 db2 : DB) (x : Input) :
    (report t db1 db2 x).aut.map (·.name) = (maskNames t.auths 1 x.pkm.amask).filter (printed autC) :=
  lines_names db1 autC _

/-- a cipher is listed iff its bit is set — every mask, every table, every database -/
theorem enc_listed_iff_bit (t : Tables) (db1 db2 : DB) (x : Input) (n : Str) :
    n ∈ (report t db1 db2 x).enc.map (·.name) ↔
      (∃ i, x.pkm.cmask.testBit i = true ∧ t.ciphers[i]? = some n) ∧ printed encC n = true := by
  rw [enc_names_exact, List.mem_filter, C01.mask_mem]
  simp

/-- an authentication type is listed iff its bit (index ≥ 1) is set -/
theorem aut_listed_iff_bit (t : Tables) (db1 db2 : DB) (x : Input) (n : Str) :
    n ∈ (report t db1 db2 x).aut.map (·.name) ↔
      (∃ i, 1 ≤ i ∧ x.pkm.amask.testBit i = true ∧ t.auths[i]? = some n) ∧ printed autC n = true := by
  rw [aut_names_exact, List.mem_filter, C01.mask_mem]

/-- table order, each name at most once per table position -/
theorem names_table_order (t : Tables) (db1 db2 : DB) (x : Input) :
    ((report t db1 db2 x).enc.map (·.name)).Sublist t.ciphers ∧ ((report t db1 db2 x).aut.map (·.name)).Sublist t.auths := by
  rw [enc_names_exact, aut_names_exact]
  exact ⟨(List.filter_sublist).trans (C01.mask_sublist _ _ _), (List.filter_sublist).trans (C01.mask_sublist _ _ _)⟩

/-- no key-size (or any other) suffix on the SSH-1 path: the shown name is the name, the category is the section's -/
theorem no_size_suffix (t : Tables) (db1 db2 : DB) (x : Input) :
    (∀ l ∈ (report t db1 db2 x).key, l.shown = l.name ∧ l.cat = keyC) ∧
    (∀ l ∈ (report t db1 db2 x).enc, l.shown = l.name ∧ l.cat = encC) ∧
    (∀ l ∈ (report t db1 db2 x).aut, l.shown = l.name ∧ l.cat = autC) := by
  refine ⟨?_, ?_, ?_⟩ <;>
  · intro l hl
    obtain ⟨n, _, ts, unk, _, rfl⟩ := (mem_lines _ _ _ l).mp hl
    exact ⟨rfl, rfl⟩

/-! ### C03 — the notes depend on (category, name) and the database alone -/

/-- **every line carries `algTexts db1 cat name`** — no mask, key, banner, role or option enters -/
theorem notes_function_of_name (t : Tables) (db1 db2 : DB) (x : Input) :
    (∀ l ∈ (report t db1 db2 x).key, algTexts db1 keyC l.name = some (l.notes, l.unknown)) ∧
    (∀ l ∈ (report t db1 db2 x).enc, algTexts db1 encC l.name = some (l.notes, l.unknown)) ∧
    (∀ l ∈ (report t db1 db2 x).aut, algTexts db1 autC l.name = some (l.notes, l.unknown)) := by
  refine ⟨?_, ?_, ?_⟩ <;>
  · intro l hl
    obtain ⟨n, _, ts, unk, ht, rfl⟩ := (mem_lines _ _ _ l).mp hl
    exact ht

/-- **the same name has the same notes in every audit**: other masks, other keys, other banners, even other mask
    tables and another SSH-2 database — as long as the SSH-1 database is the same -/
theorem notes_same_in_every_audit (t t' : Tables) (db1 db2 db2' : DB) (x x' : Input) :
    (∀ l ∈ (report t db1 db2 x).key, ∀ l' ∈ (report t' db1 db2' x').key, l.name = l'.name → l.notes = l'.notes ∧ l.unknown = l'.unknown) ∧
    (∀ l ∈ (report t db1 db2 x).enc, ∀ l' ∈ (report t' db1 db2' x').enc, l.name = l'.name → l.notes = l'.notes ∧ l.unknown = l'.unknown) ∧
    (∀ l ∈ (report t db1 db2 x).aut, ∀ l' ∈ (report t' db1 db2' x').aut, l.name = l'.name → l.notes = l'.notes ∧ l.unknown = l'.unknown) := by
  obtain ⟨a1, a2, a3⟩ := notes_function_of_name t db1 db2 x
  obtain ⟨b1, b2, b3⟩ := notes_function_of_name t' db1 db2' x'
  refine ⟨?_, ?_, ?_⟩
  · intro l hl l' hl' hn
    have h1 := a1 l hl; have h2 := b1 l' hl'
    rw [hn, h2] at h1; simp only [Option.some.injEq, Prod.mk.injEq] at h1; exact ⟨h1.1.symm, h1.2.symm⟩
  · intro l hl l' hl' hn
    have h1 := a2 l hl; have h2 := b2 l' hl'
    rw [hn, h2] at h1; simp only [Option.some.injEq, Prod.mk.injEq] at h1; exact ⟨h1.1.symm, h1.2.symm⟩
  · intro l hl l' hl' hn
    have h1 := a3 l hl; have h2 := b3 l' hl'
    rw [hn, h2] at h1; simp only [Option.some.injEq, Prod.mk.injEq] at h1; exact ⟨h1.1.symm, h1.2.symm⟩

/-- **the key material does not enter the report**: two messages with the same masks (whatever their cookies, key sizes,
    exponents, moduli, flags), shown with the same banner, role and rate notes, give the same report -/
theorem report_ignores_key_material (t : Tables) (db1 db2 : DB) (x x' : Input)
    (hc : x.pkm.cmask = x'.pkm.cmask) (ha : x.pkm.amask = x'.pkm.amask) (hb : x.banner = x'.banner)
    (hr : x.clientHost.isSome = x'.clientHost.isSome) (hn : x.rateNotes = x'.rateNotes) :
    report t db1 db2 x = report t db1 db2 x' := by
  simp only [Ssh1Report.report, ciphers, auths, hc, ha, hb, hr, hn]

/-! ### C02 — the exit status -/

/-- the value `output()` returns is the fold of `output_algorithm`'s rule over every tagged note shown, in order -/
theorem status_is_fold (t : Tables) (db1 db2 : DB) (x : Input) :
    (report t db1 db2 x).status = foldStatus 0 (shownNotes (report t db1 db2 x)) := by
  simp only [Ssh1Report.report, shownNotes, C02.statusOfLines_eq, List.flatMap_append, C02.foldStatus_append]

/-- **3 iff some shown line has a failure note; 2 iff none has but some has a warning; 0 iff every note is informational** -/
theorem status_iff (t : Tables) (db1 db2 : DB) (x : Input) :
    let r := report t db1 db2 x
    (r.status = 3 ↔ ∃ l ∈ r.key ++ r.enc ++ r.aut, ∃ n ∈ l.notes, n.level = .fail) ∧
    (r.status = 2 ↔ (∀ l ∈ r.key ++ r.enc ++ r.aut, ∀ n ∈ l.notes, n.level ≠ .fail) ∧ ∃ l ∈ r.key ++ r.enc ++ r.aut, ∃ n ∈ l.notes, n.level = .warn) ∧
    (r.status = 0 ↔ ∀ l ∈ r.key ++ r.enc ++ r.aut, ∀ n ∈ l.notes, n.level = .info) := by
  intro r
  have hs : r.status = foldStatus 0 (shownNotes r) := status_is_fold t db1 db2 x
  obtain ⟨h3, h2, h0⟩ := C02.status_iff (shownNotes r)
  have mem : ∀ n, n ∈ shownNotes r ↔ ∃ l ∈ r.key ++ r.enc ++ r.aut, n ∈ l.notes := by
    intro n; simp only [shownNotes, List.mem_flatMap]
  rw [hs]
  refine ⟨?_, ?_, ?_⟩
  · rw [h3]
    constructor
    · rintro ⟨n, hn, hl⟩; obtain ⟨l, hl', hnl⟩ := (mem n).mp hn; exact ⟨l, hl', n, hnl, hl⟩
    · rintro ⟨l, hl', n, hnl, hl⟩; exact ⟨n, (mem n).mpr ⟨l, hl', hnl⟩, hl⟩
  · rw [h2]
    constructor
    · rintro ⟨hf, n, hn, hl⟩
      obtain ⟨l, hl', hnl⟩ := (mem n).mp hn
      exact ⟨fun l0 hl0 n0 hn0 => hf n0 ((mem n0).mpr ⟨l0, hl0, hn0⟩), l, hl', n, hnl, hl⟩
    · rintro ⟨hf, l, hl', n, hnl, hl⟩
      refine ⟨fun n0 hn0 => ?_, n, (mem n).mpr ⟨l, hl', hnl⟩, hl⟩
      obtain ⟨l0, hl0, hn0'⟩ := (mem n0).mp hn0
      exact hf l0 hl0 n0 hn0'
  · rw [h0]
    constructor
    · intro h l hl n hn; exact h n ((mem n).mpr ⟨l, hl, hn⟩)
    · intro h n hn; obtain ⟨l, hl, hnl⟩ := (mem n).mp hn; exact h l hl n hnl

/-- no output option (batch, verbose, colour, level, JSON) enters the status -/
theorem status_option_free (cfg cfg' : Output.Cfg) (r : Report1) : exitStatus cfg r = exitStatus cfg' r := rfl

/-- status 3 in terms of names: some listed name has a failure note in the database -/
theorem status_three_iff_names (t : Tables) (db1 db2 : DB) (x : Input) :
    (report t db1 db2 x).status = 3 ↔
      hasLevel .fail db1 keyC rsa1 = true ∨ (∃ n ∈ ciphers t x.pkm, hasLevel .fail db1 encC n = true) ∨
      (∃ n ∈ auths t x.pkm, hasLevel .fail db1 autC n = true) := by
  rw [(status_iff t db1 db2 x).1]
  have e1 := lines_exists_level .fail db1 keyC [rsa1]
  have e2 := lines_exists_level .fail db1 encC (ciphers t x.pkm)
  have e3 := lines_exists_level .fail db1 autC (auths t x.pkm)
  show (∃ l ∈ lines db1 keyC [rsa1] ++ lines db1 encC (ciphers t x.pkm) ++ lines db1 autC (auths t x.pkm), ∃ n ∈ l.notes, n.level = .fail) ↔ _
  simp only [List.mem_append, or_and_right, exists_or]
  rw [e1, e2, e3]
  simp [or_assoc]

/-! ### text and JSON -/

/-- the shape of the JSON document: bare name lists straight from the masks, `key = ['ssh-rsa1']`, one fingerprint entry
    of type `ssh-rsa1` holding the SHA-256 text of `modulus ‖ exponent` (no per-algorithm notes exist in this view) -/
theorem json_lists (t : Tables) (h : Hashes) (db1 db2 : DB) (x : Input) :
    let d := doc t h db1 db2 x
    d.key = [rsa1] ∧ d.enc = some (maskNames t.ciphers 0 x.pkm.cmask) ∧ d.aut = some (maskNames t.auths 1 x.pkm.amask) ∧
    d.fpType = rsa1 ∧ d.fp = some (h.sha256 (fpData x.pkm)) ∧
    (d.clientIp.isSome = !d.target.isSome) := by
  refine ⟨rfl, rfl, rfl, rfl, rfl, ?_⟩
  show x.clientHost.isSome = !(if x.clientHost.isSome then none else some x.hostPort).isSome
  cases x.clientHost <;> rfl

/-- **text and JSON list the same names**, for tables without blank names (the real ones: `gen_tables_printed`) -/
theorem json_names_eq_text (t : Tables) (h : Hashes) (db1 db2 : DB) (x : Input)
    (hc : ∀ n ∈ t.ciphers, printed encC n = true) (ha : ∀ n ∈ t.auths, printed autC n = true) :
    (doc t h db1 db2 x).key = (report t db1 db2 x).key.map (·.name) ∧
    (doc t h db1 db2 x).enc = some ((report t db1 db2 x).enc.map (·.name)) ∧
    (doc t h db1 db2 x).aut = some ((report t db1 db2 x).aut.map (·.name)) := by
  rw [key_line, enc_names_exact, aut_names_exact]
  rw [filter_eq_self_of_all _ _ (fun n hn => hc n ((C01.mask_sublist _ _ _).subset hn)),
      filter_eq_self_of_all _ _ (fun n hn => ha n ((C01.mask_sublist _ _ _).subset hn))]
  exact ⟨rfl, rfl, rfl⟩

/-- the JSON document carries the recommendations and the additional notes of the text report -/
theorem json_recs_eq_text (t : Tables) (h : Hashes) (db1 db2 : DB) (x : Input) :
    (doc t h db1 db2 x).recs = (report t db1 db2 x).recs ∧ (doc t h db1 db2 x).notes = (report t db1 db2 x).notes := ⟨rfl, rfl⟩

/-! ### recommendations -/

theorem recOf_cat (sw : Version.Software) (u : Bool) (c : Str) (adv : List Str) (e : Entry) (r : Rec) (h : recOf sw u c adv e = some r) :
    r.cat = c ∧ r.name = e.name ∧ (r.action ≠ .add → adv.contains e.name = true ∧ r.points > 0) := by
  unfold recOf at h
  split at h
  · cases h
  · split at h
    · split at h
      · cases h
      · simp only [Option.some.injEq] at h; subst h; exact ⟨rfl, rfl, fun hh => absurd rfl hh⟩
    · next hadv =>
      split at h
      · cases h
      · next hf =>
        have hp : faults e > 0 := Nat.pos_of_ne_zero hf
        have hc : adv.contains e.name = true := by simpa using hadv
        split at h <;> (simp only [Option.some.injEq] at h; subst h; exact ⟨rfl, rfl, fun _ => ⟨hc, hp⟩⟩)

theorem mem_recsFor (db : DB) (sw : Version.Software) (cats : List (Str × List Str)) (sup : List Str) (r : Rec)
    (h : r ∈ recsFor db (some sw) cats sup) :
    ∃ c adv e, (c, adv) ∈ cats ∧ e ∈ DBm.cat db c ∧ recOf sw (!vproducts.contains sw.product) c adv e = some r := by
  simp only [recsFor, List.mem_flatMap] at h
  obtain ⟨⟨c, adv⟩, hc, hr⟩ := h
  simp only [List.mem_append, List.mem_filter, List.mem_filterMap] at hr
  rcases hr with (⟨⟨e, he, hre⟩, _⟩ | ⟨⟨e, he, hre⟩, _⟩) | ⟨⟨e, he, hre⟩, _⟩ <;> exact ⟨c, adv, e, hc, he, hre⟩

/-- only `key` and `enc` are ever recommended on: authentication types are skipped -/
theorem recs_key_enc_only (t : Tables) (db1 db2 : DB) (x : Input) :
    ∀ r ∈ (report t db1 db2 x).recs, r.cat = keyC ∨ r.cat = encC := by
  intro r hr
  change r ∈ recs1 db1 (softwareOf x.banner) (ciphers t x.pkm) (suppress1 db2) at hr
  unfold recs1 at hr
  cases hs : softwareOf x.banner with
  | none => rw [hs] at hr; simp [recsFor] at hr
  | some sw =>
    rw [hs] at hr
    obtain ⟨c, adv, e, hc, _, hre⟩ := mem_recsFor _ _ _ _ _ hr
    have := (recOf_cat _ _ _ _ _ _ hre).1
    simp only [List.mem_cons, Prod.mk.injEq, List.not_mem_nil, or_false] at hc
    rcases hc with ⟨h1, _⟩ | ⟨h1, _⟩
    · left; rw [this, h1]
    · right; rw [this, h1]

/-- no banner, or a banner whose software is not recognised: no recommendation at all (and then no hardening-guide note either) -/
theorem recs_none_without_software (t : Tables) (db1 db2 : DB) (x : Input) (h : softwareOf x.banner = none) :
    (report t db1 db2 x).recs = [] := by
  show recs1 db1 (softwareOf x.banner) _ _ = []
  rw [h]; rfl

/-- a removal / change is only ever recommended for a name the peer advertised (`ssh-rsa1`, or a cipher whose bit is set)
    that carries a failure or a warning in the database -/
theorem recs_removal_only_advertised (t : Tables) (db1 db2 : DB) (x : Input) :
    ∀ r ∈ (report t db1 db2 x).recs, r.action ≠ .add →
      r.points > 0 ∧ ((r.cat = keyC ∧ r.name = rsa1) ∨ (r.cat = encC ∧ r.name ∈ ciphers t x.pkm)) := by
  intro r hr hne
  change r ∈ recs1 db1 (softwareOf x.banner) (ciphers t x.pkm) (suppress1 db2) at hr
  unfold recs1 at hr
  cases hs : softwareOf x.banner with
  | none => rw [hs] at hr; simp [recsFor] at hr
  | some sw =>
    rw [hs] at hr
    obtain ⟨c, adv, e, hc, _, hre⟩ := mem_recsFor _ _ _ _ _ hr
    obtain ⟨h1, h2, h3⟩ := recOf_cat _ _ _ _ _ _ hre
    obtain ⟨hadv, hp⟩ := h3 hne
    refine ⟨hp, ?_⟩
    simp only [List.mem_cons, Prod.mk.injEq, List.not_mem_nil, or_false] at hc
    rcases hc with ⟨hc1, hc2⟩ | ⟨hc1, hc2⟩
    · left; subst hc1 hc2
      refine ⟨h1, ?_⟩
      rw [h2]; simpa using hadv
    · right; subst hc1 hc2
      refine ⟨h1, ?_⟩
      rw [h2]; simpa using hadv

/-- the SSH-1 branch of `post_process_findings` is the SSH-2 function on a peer that offers nothing: no database edit,
    no Terrapin finding, the three "not enabled" families as the suppress list, the rate notes as the only note -/
theorem postprocess_agrees (db2 : DB) (client : Bool) (bsw : Option Str) (rate : Str) :
    (postProcess db2 noPeer client bsw rate).db = db2 ∧
    (postProcess db2 noPeer client bsw rate).suppress = suppress1 db2 ∧
    (postProcess db2 noPeer client bsw rate).notes = notes1 rate ∧
    (postProcess db2 noPeer client bsw rate).vulnerable = [] := by
  cases client <;>
    simp [postProcess, noPeer, dbAfterTerrapin, dbAfterFallback, fallbackApplies, markerFor, Venc, Vmac, both, ciphersOf, macsOf,
      suppress1, notes1]

/-- the recommendation pass is the one of the SSH-2 report, run on other (category, list) pairs -/
theorem recs_shared (db : DB) (sw : Option Version.Software) (peer : Peer) (sup : List Str) :
    recommendations db sw peer sup = recsFor db sw [(kexC, peer.kex), (keyC, peer.key), (encC, peer.encS), (macC, peer.macS)] sup := by
  cases sw <;> rfl

/-! ### the lines that depend on the banner's protocol, and the fingerprint -/

/-- with a banner, the general section shows it **as a failure** and adds `(gen) protocol SSH1 enabled`, whatever protocol
    the banner itself names (`sshv == 1`) -/
theorem general_flags_ssh1 (h : Hashes) (x : Input) (r : Report1) (b : Banner.Banner) (hb : x.banner = some b) :
    ({ meth := .fail, text := s "(gen) banner: " ++ Banner.render b } : Output.Item) ∈ Output.generalItems (outInput h x r false) ∧
    ({ meth := .fail, text := s "(gen) protocol SSH1 enabled" } : Output.Item) ∈ Output.generalItems (outInput h x r false) := by
  simp [Output.generalItems, outInput, hb]

/-- the `(sec) SSH v1 enabled` line is printed iff the banner names protocol major 1 (1.5, 1.99) -/
theorem security_iff_protocol1 (cfg : Output.Cfg) (h : Hashes) (x : Input) (r : Report1) :
    Output.securityItems cfg (outInput h x r true) ≠ [] ↔ ∃ b, x.banner = some b ∧ b.protocol.1 = 1 := by
  cases hb : x.banner with
  | none => simp [Output.securityItems, outInput, hb]
  | some b =>
    by_cases hp : b.protocol.1 = 1 <;> simp [Output.securityItems, outInput, hb, hp]

/-- the fingerprint section: the SHA-256 text of `modulus ‖ exponent` under the type `ssh-rsa1`; the MD5 text in verbose mode -/
theorem fingerprint_items (cfg : Output.Cfg) (h : Hashes) (x : Input) (r : Report1) :
    (outInput h x r false).fps.flatMap (Output.fpItems cfg) =
      [{ meth := .good, text := s "(fin) " ++ rsa1 ++ s ": " ++ h.sha256 (fpData x.pkm) }] ++
      (if cfg.verbose then
        [{ meth := .warn, text := s "(fin) " ++ rsa1 ++ s ": " ++ h.md5 (fpData x.pkm) ++
            s " -- [info] do not rely on MD5 fingerprints for server identification; it is insecure for this use case" }]
       else []) := by
  have hw : Output.weakFpType rsa1 = false := by decide +kernel
  simp [outInput, Output.fpItems, hw]

/-! ### the regenerated tables -/

def genTables : Tables := { ciphers := Gen.ssh1Ciphers, auths := Gen.ssh1Auths }

def failCiphers : List Str := [s "none", s "des", s "tss", s "rc4"]
def failAuths : List Str := [s "rhosts", s "kerberos"]
def cleanCiphers : List Str := [s "idea", s "3des", s "blowfish"]
def cleanAuths : List Str := [s "rsa", s "password", s "rhosts_rsa", s "tis"]

/-- every name of `SSH1.CIPHERS` / `SSH1.AUTHS` is non-blank: none is ever dropped from the text -/
theorem gen_tables_printed : (∀ n ∈ Gen.ssh1Ciphers, printed encC n = true) ∧ (∀ n ∈ Gen.ssh1Auths, printed autC n = true) := by
  decide +kernel

/-- **with the real tables the `(enc)` / `(aut)` lines are exactly the set bits' names, in table order** — every mask, every database -/
theorem gen_names_exact (db1 db2 : DB) (x : Input) :
    (report genTables db1 db2 x).enc.map (·.name) = maskNames Gen.ssh1Ciphers 0 x.pkm.cmask ∧
    (report genTables db1 db2 x).aut.map (·.name) = maskNames Gen.ssh1Auths 1 x.pkm.amask := by
  rw [enc_names_exact, aut_names_exact]
  exact ⟨filter_eq_self_of_all _ _ (fun n hn => gen_tables_printed.1 n ((C01.mask_sublist _ _ _).subset hn)),
         filter_eq_self_of_all _ _ (fun n hn => gen_tables_printed.2 n ((C01.mask_sublist _ _ _).subset hn))⟩

theorem gen_known_tab :
    (∀ n ∈ Gen.ssh1Ciphers, (algTexts Gen.ssh1db encC n).map (·.2) = some false) ∧
    (∀ n ∈ Gen.ssh1Auths.drop 1, (algTexts Gen.ssh1db autC n).map (·.2) = some false) ∧
    (algTexts Gen.ssh1db keyC rsa1).map (·.2) = some false := by
  decide +kernel

theorem maskFrom_start_subset (start mask : Nat) (i : Nat) (names : List Str) :
    ∀ n ∈ maskFrom start mask i names, n ∈ names.drop (start - i) := by
  induction names generalizing i with
  | nil => intro n h; simp [maskFrom] at h
  | cons y ys ih =>
    intro n h
    unfold maskFrom at h
    by_cases hi : start ≤ i
    · have : start - i = 0 := by omega
      rw [this, List.drop_zero]
      split at h
      · rcases List.mem_cons.mp h with rfl | h'
        · exact List.mem_cons_self
        · have := ih (i + 1) n h'
          exact List.mem_cons_of_mem _ (List.mem_of_mem_drop this)
      · have := ih (i + 1) n h
        exact List.mem_cons_of_mem _ (List.mem_of_mem_drop this)
    · have hc : (decide (i ≥ start) && mask.testBit i) = false := by simp [hi]
      rw [hc] at h
      simp only [Bool.false_eq_true, if_false] at h
      have := ih (i + 1) n h
      have e : start - i = (start - (i + 1)) + 1 := by omega
      rw [e, List.drop_succ_cons]
      exact this

/-- the authentication names come from the table without its first entry (`range(1, …)`) -/
theorem auths_subset_tail (t : Tables) (p : Wire.Pkm) : ∀ n ∈ auths t p, n ∈ t.auths.drop 1 :=
  maskFrom_start_subset 1 p.amask 0 t.auths

theorem unknown_eq (t : Tables) (db1 db2 : DB) (x : Input) :
    (Ssh1Report.report t db1 db2 x).unknown =
      (lines db1 keyC [rsa1] ++ lines db1 encC (ciphers t x.pkm) ++ lines db1 autC (auths t x.pkm)).filterMap
        (fun l => if l.unknown then some (gssNormalize l.cat l.name) else none) := rfl

/-- nothing an SSH-1 peer can advertise is unknown to the SSH-1 database -/
theorem gen_all_known (db2 : DB) (x : Input) : (report genTables Gen.ssh1db db2 x).unknown = [] := by
  rw [unknown_eq, List.filterMap_eq_nil_iff]
  intro l hl
  obtain ⟨k1, k2, k3⟩ := gen_known_tab
  have hu : l.unknown = false := by
    simp only [List.mem_append] at hl
    rcases hl with (hl | hl) | hl
    · obtain ⟨n, hn, ts, unk, ht, rfl⟩ := (mem_lines _ _ _ l).mp hl
      simp only [List.mem_cons, List.not_mem_nil, or_false] at hn; subst hn
      rw [ht] at k3; simpa using k3
    · obtain ⟨n, hn, ts, unk, ht, rfl⟩ := (mem_lines _ _ _ l).mp hl
      have := k1 n ((C01.mask_sublist _ _ _).subset hn)
      rw [ht] at this; simpa using this
    · obtain ⟨n, hn, ts, unk, ht, rfl⟩ := (mem_lines _ _ _ l).mp hl
      have := k2 n (auths_subset_tail genTables x.pkm n hn)
      rw [ht] at this; simpa using this
  simp [hu]

/-- **what the SSH-1 database fails**: `none`, `des`, `tss`, `rc4` among the ciphers, `rhosts`, `kerberos` among the
    authentication types — and neither `ssh-rsa1` nor `idea`, `3des`, `blowfish` (D22) -/
theorem gen_fail_names :
    Gen.ssh1Ciphers.filter (hasLevel .fail Gen.ssh1db encC) = failCiphers ∧
    (Gen.ssh1Auths.drop 1).filter (hasLevel .fail Gen.ssh1db autC) = failAuths ∧
    hasLevel .fail Gen.ssh1db keyC rsa1 = false := by
  decide +kernel

/-- no SSH-1 name carries a warning -/
theorem gen_no_warnings :
    (∀ n ∈ Gen.ssh1Ciphers, hasLevel .warn Gen.ssh1db encC n = false) ∧
    (∀ n ∈ Gen.ssh1Auths.drop 1, hasLevel .warn Gen.ssh1db autC n = false) ∧
    hasLevel .warn Gen.ssh1db keyC rsa1 = false := by
  decide +kernel

theorem mem_filter_of {α : Type} {p : α → Bool} {l r : List α} (h : l.filter p = r) (a : α) (ha : a ∈ l) : p a = true ↔ a ∈ r := by
  rw [← h, List.mem_filter]; simp [ha]

/-- **status 3 iff a failed name is offered** — for every pair of masks -/
theorem gen_status_three_iff (db2 : DB) (x : Input) :
    (report genTables Gen.ssh1db db2 x).status = 3 ↔
      (∃ n ∈ ciphers genTables x.pkm, n ∈ failCiphers) ∨ (∃ n ∈ auths genTables x.pkm, n ∈ failAuths) := by
  rw [status_three_iff_names]
  obtain ⟨f1, f2, f3⟩ := gen_fail_names
  rw [f3]
  simp only [Bool.false_eq_true, false_or]
  constructor
  · rintro (⟨n, hn, hf⟩ | ⟨n, hn, hf⟩)
    · exact Or.inl ⟨n, hn, (mem_filter_of f1 n ((C01.mask_sublist _ _ _).subset hn)).mp hf⟩
    · exact Or.inr ⟨n, hn, (mem_filter_of f2 n (auths_subset_tail genTables x.pkm n hn)).mp hf⟩
  · rintro (⟨n, hn, hf⟩ | ⟨n, hn, hf⟩)
    · exact Or.inl ⟨n, hn, (mem_filter_of f1 n ((C01.mask_sublist _ _ _).subset hn)).mpr hf⟩
    · exact Or.inr ⟨n, hn, (mem_filter_of f2 n (auths_subset_tail genTables x.pkm n hn)).mpr hf⟩

/-- does table position `i` hold one of the names `F`? -/
def flaggedAt (T F : List Str) (i : Nat) : Bool :=
  match T[i]? with
  | some n => F.contains n
  | none => false

theorem exists_mask_flagged (T F : List Str) (start m : Nat) :
    (∃ n ∈ maskNames T start m, n ∈ F) ↔ ∃ i, start ≤ i ∧ m.testBit i = true ∧ flaggedAt T F i = true := by
  constructor
  · rintro ⟨n, hn, hf⟩
    obtain ⟨i, h1, h2, h3⟩ := (C01.mask_mem T start m n).mp hn
    exact ⟨i, h1, h2, by simp [flaggedAt, h3, hf]⟩
  · rintro ⟨i, h1, h2, h3⟩
    unfold flaggedAt at h3
    cases ht : T[i]? with
    | none => rw [ht] at h3; cases h3
    | some n =>
      rw [ht] at h3
      exact ⟨n, (C01.mask_mem T start m n).mpr ⟨i, h1, h2, ht⟩, by simpa using h3⟩

theorem failCipher_index (i : Nat) : flaggedAt Gen.ssh1Ciphers failCiphers i = true ↔ (i = 0 ∨ i = 2 ∨ i = 4 ∨ i = 5) := by
  match i with
  | 0 | 1 | 2 | 3 | 4 | 5 | 6 => decide +kernel
  | k + 7 =>
    have : Gen.ssh1Ciphers[k + 7]? = none := by simp [Gen.ssh1Ciphers]
    simp [flaggedAt, this]

theorem failAuth_index (i : Nat) : flaggedAt Gen.ssh1Auths failAuths i = true ↔ (i = 1 ∨ i = 6) := by
  match i with
  | 0 | 1 | 2 | 3 | 4 | 5 | 6 => decide +kernel
  | k + 7 =>
    have : Gen.ssh1Auths[k + 7]? = none := by simp [Gen.ssh1Auths]
    simp [flaggedAt, this]

/-- **status 3 in terms of the two masks**: the exit status of an SSH-1 audit is 3 exactly when the cipher mask has bit 0, 2, 4 or 5
    (`none`, `des`, `tss`, `rc4`) or the authentication mask has bit 1 or 6 (`rhosts`, `kerberos`); otherwise it is 0 -/
theorem gen_status_three_iff_bits (db2 : DB) (x : Input) :
    (report genTables Gen.ssh1db db2 x).status = 3 ↔
      (x.pkm.cmask.testBit 0 = true ∨ x.pkm.cmask.testBit 2 = true ∨ x.pkm.cmask.testBit 4 = true ∨ x.pkm.cmask.testBit 5 = true) ∨
      (x.pkm.amask.testBit 1 = true ∨ x.pkm.amask.testBit 6 = true) := by
  rw [gen_status_three_iff]
  show (∃ n ∈ maskNames Gen.ssh1Ciphers 0 x.pkm.cmask, n ∈ failCiphers) ∨ (∃ n ∈ maskNames Gen.ssh1Auths 1 x.pkm.amask, n ∈ failAuths) ↔ _
  rw [exists_mask_flagged, exists_mask_flagged]
  simp only [failCipher_index, failAuth_index]
  constructor
  · rintro (⟨i, _, hb, (rfl | rfl | rfl | rfl)⟩ | ⟨i, _, hb, (rfl | rfl)⟩) <;> simp [hb]
  · rintro ((h | h | h | h) | (h | h))
    · exact Or.inl ⟨0, Nat.zero_le _, h, Or.inl rfl⟩
    · exact Or.inl ⟨2, Nat.zero_le _, h, Or.inr (Or.inl rfl)⟩
    · exact Or.inl ⟨4, Nat.zero_le _, h, Or.inr (Or.inr (Or.inl rfl))⟩
    · exact Or.inl ⟨5, Nat.zero_le _, h, Or.inr (Or.inr (Or.inr rfl))⟩
    · exact Or.inr ⟨1, Nat.le_refl _, h, Or.inl rfl⟩
    · exact Or.inr ⟨6, by omega, h, Or.inr rfl⟩

/-- the status of an SSH-1 audit is 3 or 0, never 2 (no SSH-1 name is rated with a warning, none is unknown) -/
theorem gen_status_zero_or_three (db2 : DB) (x : Input) :
    (report genTables Gen.ssh1db db2 x).status = 0 ∨ (report genTables Gen.ssh1db db2 x).status = 3 := by
  have hs := status_is_fold genTables Gen.ssh1db db2 x
  rcases C02.status_range (shownNotes (report genTables Gen.ssh1db db2 x)) with h | h | h
  · left; rw [hs, h]
  · exfalso
    rw [← hs] at h
    obtain ⟨_, l, hl, n, hn, hw⟩ := ((status_iff genTables Gen.ssh1db db2 x).2.1).mp h
    obtain ⟨w1, w2, w3⟩ := gen_no_warnings
    have key : ∀ cat ns, (∀ m ∈ ns, hasLevel .warn Gen.ssh1db cat m = false) → l ∈ lines Gen.ssh1db cat ns → False := by
      intro cat ns hall hl'
      obtain ⟨m, hm, hmw⟩ := (lines_exists_level .warn Gen.ssh1db cat ns).mp ⟨l, hl', n, hn, hw⟩
      rw [hall m hm] at hmw; cases hmw
    change l ∈ lines Gen.ssh1db keyC [rsa1] ++ lines Gen.ssh1db encC (ciphers genTables x.pkm) ++ lines Gen.ssh1db autC (auths genTables x.pkm) at hl
    simp only [List.mem_append] at hl
    rcases hl with (hl | hl) | hl
    · exact key keyC [rsa1] (by intro m hm; simp only [List.mem_cons, List.not_mem_nil, or_false] at hm; subst hm; exact w3) hl
    · exact key encC _ (fun m hm => w1 m ((C01.mask_sublist _ _ _).subset hm)) hl
    · exact key autC _ (fun m hm => w2 m (auths_subset_tail genTables x.pkm m hm)) hl
  · right; rw [hs, h]

/-- **an SSH-1 server can exit with status 0**: whenever it offers only `idea` / `3des` / `blowfish` and only `rsa` /
    `password` / `rhosts_rsa` / `tis`, no shown line carries a failure or a warning (D22), and the fail-coloured
    `(gen) protocol SSH1 enabled` / `(sec) SSH v1 enabled` lines do not count (D23).  So "an SSH-1 audit of a peer
    offering any cipher is at least a warning" is **false** for the code as it is. -/
theorem gen_clean_ssh1_exit_zero (db2 : DB) (x : Input)
    (hc : ∀ n ∈ ciphers genTables x.pkm, n ∈ cleanCiphers) (ha : ∀ n ∈ auths genTables x.pkm, n ∈ cleanAuths) :
    (report genTables Gen.ssh1db db2 x).status = 0 := by
  rcases gen_status_zero_or_three db2 x with h | h
  · exact h
  · exfalso
    rcases (gen_status_three_iff db2 x).mp h with ⟨n, hn, hf⟩ | ⟨n, hn, hf⟩
    · have := hc n hn
      revert hf this
      simp only [failCiphers, cleanCiphers, List.mem_cons, List.not_mem_nil, or_false]
      rintro (rfl | rfl | rfl | rfl) <;> decide
    · have := ha n hn
      revert hf this
      simp only [failAuths, cleanAuths, List.mem_cons, List.not_mem_nil, or_false]
      rintro (rfl | rfl) <;> decide

/-! ### non-vacuity -/

def pkmOf (c a : Nat) : Wire.Pkm :=
  { cookie := [], skBits := 768, skE := 65537, skN := 12345, hkBits := 1024, hkE := 65537, hkN := 0x7654321, pflags := 2, cmask := c, amask := a }

def b15 : Banner.Banner := { protocol := (1, 5), software := some (s "OpenSSH_3.9"), comments := none, validAscii := true }

-- 3des + rsa: a clean SSH-1 audit (the hypothesis of `gen_clean_ssh1_exit_zero` is satisfiable), status 0
example : ciphers genTables (pkmOf 8 4) = [s "3des"] ∧ auths genTables (pkmOf 8 4) = [s "rsa"] ∧
    (report genTables Gen.ssh1db Gen.ssh2db { pkm := pkmOf 8 4, banner := some b15 }).status = 0 := by decide +kernel
-- everything: 13 lines + ssh-rsa1, status 3
example : (report genTables Gen.ssh1db Gen.ssh2db { pkm := pkmOf 0x7f 0x7f }).enc.map (·.name) = Gen.ssh1Ciphers ∧
    (report genTables Gen.ssh1db Gen.ssh2db { pkm := pkmOf 0x7f 0x7f }).aut.map (·.name) = Gen.ssh1Auths.drop 1 ∧
    (report genTables Gen.ssh1db Gen.ssh2db { pkm := pkmOf 0x7f 0x7f }).status = 3 := by decide +kernel
-- the only failure is an authentication type
example : (report genTables Gen.ssh1db Gen.ssh2db { pkm := pkmOf 8 2 }).status = 3 := by decide +kernel
-- bits outside the tables list nothing
example : (report genTables Gen.ssh1db Gen.ssh2db { pkm := pkmOf 0x80 0x81 }).enc = [] ∧
    (report genTables Gen.ssh1db Gen.ssh2db { pkm := pkmOf 0x80 0x81 }).aut = [] := by decide +kernel
-- notes: failure first, then the since-text
example : (report genTables Gen.ssh1db Gen.ssh2db { pkm := pkmOf 1 0 }).enc.map (·.notes) =
    [[{ level := .fail, text := s "no encryption/integrity" }, { level := .info, text := s "available since OpenSSH 1.2.2" }]] := by decide +kernel
-- a status-2 report exists for another database state (the `= 2` clause of `status_iff` is not vacuous)
example : (report genTables [(encC, [{ name := s "3des", desc := [[], [], [some (s "weak")]] }])] [] { pkm := pkmOf 8 0 }).status = 2 := by decide +kernel
-- recommendations: OpenSSH 3.9 offering `none` and `des` is told to remove `none` (des is a client-only entry for OpenSSH) and to append `3des`, `blowfish`
example : (report genTables Gen.ssh1db Gen.ssh2db { pkm := pkmOf 5 4, banner := some b15 }).recs =
    [{ cat := encC, action := .del, name := s "none", points := 10 }, { cat := encC, action := .add, name := s "3des", points := 0 },
     { cat := encC, action := .add, name := s "blowfish", points := 0 }] := by decide +kernel
-- no banner: no recommendation
example : (report genTables Gen.ssh1db Gen.ssh2db { pkm := pkmOf 5 4 }).recs = [] := by decide +kernel
-- JSON: bare lists
example : (doc genTables { sha256 := fun _ => s "SHA256:x", md5 := fun _ => s "MD5:y" } Gen.ssh1db Gen.ssh2db { pkm := pkmOf 9 6 }).enc = some [s "none", s "3des"] := by
  decide +kernel

end SshAudit.C01Ssh1
